package sim

import (
	"bytes"
	"fmt"
	"sort"

	"github.com/idena-network/idena-go/blockchain/types"
	"github.com/idena-network/idena-go/common"
	"github.com/idena-network/idena-go/core/appstate"
	"github.com/idena-network/idena-go/core/state"
	"github.com/idena-network/idena-go/core/validators"
	dbm "github.com/tendermint/tm-db"
)

// StateImage is a readable dump of the ledger part of a state (accounts,
// identities, global record), used for diagnostics and for full-state oracles.
type StateImage struct {
	Accounts   map[common.Address]state.Account
	Identities map[common.Address]state.Identity
	RawIds     map[common.Address][]byte
	Global     []byte
	Misc       map[string]string
}

func Image(s *appstate.AppState) *StateImage {
	img := &StateImage{Accounts: map[common.Address]state.Account{}, Identities: map[common.Address]state.Identity{}, RawIds: map[common.Address][]byte{}}
	s.State.IterateOverAccounts(func(addr common.Address, a state.Account) { img.Accounts[addr] = a })
	s.State.IterateOverIdentities(func(addr common.Address, i state.Identity) {
		img.Identities[addr] = i
		img.RawIds[addr] = s.State.RawIdentity(addr)
	})
	img.Global = s.State.RawGlobal()
	img.Misc = map[string]string{}
	img.Misc["statusSwitch"] = fmt.Sprint(s.State.StatusSwitchAddresses())
	img.Misc["delegations"] = fmt.Sprint(len(s.State.Delegations()))
	for i, d := range s.State.Delegations() {
		img.Misc[fmt.Sprintf("delegation%d", i)] = fmt.Sprintf("%x->%x", d.Delegator, d.Delegatee)
	}
	img.Misc["delayedPenalties"] = fmt.Sprint(s.State.DelayedOfflinePenalties())
	img.Misc["discrSwitch"] = fmt.Sprint(s.State.DiscriminationStatusSwitchAddresses())
	s.State.IterateBurntCoins(func(height uint64, v state.BurntCoins) {
		img.Misc[fmt.Sprintf("burnt@%d", height)] = fmt.Sprintf("%+v", v)
	})
	s.State.IterateContractValues(func(key []byte, value []byte) bool {
		img.Misc[fmt.Sprintf("contract:%x", key)] = fmt.Sprintf("%x", value)
		return false
	})
	return img
}

// DiffImages lists the differences between two images (for messages).
func DiffImages(a, b *StateImage, name func(common.Address) string) []string {
	var out []string
	addrs := map[common.Address]bool{}
	for k := range a.Accounts {
		addrs[k] = true
	}
	for k := range b.Accounts {
		addrs[k] = true
	}
	for k := range a.Identities {
		addrs[k] = true
	}
	for k := range b.Identities {
		addrs[k] = true
	}
	var list []common.Address
	for k := range addrs {
		list = append(list, k)
	}
	sort.Slice(list, func(i, j int) bool { return bytes.Compare(list[i][:], list[j][:]) < 0 })
	for _, k := range list {
		aa, ab := a.Accounts[k], b.Accounts[k]
		sa, _ := aa.ToBytes()
		sb, _ := ab.ToBytes()
		if !bytes.Equal(sa, sb) {
			out = append(out, fmt.Sprintf("account %s: balance %v vs %v, nonce %d vs %d, epoch %d vs %d", name(k), aa.Balance, ab.Balance, aa.Nonce, ab.Nonce, aa.Epoch, ab.Epoch))
		}
		if !bytes.Equal(a.RawIds[k], b.RawIds[k]) {
			ia, ib := a.Identities[k], b.Identities[k]
			out = append(out, fmt.Sprintf("identity %s: state %d vs %d, stake %v vs %v, penaltySec %d vs %d, penaltyTs %d vs %d, invites %d vs %d, delegatee %v vs %v, shard %d vs %d", name(k), ia.State, ib.State, ia.Stake, ib.Stake,
				ia.PenaltySeconds(), ib.PenaltySeconds(), ia.PenaltyTimestamp(), ib.PenaltyTimestamp(), ia.Invites, ib.Invites, ia.Delegatee(), ib.Delegatee(), ia.ShardId, ib.ShardId))
		}
	}
	for k, v := range a.Misc {
		if b.Misc[k] != v {
			out = append(out, fmt.Sprintf("%s: %s vs %s", k, v, b.Misc[k]))
		}
	}
	for k, v := range b.Misc {
		if _, ok := a.Misc[k]; !ok {
			out = append(out, fmt.Sprintf("%s: <absent> vs %s", k, v))
		}
	}
	if !bytes.Equal(a.Global, b.Global) {
		out = append(out, fmt.Sprintf("global record differs: %x vs %x", a.Global, b.Global))
	}
	return out
}

func (w *World) Name(a common.Address) string {
	if x, ok := w.ByAddr[a]; ok {
		return x.String()
	}
	if a == (common.Address{}) {
		return "zero"
	}
	return a.Hex()[:10]
}

// DiffDB lists keys present/different between two database images.
func DiffDB(a, b dbm.DB) string {
	ia, ib := dbImage(a), dbImage(b)
	var out []string
	for k, v := range ia {
		if w, ok := ib[k]; !ok {
			out = append(out, fmt.Sprintf("  only in first : %x (len %d)", k, len(v)))
		} else if w != v {
			out = append(out, fmt.Sprintf("  differs       : %x", k))
		}
	}
	for k, v := range ib {
		if _, ok := ia[k]; !ok {
			out = append(out, fmt.Sprintf("  only in second: %x (len %d)", k, len(v)))
		}
	}
	sort.Strings(out)
	if len(out) > 60 {
		out = append(out[:60], fmt.Sprintf("  ... %d more", len(out)-60))
	}
	res := ""
	for _, l := range out {
		res += l + "\n"
	}
	return res
}

func dbImage(d dbm.DB) map[string]string {
	res := map[string]string{}
	it, err := d.Iterator(nil, nil)
	if err != nil {
		panic(err)
	}
	defer it.Close()
	for ; it.Valid(); it.Next() {
		res[string(it.Key())] = string(it.Value())
	}
	return res
}

// DescribeVC renders every public getter of a validator view for the world's actors.
func (w *World) DescribeVC(vc *validators.ValidatorsCache) []string {
	var out []string
	out = append(out, fmt.Sprintf("network=%d online=%d validators=%d forkCommittee=%d", vc.NetworkSize(), vc.OnlineSize(), vc.ValidatorsSize(), vc.ForkCommitteeSize()))
	for _, a := range w.Actors {
		d := vc.Delegator(a.Addr)
		out = append(out, fmt.Sprintf("%s validated=%v online=%v pool=%v poolSize=%d discr=%v delegatee=%s", a, vc.IsValidated(a.Addr), vc.IsOnlineIdentity(a.Addr), vc.IsPool(a.Addr), vc.PoolSize(a.Addr), vc.IsDiscriminated(a.Addr), w.Name(d)))
	}
	return out
}

func DiffLines(a, b []string) []string {
	var out []string
	for i := range a {
		if i >= len(b) || a[i] != b[i] {
			x := "<none>"
			if i < len(b) {
				x = b[i]
			}
			out = append(out, a[i]+"  <>  "+x)
		}
	}
	return out
}

// CompareVC compares two validator views on every public getter for the given
// addresses and a few committee draws. It returns the differences.
func CompareVC(a, b *validators.ValidatorsCache, addrs []common.Address, name func(common.Address) string, seeds []types.Seed) []string {
	var out []string
	add := func(f string, args ...interface{}) { out = append(out, fmt.Sprintf(f, args...)) }
	if a.NetworkSize() != b.NetworkSize() {
		add("NetworkSize %d vs %d", a.NetworkSize(), b.NetworkSize())
	}
	if a.OnlineSize() != b.OnlineSize() {
		add("OnlineSize %d vs %d", a.OnlineSize(), b.OnlineSize())
	}
	if a.ValidatorsSize() != b.ValidatorsSize() {
		add("ValidatorsSize %d vs %d", a.ValidatorsSize(), b.ValidatorsSize())
	}
	if a.ForkCommitteeSize() != b.ForkCommitteeSize() {
		add("ForkCommitteeSize %d vs %d", a.ForkCommitteeSize(), b.ForkCommitteeSize())
	}
	if !a.GetAllOnlineValidators().Equal(b.GetAllOnlineValidators()) {
		add("GetAllOnlineValidators differ")
	}
	for _, x := range addrs {
		if a.IsValidated(x) != b.IsValidated(x) {
			add("IsValidated(%s) %v vs %v", name(x), a.IsValidated(x), b.IsValidated(x))
		}
		if a.IsOnlineIdentity(x) != b.IsOnlineIdentity(x) {
			add("IsOnlineIdentity(%s) %v vs %v", name(x), a.IsOnlineIdentity(x), b.IsOnlineIdentity(x))
		}
		if a.IsPool(x) != b.IsPool(x) {
			add("IsPool(%s) %v vs %v", name(x), a.IsPool(x), b.IsPool(x))
		}
		if a.IsDiscriminated(x) != b.IsDiscriminated(x) {
			add("IsDiscriminated(%s) %v vs %v", name(x), a.IsDiscriminated(x), b.IsDiscriminated(x))
		}
		if a.PoolSize(x) != b.PoolSize(x) {
			add("PoolSize(%s) %d vs %d", name(x), a.PoolSize(x), b.PoolSize(x))
		}
		if a.Delegator(x) != b.Delegator(x) {
			add("Delegator(%s) %s vs %s", name(x), name(a.Delegator(x)), name(b.Delegator(x)))
		}
		if a.IsPool(x) && b.IsPool(x) {
			for n := uint32(0); n < 4; n++ {
				s1, n1 := a.FindSubIdentity(x, n)
				s2, n2 := b.FindSubIdentity(x, n)
				if s1 != s2 || n1 != n2 {
					add("FindSubIdentity(%s,%d) %s,%d vs %s,%d", name(x), n, name(s1), n1, name(s2), n2)
				}
			}
		}
	}
	for i, seed := range seeds {
		for _, step := range []uint8{1, 2, types.Final} {
			for _, limit := range []int{1, 2, a.ValidatorsSize(), a.ValidatorsSize() - 1} {
				if limit < 1 {
					continue
				}
				x, y := a.GetOnlineValidators(seed, uint64(10+i), step, limit), b.GetOnlineValidators(seed, uint64(10+i), step, limit)
				if (x == nil) != (y == nil) {
					add("GetOnlineValidators(seed%d,step %d,limit %d) nil-ness differs", i, step, limit)
					continue
				}
				if x != nil && (!x.Original.Equal(y.Original) || !x.Validators.Equal(y.Validators) || !x.ApprovedValidators.Equal(y.ApprovedValidators)) {
					add("GetOnlineValidators(seed%d,step %d,limit %d) differ: %v/%v/%v vs %v/%v/%v", i, step, limit, x.Original, x.Validators, x.ApprovedValidators, y.Original, y.Validators, y.ApprovedValidators)
				}
				if x != nil && a.OnlineSize() > 0 {
					if x.Original.Cardinality() != limit {
						add("committee size %d, limit %d", x.Original.Cardinality(), limit)
					}
					if x.VotesCountSubtrahend(0.65) != y.VotesCountSubtrahend(0.65) {
						add("VotesCountSubtrahend differs")
					}
				}
			}
		}
	}
	return out
}

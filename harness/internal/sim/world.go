// Package sim is the world simulator shared by the chain-level checks
// (DESIGN.md §2.2): deterministic key ring, generated genesis, replicas built
// from the repository's real components on harness-owned databases, a virtual
// clock, and a scripted epoch function.
package sim

import (
	"crypto/ecdsa"
	"encoding/binary"
	"fmt"
	"math/big"
	"os"
	"sort"
	"sync"
	"time"

	"github.com/idena-network/idena-go/blockchain"
	"github.com/idena-network/idena-go/blockchain/types"
	"github.com/idena-network/idena-go/blockchain/validation"
	"github.com/idena-network/idena-go/common"
	"github.com/idena-network/idena-go/common/eventbus"
	"github.com/idena-network/idena-go/common/vclock"
	"github.com/idena-network/idena-go/config"
	"github.com/idena-network/idena-go/core/appstate"
	"github.com/idena-network/idena-go/core/mempool"
	"github.com/idena-network/idena-go/core/state"
	"github.com/idena-network/idena-go/core/upgrade"
	"github.com/idena-network/idena-go/crypto"
	"github.com/idena-network/idena-go/ipfs"
	"github.com/idena-network/idena-go/keystore"
	"github.com/idena-network/idena-go/log"
	"github.com/idena-network/idena-go/secstore"
	"github.com/idena-network/idena-go/stats/collector"
	"github.com/idena-network/idena-go/subscriptions"
	dbm "github.com/tendermint/tm-db"
	"pgregory.net/rapid"
)

func init() {
	log.Root().SetHandler(log.DiscardHandler())
}

type Actor struct {
	Idx  int
	Key  *ecdsa.PrivateKey
	Addr common.Address
	Pub  []byte
}

func (a *Actor) String() string { return fmt.Sprintf("a%d", a.Idx) }

// Params is everything drawn per case that defines the world.
type Params struct {
	KeySeed     uint64
	NActors     int
	States      []state.IdentityState
	Balances    []*big.Int
	Stakes      []*big.Int
	Profile     string // "v12" | "v9"
	SwitchRng   uint64
	DelegRng    uint64
	DiscrRng    uint64
	SnapRng     uint64
	Start       int64 // unix seconds of virtual start
	CeremonyIn  int64 // seconds from start to the first validation
	Interval    int64 // seconds between validations (ValidationInterval)
	LotteryDur  int64
	ShortDur    int64
	LongDur     int64
	Outcome     uint64 // seed of the scripted validation outcome table
	WellBehaved int    // percent of identities that pass a validation with full marks (0 = the default third)
}

func (p Params) String() string {
	return fmt.Sprintf("actors=%d states=%v profile=%s ranges=%d/%d/%d/%d ceremonyIn=%d interval=%d durs=%d/%d/%d", p.NActors, p.States, p.Profile,
		p.SwitchRng, p.DelegRng, p.DiscrRng, p.SnapRng, p.CeremonyIn, p.Interval, p.LotteryDur, p.ShortDur, p.LongDur)
}

type World struct {
	P        Params
	Actors   []*Actor
	God      *Actor
	ByAddr   map[common.Address]*Actor
	Replicas []*Replica
	now      time.Time

	Version config.ConsensusVerson // consensus version every node of the world runs (see UpgradeTo)
	FatTxs  bool                   // GenTx gives two of three payments a payload of 30-120 KB (upgrade 11 on)

	Contracts []common.Address // deployed contract addresses seen in receipts
	Invited   []common.Address // fresh addresses that were sent an invitation
}

// memIpfs wraps the repository's in-memory IPFS test double: its
// GetWithSizeLimit is an unimplemented stub that panics on a background
// goroutine (blockchain.ipfsLoad), which is an artifact of the double, not of
// the node.
type memIpfs struct{ ipfs.Proxy }

func (m memIpfs) GetWithSizeLimit(key []byte, dataType ipfs.DataType, size int64) ([]byte, error) {
	return nil, fmt.Errorf("not found")
}

func NewIpfs() ipfs.Proxy { return memIpfs{ipfs.NewMemoryIpfsProxy()} }

var (
	secMu     sync.Mutex
	secStores = map[string]*secstore.SecStore{}
)

func secStoreFor(key *ecdsa.PrivateKey) *secstore.SecStore {
	secMu.Lock()
	defer secMu.Unlock()
	k := string(crypto.FromECDSA(key))
	if s, ok := secStores[k]; ok {
		return s
	}
	s := secstore.NewSecStore()
	s.AddKey(crypto.FromECDSA(key))
	secStores[k] = s
	return s
}

func DeriveKey(seed uint64, i int) *ecdsa.PrivateKey {
	for n := 0; ; n++ {
		var b [20]byte
		binary.LittleEndian.PutUint64(b[:], seed)
		binary.LittleEndian.PutUint32(b[8:], uint32(i))
		binary.LittleEndian.PutUint32(b[12:], uint32(n))
		h := crypto.Keccak256(b[:])
		if k, err := crypto.ToECDSA(h); err == nil {
			return k
		}
	}
}

var dna = new(big.Int).Exp(big.NewInt(10), big.NewInt(18), nil)

func Dna(n int64) *big.Int { return new(big.Int).Mul(big.NewInt(n), dna) }

// GenParams draws a world description. Actor 0 is the god address.
func GenParams(t *rapid.T, minActors, maxActors int) Params {
	p := Params{}
	p.KeySeed = rapid.Uint64().Draw(t, "keySeed")
	p.NActors = rapid.IntRange(minActors, maxActors).Draw(t, "nActors")
	stChoices := []state.IdentityState{state.Verified, state.Human, state.Newbie, state.Verified, state.Human, state.Candidate, state.Suspended, state.Zombie, state.Undefined, state.Undefined}
	for i := 0; i < p.NActors; i++ {
		var st state.IdentityState
		if i == 0 {
			st = rapid.SampledFrom([]state.IdentityState{state.Verified, state.Human, state.Undefined}).Draw(t, "godState")
		} else {
			st = rapid.SampledFrom(stChoices).Draw(t, "state")
		}
		p.States = append(p.States, st)
		var bal *big.Int
		switch rapid.IntRange(0, 9).Draw(t, "balClass") {
		case 0:
			bal = big.NewInt(0)
		case 1:
			bal = big.NewInt(1)
		case 2:
			bal = new(big.Int).Lsh(big.NewInt(1), 80)
		default:
			bal = Dna(int64(rapid.IntRange(1, 5000).Draw(t, "balDna")))
		}
		p.Balances = append(p.Balances, bal)
		var stake *big.Int
		switch rapid.IntRange(0, 5).Draw(t, "stakeClass") {
		case 0:
			stake = big.NewInt(0)
		case 1:
			stake = big.NewInt(int64(rapid.IntRange(1, 1000).Draw(t, "stakeWei")))
		default:
			stake = Dna(int64(rapid.IntRange(1, 3000).Draw(t, "stakeDna")))
		}
		if st == state.Undefined {
			stake = big.NewInt(0)
		}
		p.Stakes = append(p.Stakes, stake)
	}
	p.Profile = rapid.SampledFrom([]string{"v12", "v12", "v12", "v9"}).Draw(t, "profile")
	p.SwitchRng = uint64(rapid.IntRange(2, 5).Draw(t, "statusSwitchRange"))
	p.DelegRng = uint64(rapid.IntRange(2, 5).Draw(t, "delegationSwitchRange"))
	p.DiscrRng = uint64(rapid.IntRange(2, 5).Draw(t, "discrSwitchRange"))
	p.SnapRng = uint64(rapid.IntRange(4, 12).Draw(t, "snapshotRange"))
	// 2030-01-05 (a Saturday) 12:00 UTC plus a drawn offset inside the week
	p.Start = time.Date(2030, 1, 5, 12, 0, 0, 0, time.UTC).Unix() + int64(rapid.IntRange(0, 7*24*3600).Draw(t, "startOffset"))
	p.CeremonyIn = int64(rapid.SampledFrom([]int{100000, 50000, 300, 900}).Draw(t, "ceremonyIn"))
	p.Interval = int64(rapid.SampledFrom([]int{600, 1200, 3600}).Draw(t, "validationInterval"))
	p.LotteryDur = int64(rapid.IntRange(20, 60).Draw(t, "lotteryDur"))
	p.ShortDur = int64(rapid.IntRange(20, 60).Draw(t, "shortDur"))
	p.LongDur = int64(rapid.IntRange(20, 60).Draw(t, "longDur"))
	p.Outcome = rapid.Uint64().Draw(t, "outcomeSeed")
	return p
}

func consensusConf(p Params, version config.ConsensusVerson) *config.ConsensusConf {
	var c config.ConsensusConf
	c = *config.GetDefaultConsensusConfig() // version 9
	for v := config.ConsensusV10; v <= version; v++ {
		config.ApplyConsensusVersion(v, &c) // (blockchain.GetDefaultConsensusConfig is exactly 9 + 10 + 11 + 12)
	}
	c.Automine = true
	c.StatusSwitchRange = p.SwitchRng
	c.DelegationSwitchRange = p.DelegRng
	c.DiscriminationSwitchRange = p.DiscrRng
	c.SnapshotRange = p.SnapRng
	c.BlockReward = new(big.Int).Set(c.BlockReward)
	c.FinalCommitteeReward = new(big.Int).Set(c.FinalCommitteeReward)
	return &c
}

// Config builds a fresh node configuration (nothing is shared between replicas).
func (w *World) Config() *config.Config {
	p := w.P
	alloc := map[common.Address]config.GenesisAllocation{}
	for i, a := range w.Actors[:p.NActors] {
		if p.States[i] == state.Undefined && p.Balances[i].Sign() == 0 && i != 0 {
			continue
		}
		alloc[a.Addr] = config.GenesisAllocation{Balance: new(big.Int).Set(p.Balances[i]), Stake: new(big.Int).Set(p.Stakes[i]), State: uint8(p.States[i])}
	}
	return &config.Config{
		Network:   0x99,
		Consensus: consensusConf(p, w.Version),
		GenesisConf: &config.GenesisConf{
			Alloc:             alloc,
			GodAddress:        w.God.Addr,
			FirstCeremonyTime: p.Start + p.CeremonyIn,
		},
		Validation: &config.ValidationConfig{
			ValidationInterval:   time.Duration(p.Interval) * time.Second,
			FlipLotteryDuration:  time.Duration(p.LotteryDur) * time.Second,
			ShortSessionDuration: time.Duration(p.ShortDur) * time.Second,
			LongSessionDuration:  time.Duration(p.LongDur) * time.Second,
		},
		Blockchain:       &config.BlockchainConfig{StoreCertRange: 2000},
		OfflineDetection: config.GetDefaultOfflineDetectionConfig(),
		Mempool:          config.GetDefaultMempoolConfig(),
		Sync:             &config.SyncConfig{},
	}
}

// UpgradeTo activates the next consensus version on every node of the world at a block boundary, the way the node does
// it at an upgrade block (Upgrader.UpgradeConfigTo): the consensus configuration object every running node holds is
// transformed IN PLACE, while nodes started (or restarted) afterwards build theirs afresh for the new version. The
// voting that precedes an activation is not simulated.
func (w *World) UpgradeTo(v config.ConsensusVerson) {
	for _, r := range w.Replicas {
		for x := r.Cfg.Consensus.Version + 1; x <= v; x++ {
			config.ApplyConsensusVersion(x, r.Cfg.Consensus)
		}
	}
	w.Version = v
	validation.SetAppConfig(w.Config())
}

// NewWorld resets the process-global state listed in DESIGN.md §1.3 and builds
// the key ring. Replicas are added with AddReplica.
func NewWorld(p Params) *World {
	w := &World{P: p, ByAddr: map[common.Address]*Actor{}, Version: config.ConsensusV12}
	if p.Profile == "v9" {
		w.Version = config.ConsensusV9
	}
	for i := 0; i < p.NActors; i++ {
		k := DeriveKey(p.KeySeed, i)
		a := &Actor{Idx: i, Key: k, Addr: crypto.PubkeyToAddress(k.PublicKey), Pub: crypto.FromECDSAPub(&k.PublicKey)}
		w.Actors = append(w.Actors, a)
		w.ByAddr[a.Addr] = a
	}
	w.God = w.Actors[0]
	w.now = time.Unix(p.Start, 0).UTC()
	if time.Local != time.UTC { // (an unconditional write races with leftover tickers of earlier cases under -race)
		time.Local = time.UTC
	}
	vclock.Reset()
	vclock.DropWaiters()
	vclock.Set(w.now)
	vclock.SetMode("common/pushpull", vclock.Stepped) // pool trackers park forever
	validation.SetAppConfig(w.Config())
	return w
}

func (w *World) Now() time.Time { return w.now }

func (w *World) Advance(d time.Duration) {
	w.now = w.now.Add(d)
	vclock.Set(w.now)
}

func (w *World) SetNow(t time.Time) {
	w.now = t
	vclock.Set(w.now)
}

// Replica is one node: real AppState, TxPool, Blockchain, OfflineDetector,
// Upgrader and in-memory IPFS on a harness-owned database.
type Replica struct {
	W        *World
	Name     string
	Key      *ecdsa.PrivateKey
	Addr     common.Address
	DB       dbm.DB
	Ipfs     ipfs.Proxy
	Cfg      *config.Config
	Bus      eventbus.Bus
	AppState *appstate.AppState
	Pool     *mempool.TxPool
	Chain    *blockchain.Blockchain
	Loc      *time.Location
	// the block this node built itself most recently; every other block reaches it "over the wire",
	// i.e. as a decoded copy (caches that live on Go objects, e.g. verified-flags on transactions, do not travel)
	lastProposed *types.Block
	EpochFn      func(height uint64, appState *appstate.AppState, c collector.StatsCollector) types.TotalValidationResult
}

// Start builds all in-memory objects over r.DB following node.StartWithHeight.
func (r *Replica) Start() error {
	w := r.W
	cfg := w.Config()
	r.Cfg = cfg
	bus := eventbus.New()
	appState, err := appstate.NewAppState(r.DB, bus)
	if err != nil {
		return err
	}
	sec := secStoreFor(r.Key)
	txPool := mempool.NewTxPool(appState, bus, cfg, collector.NewStatsCollector())
	offline := blockchain.NewOfflineDetector(cfg, r.DB, appState, sec, bus)
	tmp := os.Getenv("VERIF_TMP")
	if tmp == "" {
		tmp = os.TempDir()
	}
	keyStore := keystore.NewKeyStore(tmp+"/ks", keystore.StandardScryptN, keystore.StandardScryptP)
	subManager, _ := subscriptions.NewManager(tmp + "/subs")
	upgrader := upgrade.NewUpgrader(cfg, appState, r.DB)
	chain := blockchain.NewBlockchain(cfg, r.DB, txPool, appState, r.Ipfs, sec, bus, offline, keyStore, subManager, upgrader)
	if err := chain.InitializeChain(); err != nil {
		return fmt.Errorf("InitializeChain: %w", err)
	}
	if err := appState.Initialize(chain.Head.Height()); err != nil {
		if err := appState.Initialize(0); err != nil {
			return fmt.Errorf("appState.Initialize: %w", err)
		}
	}
	if err := chain.EnsureIntegrity(); err != nil {
		return fmt.Errorf("EnsureIntegrity: %w", err)
	}
	chain.ApplyHotfixToState()
	txPool.Initialize(chain.Head, sec.GetAddress(), false)
	r.Bus, r.AppState, r.Pool, r.Chain = bus, appState, txPool, chain
	fn := r.EpochFn
	if fn == nil {
		fn = w.ScriptedEpochFn(cfg)
	}
	chain.ProvideApplyNewEpochFunc(fn)
	return nil
}

func (w *World) AddReplica(name string, key *ecdsa.PrivateKey, db dbm.DB) (*Replica, error) {
	if db == nil {
		db = dbm.NewMemDB()
	}
	r := &Replica{W: w, Name: name, Key: key, Addr: crypto.PubkeyToAddress(key.PublicKey), DB: db, Ipfs: NewIpfs(), Loc: time.UTC}
	if err := r.Start(); err != nil {
		return nil, err
	}
	w.Replicas = append(w.Replicas, r)
	return r, nil
}

// Restart drops every in-memory object and rebuilds the node from its database.
func (r *Replica) Restart() error { return r.Start() }

// enter switches the process to this replica's host environment (time zone).
func (r *Replica) enter() {
	if r.Loc != nil {
		setLocal(r.Loc)
	} else {
		setLocal(time.UTC)
	}
}

func (r *Replica) Head() *types.Header { return r.Chain.Head }

// CanPropose mirrors the eligibility rule the validator applies to proposers.
func (r *Replica) CanPropose() bool {
	vc := r.AppState.ValidatorsCache
	return vc.IsOnlineIdentity(r.Addr) || r.AppState.State.GodAddress() == r.Addr && vc.OnlineSize() == 0
}

// Propose builds a block on the replica's head at the current virtual time.
func (r *Replica) Propose() *types.BlockProposal {
	r.enter()
	defer setLocal(time.UTC)
	p := r.Chain.ProposeBlock([]byte{})
	r.lastProposed = p.Block
	return p
}

// WireCopy is the block as another node receives it: encoded and decoded again.
func WireCopy(b *types.Block) *types.Block {
	data, err := b.ToBytes()
	if err != nil {
		panic(err)
	}
	c := new(types.Block)
	if err := c.FromBytes(data); err != nil {
		panic(err)
	}
	if c.Body == nil {
		c.Body = &types.Body{}
	}
	return c
}

// WireCopyTx is the transaction as another node receives it.
func WireCopyTx(tx *types.Transaction) *types.Transaction {
	data, err := tx.ToBytes()
	if err != nil {
		panic(err)
	}
	c := new(types.Transaction)
	if err := c.FromBytes(data); err != nil {
		panic(err)
	}
	return c
}

func (r *Replica) received(b *types.Block) *types.Block {
	if b == r.lastProposed {
		return b
	}
	return WireCopy(b)
}

func (r *Replica) Validate(b *types.Block) error {
	r.enter()
	defer setLocal(time.UTC)
	_, err := r.Chain.ValidateBlock(r.received(b), nil, collector.NewStatsCollector())
	return err
}

func (r *Replica) AddBlock(b *types.Block) error {
	r.enter()
	defer setLocal(time.UTC)
	return r.Chain.AddBlock(r.received(b), nil, collector.NewStatsCollector())
}

func (r *Replica) EmptyBlock() *types.Block {
	r.enter()
	defer setLocal(time.UTC)
	return r.Chain.GenerateEmptyBlock()
}

// ReadState returns a read-only view at the head.
func (r *Replica) ReadState() *appstate.AppState {
	s, err := r.AppState.Readonly(r.Chain.Head.Height())
	if err != nil {
		panic(fmt.Sprintf("readonly(%d): %v", r.Chain.Head.Height(), err))
	}
	return s
}

// Eligible returns the replicas whose key may propose on the current state.
func (w *World) Eligible() []*Replica {
	var res []*Replica
	for _, r := range w.Replicas {
		if r.CanPropose() {
			res = append(res, r)
		}
	}
	return res
}

// NextBoundary returns the next instant at which a validation period flag
// becomes due on the given state, or zero.
func (w *World) NextBoundary(s *appstate.AppState) time.Time {
	nv := s.State.NextValidationTime()
	p := w.P
	switch s.State.ValidationPeriod() {
	case state.NonePeriod:
		return nv.Add(-time.Duration(p.LotteryDur)*time.Second + time.Second)
	case state.FlipLotteryPeriod:
		return nv
	case state.ShortSessionPeriod:
		return nv.Add(time.Duration(p.ShortDur)*time.Second + time.Second)
	case state.LongSessionPeriod:
		return nv.Add(time.Duration(p.ShortDur+p.LongDur)*time.Second + time.Second)
	}
	return time.Time{}
}

func SortedAddrs(m map[common.Address]struct{}) []common.Address {
	res := make([]common.Address, 0, len(m))
	for a := range m {
		res = append(res, a)
	}
	sort.Slice(res, func(i, j int) bool { return string(res[i][:]) < string(res[j][:]) })
	return res
}

// setLocal switches the host time zone; it writes only on change (reads do not race with reads under -race).
func setLocal(loc *time.Location) {
	if time.Local != loc {
		time.Local = loc
	}
}

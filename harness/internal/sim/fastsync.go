package sim

import (
	"bytes"
	"fmt"

	"github.com/idena-network/idena-go/core/state"
	"github.com/idena-network/idena-go/core/state/snapshot"
	"github.com/idena-network/idena-go/core/validators"
)

// FastSync brings dst (a node whose head is an ancestor of src's chain) to
// height target the way protocol/fast.go does, without the network: a
// preliminary copy of the identity state replays the identity diffs src
// serves (root checked against every header, as validateIdentityState does),
// headers are added with AddHeaderUnsafe, diffs stored, a state snapshot
// exported by src is imported with RecoverSnapshot2, and the node switches with
// AtomicSwitchToPreliminary. Certificate checks of headers are not part of this
// emulation (they are decided under C07/C08). beforeSwitch (optional) runs right
// before the atomic switch (used by the crash-point enumeration).
// It returns the validator view the fast sync maintained from the diffs.
// Resumed says how the last FastSync call started: "" fresh, "resumed at N", or "dropped: <why>".
var Resumed string

func FastSync(src, dst *Replica, target uint64, beforeSwitch func()) (*validators.ValidatorsCache, error) {
	from := dst.Head().Height()
	if target <= from || target > src.Head().Height() {
		return nil, fmt.Errorf("bad target %d (dst head %d, src head %d)", target, from, src.Head().Height())
	}
	prev := dst.Head()
	var ids *state.IdentityStateDB
	var err error
	if ph := dst.Chain.PreliminaryHead; ph != nil {
		// an interrupted fast sync is resumed from its stored preliminary head (fastSync.preConsuming); when the
		// preliminary identity state cannot be loaded everything preliminary is dropped and the sync starts over
		if ids, err = dst.AppState.IdentityState.LoadPreliminary(ph.Height()); err != nil {
			dst.Chain.RemovePreliminaryHead(nil)
			dst.AppState.IdentityState.DropPreliminary()
			ids = nil
			Resumed = "dropped: " + err.Error()
		} else {
			prev, from = ph, ph.Height()
			Resumed = fmt.Sprintf("resumed at %d", from)
			if target < from {
				return nil, fmt.Errorf("preliminary head %d is above the target %d", from, target)
			}
		}
	} else {
		Resumed = ""
	}
	if ids == nil {
		dst.Chain.PreliminaryHead = dst.Head()
		if ids, err = dst.AppState.IdentityState.CreatePreliminaryCopy(from); err != nil {
			return nil, fmt.Errorf("CreatePreliminaryCopy: %w", err)
		}
	}
	fsValidators := validators.NewValidatorsCache(ids, dst.AppState.State.GodAddress())
	fsValidators.Load()
	for h := from + 1; h <= target; h++ {
		hdr := src.Chain.GetBlockHeaderByHeight(h)
		if hdr == nil {
			return nil, fmt.Errorf("source has no header %d", h)
		}
		if err := dst.Chain.ValidateHeader(hdr, prev); err != nil {
			return nil, fmt.Errorf("header %d: %w", h, err)
		}
		diff := src.Chain.GetIdentityDiff(h)
		ids.AddDiff(h, diff)
		if ids.Root() != hdr.IdentityRoot() {
			ids.Reset()
			return nil, fmt.Errorf("identity root is invalid at %d", h)
		}
		if !diff.Empty() {
			ids.CommitTree(int64(h))
		}
		if err := dst.Chain.AddHeaderUnsafe(hdr); err != nil {
			return nil, err
		}
		if !diff.Empty() {
			fsValidators.UpdateFromIdentityStateDiff(diff)
		}
		dst.Chain.WriteIdentityStateDiff(h, diff)
		prev = hdr
	}
	var buf bytes.Buffer
	root, err := src.AppState.State.WriteSnapshot2(target, &buf)
	if err != nil {
		return nil, fmt.Errorf("WriteSnapshot2: %w", err)
	}
	if err := dst.AppState.State.RecoverSnapshot2(target, dst.Chain.PreliminaryHead.Root(), &buf); err != nil {
		return nil, fmt.Errorf("RecoverSnapshot2: %w", err)
	}
	if err := ids.SaveForcedVersion(target); err != nil {
		return nil, fmt.Errorf("SaveForcedVersion: %w", err)
	}
	if beforeSwitch != nil {
		beforeSwitch()
	}
	if err := dst.Chain.AtomicSwitchToPreliminary(&snapshot.Manifest{Height: target, Root: root}); err != nil {
		return nil, fmt.Errorf("AtomicSwitchToPreliminary: %w", err)
	}
	return fsValidators, nil
}

package sim

import (
	"encoding/binary"
	"hash/fnv"
	"math/big"
	"math/rand"
	"sort"

	"github.com/idena-network/idena-go/blockchain/types"
	"github.com/idena-network/idena-go/common"
	"github.com/idena-network/idena-go/config"
	"github.com/idena-network/idena-go/core/appstate"
	"github.com/idena-network/idena-go/core/ceremony"
	"github.com/idena-network/idena-go/core/state"
	"github.com/idena-network/idena-go/stats/collector"
	"github.com/shopspring/decimal"
)

// outcomeRng returns a PRNG that is a pure function of (table seed, epoch, address).
func outcomeRng(seed uint64, epoch uint16, addr common.Address, salt byte) *rand.Rand {
	h := fnv.New64a()
	var b [11]byte
	binary.LittleEndian.PutUint64(b[:], seed)
	binary.LittleEndian.PutUint16(b[8:], epoch)
	b[10] = salt
	h.Write(b[:])
	h.Write(addr[:])
	return rand.New(rand.NewSource(int64(h.Sum64())))
}

var scoreGrid = []float32{0, 0.3, 0.59, 0.6, 0.74, 0.75, 0.91, 0.92, 1}

// ScriptedEpochFn is the "arbitrary validation results" epoch function: a pure
// function of (outcome seed, epoch, address, prior identity) that decides with
// the repository's own decision table (determineNewIdentityState) on scripted
// scores and applies the result with the repository's own applyOnState.
func (w *World) ScriptedEpochFn(cfg *config.Config) func(height uint64, appState *appstate.AppState, c collector.StatsCollector) types.TotalValidationResult {
	seed := w.P.Outcome
	cons := cfg.Consensus
	return func(height uint64, appState *appstate.AppState, c collector.StatsCollector) types.TotalValidationResult {
		epoch := appState.State.Epoch()
		type item struct {
			addr common.Address
			id   state.Identity
		}
		var ids []item
		appState.State.IterateOverIdentities(func(addr common.Address, identity state.Identity) {
			ids = append(ids, item{addr, identity})
		})
		sort.Slice(ids, func(i, j int) bool { return string(ids[i].addr[:]) < string(ids[j].addr[:]) })

		shards := int(appState.State.ShardsNum())
		if shards == 0 {
			shards = 1
		}
		results := map[common.ShardId]*types.ValidationResults{}
		for s := 1; s <= shards; s++ {
			results[common.ShardId(s)] = &types.ValidationResults{
				BadAuthors:              map[common.Address]types.BadAuthorReason{},
				GoodAuthors:             map[common.Address]*types.ValidationResult{},
				AuthorResults:           map[common.Address]*types.AuthorResults{},
				GoodInviters:            map[common.Address]*types.InviterValidationResult{},
				ReportersToRewardByFlip: map[int]map[common.Address]*types.Candidate{},
			}
		}
		shardOf := func(id state.Identity) *types.ValidationResults {
			r := results[id.ShiftedShardId()]
			if r == nil {
				r = results[1]
			}
			return r
		}

		type val struct {
			addr common.Address
			id   state.Identity
			v    ceremony.VerifEpochValue
		}
		var vals []val
		validatedCnt := 0
		for _, it := range ids {
			if it.id.State == state.Undefined || it.id.State == state.Killed {
				continue
			}
			rng := outcomeRng(seed, epoch, it.addr, 0)
			missed := rng.Intn(4) == 0
			noQualShort := rng.Intn(8) == 0
			noQualLong := rng.Intn(8) == 0
			shortCnt := uint32(rng.Intn(7))
			shortScore := scoreGrid[rng.Intn(len(scoreGrid))]
			longScore := scoreGrid[rng.Intn(len(scoreGrid))]
			pct := w.P.WellBehaved
			if pct == 0 {
				pct = 33
			}
			if rng.Intn(100) < pct { // a well-behaved participant
				missed, noQualShort, noQualLong, shortCnt, shortScore, longScore = false, false, false, 6, 1, 1
			}
			if !state.IsCeremonyCandidate(it.id) {
				missed, shortCnt, shortScore, longScore = true, 0, 0, 0
			}
			shortPoint := shortScore * float32(shortCnt)
			if missed {
				shortCnt, shortPoint, shortScore = 0, 0, 0
			}
			totalScore, totalFlips := ceremony.VerifCalculateNewTotalScore(appState.State.GetScores(it.addr), shortPoint, shortCnt, appState.State.GetShortFlipPoints(it.addr), appState.State.GetQualifiedFlipsCount(it.addr))
			ns := ceremony.VerifDetermineNewIdentityState(it.id, shortScore, longScore, totalScore, totalFlips, missed, noQualShort, noQualLong, true, cons.EnableUpgrade10, shortCnt, cons.EnableUpgrade12)
			bd := ceremony.VerifDetermineIdentityBirthday(epoch, it.id, ns)
			participated := it.id.HasValidationTx(types.SubmitAnswersHashTx) || it.id.HasValidationTx(types.SubmitShortAnswersTx) || it.id.HasValidationTx(types.EvidenceTx) || it.id.HasValidationTx(types.SubmitLongAnswersTx)
			vals = append(vals, val{it.addr, it.id, ceremony.VerifEpochValue{State: ns, PrevState: it.id.State, ShortQualifiedFlipsCount: shortCnt,
				ShortFlipPoint: shortPoint, Birthday: bd, Missed: missed, Participated: participated, Delegatee: it.id.Delegatee()}})
			if ns.NewbieOrBetter() {
				validatedCnt++
			}
		}
		pools := map[common.Address]struct{}{}
		nonValidated := map[common.Address]*big.Int{}
		if validatedCnt == 0 {
			return types.TotalValidationResult{IdentitiesCount: appState.ValidatorsCache.NetworkSize(), ShardResults: results, Pools: pools, NonValidatedStakes: nonValidated, Failed: true}
		}
		count := 0
		for _, v := range vals {
			validated, pool, nvs := ceremony.VerifApplyOnState(cons, appState, epoch, v.addr, v.v)
			if validated {
				count++
			}
			if pool != nil {
				pools[*pool] = struct{}{}
			}
			if nvs != nil {
				nonValidated[v.addr] = nvs
			}
			// scripted reward inputs
			rng := outcomeRng(seed, epoch, v.addr, 1)
			sr := shardOf(v.id)
			if v.v.State.NewbieOrBetter() && len(v.id.Flips) > 0 || rng.Intn(3) == 0 {
				switch rng.Intn(5) {
				case 0:
					sr.BadAuthors[v.addr] = types.BadAuthorReason(rng.Intn(3))
				default:
					n := 1 + rng.Intn(4)
					vr := &types.ValidationResult{Missed: v.v.Missed, NewIdentityState: uint8(v.v.State)}
					for i := 0; i < n; i++ {
						g := types.Grade(rng.Intn(6))
						vr.FlipsToReward = append(vr.FlipsToReward, &types.FlipToReward{Cid: []byte{byte(i), v.addr[0]}, Grade: g, GradeScore: decimal.NewFromFloat32(float32(rng.Intn(11)) * 0.5)})
					}
					sr.GoodAuthors[v.addr] = vr
				}
				sr.AuthorResults[v.addr] = &types.AuthorResults{HasOneReportedFlip: rng.Intn(4) == 0, HasOneNotQualifiedFlip: rng.Intn(4) == 0, AllFlipsNotQualified: rng.Intn(8) == 0}
			}
			if v.v.State.NewbieOrBetter() && rng.Intn(3) == 0 {
				flip := rng.Intn(4)
				m := sr.ReportersToRewardByFlip[flip]
				if m == nil {
					m = map[common.Address]*types.Candidate{}
					sr.ReportersToRewardByFlip[flip] = m
				}
				m[v.addr] = &types.Candidate{Address: v.addr, NewIdentityState: uint8(v.v.State)}
			}
			if inv := v.id.Inviter; inv != nil && (v.v.State == state.Newbie || v.v.State == state.Verified) {
				age := epoch - v.v.Birthday + 1
				if age <= 3 {
					gi := sr.GoodInviters[inv.Address]
					if gi == nil {
						gi = &types.InviterValidationResult{}
						sr.GoodInviters[inv.Address] = gi
					}
					_, pen := sr.BadAuthors[v.addr]
					gi.SuccessfulInvites = append(gi.SuccessfulInvites, &types.SuccessfulInvite{Age: age, TxHash: inv.TxHash, EpochHeight: inv.EpochHeight, Address: v.addr, Penalized: pen})
				}
			}
		}
		// inviters are paid only if they are validated themselves (or are the god address), as in the real ceremony
		god := appState.State.GodAddress()
		for _, sr := range results {
			for addr, gi := range sr.GoodInviters {
				st := appState.State.GetIdentityState(addr)
				gi.NewIdentityState = uint8(st)
				gi.PayInvitationReward = st.NewbieOrBetter() || addr == god
				if _, bad := sr.BadAuthors[addr]; bad {
					gi.PayInvitationReward = false
				}
			}
		}
		return types.TotalValidationResult{IdentitiesCount: count, ShardResults: results, Pools: pools, NonValidatedStakes: nonValidated, Failed: false}
	}
}

package sim

import (
	"fmt"
	dbm "github.com/tendermint/tm-db"
	"time"

	"github.com/idena-network/idena-go/blockchain/types"
	"github.com/idena-network/idena-go/blockchain/validation"
	"pgregory.net/rapid"
)

// Offer generates n transactions against r's head and submits them to r's pool
// (as peer-relayed or locally submitted). It returns the infos and results.
type Offered struct {
	Tx   *types.Transaction
	Info TxInfo
	Err  error
}

func (w *World) Offer(t *rapid.T, r *Replica, n int, only []types.TxType) []Offered {
	var res []Offered
	for i := 0; i < n; i++ {
		tx, info := w.GenTx(t, r, only)
		kind := validation.InboundTx
		if rapid.IntRange(0, 3).Draw(t, "asMempoolTx") == 0 {
			kind = validation.MempoolTx
		}
		err := r.Pool.AddExternalTxs(kind, tx)
		res = append(res, Offered{tx, info, err})
	}
	return res
}

// NoteBlock records facts the generators use later (deployed contracts).
func (w *World) NoteBlock(r *Replica, b *types.Block) {
	if b.IsEmpty() {
		return
	}
	for _, tx := range b.Body.Transactions {
		if tx.Type == types.DeployContractTx {
			if rec := r.Chain.GetReceipt(tx.Hash()); rec != nil && rec.Success {
				w.Contracts = append(w.Contracts, rec.ContractAddress)
			}
		}
	}
}

// FlagNames renders block flags for descriptors.
func FlagNames(f types.BlockFlag) string {
	s := ""
	for _, x := range []struct {
		f types.BlockFlag
		n string
	}{{types.IdentityUpdate, "IdUpd"}, {types.FlipLotteryStarted, "Lottery"}, {types.ShortSessionStarted, "Short"}, {types.LongSessionStarted, "Long"},
		{types.AfterLongSessionStarted, "AfterLong"}, {types.ValidationFinished, "ValFin"}, {types.Snapshot, "Snap"}, {types.OfflinePropose, "OffProp"},
		{types.OfflineCommit, "OffCommit"}, {types.NewGenesis, "NewGen"}} {
		if f.HasFlag(x.f) {
			s += x.n + "+"
		}
	}
	if s == "" {
		return "plain"
	}
	return s[:len(s)-1]
}

func BlockDesc(b *types.Block) string {
	if b.IsEmpty() {
		return fmt.Sprintf("empty@%d[%s]", b.Height(), FlagNames(b.Header.Flags()))
	}
	return fmt.Sprintf("block@%d[%s]txs=%d", b.Height(), FlagNames(b.Header.Flags()), len(b.Body.Transactions))
}

// CopyDB clones a database image.
func CopyDB(src dbm.DB) dbm.DB {
	dst := dbm.NewMemDB()
	it, err := src.Iterator(nil, nil)
	if err != nil {
		panic(err)
	}
	defer it.Close()
	for ; it.Valid(); it.Next() {
		dst.Set(append([]byte{}, it.Key()...), append([]byte{}, it.Value()...))
	}
	return dst
}

// Proposer returns a replica whose key is eligible to propose on the current
// head. When the only eligible identities have no replica yet, a new replica
// is started for one of them on a copy of an existing replica's database (a
// node that synced to the same head). Returns nil when nobody is eligible or
// the replica cap is reached (the round then ends with an empty block).
func (w *World) Proposer(t *rapid.T, maxReplicas int) *Replica {
	el := w.Eligible()
	if len(el) > 0 {
		return el[rapid.IntRange(0, len(el)-1).Draw(t, "proposerIdx")]
	}
	if len(w.Replicas) >= maxReplicas {
		return nil
	}
	base := w.Replicas[0]
	vc := base.AppState.ValidatorsCache
	var cands []*Actor
	for _, a := range w.Actors {
		if vc.IsOnlineIdentity(a.Addr) {
			cands = append(cands, a)
		}
	}
	if len(cands) == 0 {
		return nil
	}
	a := cands[rapid.IntRange(0, len(cands)-1).Draw(t, "newProposer")]
	r := &Replica{W: w, Name: fmt.Sprintf("R%d(%s)", len(w.Replicas), a), Key: a.Key, Addr: a.Addr, DB: CopyDB(base.DB), Ipfs: base.Ipfs, Loc: time.UTC, EpochFn: nil}
	if err := r.Start(); err != nil {
		t.Fatalf("start replica for %s: %v", a, err)
	}
	if r.Head().Hash() != base.Head().Hash() {
		t.Fatalf("copied replica head differs")
	}
	w.Replicas = append(w.Replicas, r)
	return r
}

package sim

import (
	"fmt"
	"math/big"

	"github.com/idena-network/idena-go/blockchain/attachments"
	"github.com/idena-network/idena-go/blockchain/fee"
	"github.com/idena-network/idena-go/blockchain/types"
	"github.com/idena-network/idena-go/common"
	"github.com/idena-network/idena-go/core/appstate"
	"github.com/idena-network/idena-go/core/state"
	"github.com/idena-network/idena-go/crypto"
	"github.com/idena-network/idena-go/crypto/ecies"
	"github.com/idena-network/idena-go/crypto/vrf/p256"
	"github.com/idena-network/idena-go/rlp"
	"github.com/idena-network/idena-go/vm/embedded"
	"pgregory.net/rapid"
)

var TxTypeNames = map[types.TxType]string{
	types.SendTx: "Send", types.ActivationTx: "Activation", types.InviteTx: "Invite", types.KillTx: "Kill",
	types.SubmitFlipTx: "SubmitFlip", types.SubmitAnswersHashTx: "AnswersHash", types.SubmitShortAnswersTx: "ShortAnswers",
	types.SubmitLongAnswersTx: "LongAnswers", types.EvidenceTx: "Evidence", types.OnlineStatusTx: "OnlineStatus",
	types.KillInviteeTx: "KillInvitee", types.ChangeGodAddressTx: "ChangeGod", types.BurnTx: "Burn",
	types.ChangeProfileTx: "ChangeProfile", types.DeleteFlipTx: "DeleteFlip", types.DeployContractTx: "Deploy",
	types.CallContractTx: "Call", types.TerminateContractTx: "Terminate", types.DelegateTx: "Delegate",
	types.UndelegateTx: "Undelegate", types.KillDelegatorTx: "KillDelegator", types.StoreToIpfsTx: "StoreToIpfs",
	types.ReplenishStakeTx: "Replenish",
}

var allTxTypes = []types.TxType{
	types.SendTx, types.SendTx, types.SendTx, types.ActivationTx, types.InviteTx, types.InviteTx, types.KillTx,
	types.SubmitFlipTx, types.SubmitFlipTx, types.SubmitAnswersHashTx, types.SubmitShortAnswersTx, types.SubmitLongAnswersTx,
	types.EvidenceTx, types.OnlineStatusTx, types.OnlineStatusTx, types.OnlineStatusTx, types.KillInviteeTx,
	types.ChangeGodAddressTx, types.BurnTx, types.ChangeProfileTx, types.DeleteFlipTx, types.DeployContractTx,
	types.CallContractTx, types.TerminateContractTx, types.DelegateTx, types.DelegateTx, types.UndelegateTx,
	types.KillDelegatorTx, types.StoreToIpfsTx, types.ReplenishStakeTx, types.ReplenishStakeTx,
}

// TxInfo describes how a generated transaction was built (for labels/evidence).
type TxInfo struct {
	Sender  *Actor
	Type    types.TxType
	Rel     string // relationship of the target to the sender
	Hostile string // "" for a valid-ish tx, else the deviation
}

func (i TxInfo) String() string {
	h := i.Hostile
	if h == "" {
		h = "ok"
	}
	return fmt.Sprintf("%s/%s/%s", TxTypeNames[i.Type], i.Rel, h)
}

// NewActor appends a deterministically derived fresh key to the world.
func (w *World) NewActor() *Actor {
	i := len(w.Actors)
	k := DeriveKey(w.P.KeySeed, i)
	a := &Actor{Idx: i, Key: k, Addr: crypto.PubkeyToAddress(k.PublicKey), Pub: crypto.FromECDSAPub(&k.PublicKey)}
	w.Actors = append(w.Actors, a)
	w.ByAddr[a.Addr] = a
	return a
}

func testCid(seed byte, n int) []byte {
	// CIDv1 raw sha2-256 of (seed,n): parseable by go-cid
	h := crypto.Keccak256([]byte{seed, byte(n), byte(n >> 8)})
	return append([]byte{0x01, 0x55, 0x12, 0x20}, h...)
}

// pickTarget chooses a recipient by its relationship to the sender.
func (w *World) pickTarget(t *rapid.T, s *appstate.AppState, sender *Actor, prefer []string) (*common.Address, string) {
	rels := []string{"other", "other", "self", "god", "zero", "inviter", "invitee", "delegatee", "delegator", "contract", "fresh", "nil", "killed", "undefined"}
	if len(prefer) > 0 && rapid.IntRange(0, 9).Draw(t, "preferRel") < 7 {
		rels = prefer
	}
	rel := rapid.SampledFrom(rels).Draw(t, "rel")
	id := s.State.GetIdentity(sender.Addr)
	switch rel {
	case "self":
		a := sender.Addr
		return &a, rel
	case "god":
		a := s.State.GodAddress()
		return &a, rel
	case "zero":
		a := common.Address{}
		return &a, rel
	case "nil":
		return nil, rel
	case "inviter":
		if id.Inviter != nil {
			a := id.Inviter.Address
			return &a, rel
		}
	case "invitee":
		// the relation is stored twice (the inviter's list, the invitee's inviter record): both views are used
		if xs := w.inviteesOf(s, sender, id); len(xs) > 0 {
			a := xs[rapid.IntRange(0, len(xs)-1).Draw(t, "inviteeIdx")]
			return &a, rel
		}
	case "delegatee":
		if d := id.Delegatee(); d != nil {
			a := *d
			return &a, rel
		}
	case "delegator":
		var ds []common.Address
		for _, x := range w.Actors {
			if d := s.State.Delegatee(x.Addr); d != nil && *d == sender.Addr {
				ds = append(ds, x.Addr)
			}
		}
		if len(ds) > 0 {
			a := ds[rapid.IntRange(0, len(ds)-1).Draw(t, "delegatorIdx")]
			return &a, rel
		}
	case "contract":
		if len(w.Contracts) > 0 {
			a := w.Contracts[rapid.IntRange(0, len(w.Contracts)-1).Draw(t, "contractIdx")]
			return &a, rel
		}
	case "fresh":
		a := w.NewActor().Addr
		return &a, rel
	case "notvalidated":
		// an invited or candidate address (a pool may form around an address that is not a validated identity)
		var xs []common.Address
		for _, x := range w.Actors {
			if st := s.State.GetIdentityState(x.Addr); (st == state.Invite || st == state.Candidate) && x.Addr != sender.Addr {
				xs = append(xs, x.Addr)
			}
		}
		if len(xs) > 0 {
			a := xs[rapid.IntRange(0, len(xs)-1).Draw(t, "notValidatedIdx")]
			return &a, rel
		}
	case "killed", "undefined":
		for _, x := range w.Actors {
			st := s.State.GetIdentityState(x.Addr)
			if st == state.Undefined && x.Addr != sender.Addr {
				a := x.Addr
				return &a, "undefined"
			}
		}
	}
	a := w.Actors[rapid.IntRange(0, len(w.Actors)-1).Draw(t, "otherIdx")].Addr
	if a == sender.Addr {
		return &a, "self"
	}
	return &a, "other"
}

func genAmount(t *rapid.T, bal *big.Int, label string) *big.Int {
	switch rapid.IntRange(0, 11).Draw(t, label) {
	case 0:
		return nil
	case 1:
		return big.NewInt(0)
	case 2:
		return big.NewInt(1)
	case 3:
		return new(big.Int).Set(bal)
	case 4:
		return new(big.Int).Add(bal, big.NewInt(1))
	case 5:
		return new(big.Int).Lsh(big.NewInt(1), 200)
	case 6:
		return new(big.Int).Div(bal, big.NewInt(2))
	default:
		return Dna(int64(rapid.IntRange(1, 50).Draw(t, label+"Dna")))
	}
}

var lateTypes = map[types.TxType]bool{types.ActivationTx: true, types.ChangeGodAddressTx: true, types.DelegateTx: true, types.DeleteFlipTx: true, types.KillDelegatorTx: true, types.KillTx: true,
	types.KillInviteeTx: true, types.OnlineStatusTx: true, types.ReplenishStakeTx: true, types.InviteTx: true, types.SubmitFlipTx: true, types.UndelegateTx: true}

var rareTypes = []types.TxType{types.KillInviteeTx, types.KillDelegatorTx, types.UndelegateTx, types.ActivationTx, types.DeleteFlipTx, types.CallContractTx, types.TerminateContractTx}

// GenTx draws one signed transaction against the replica's current head state.
// Most draws are valid-ish (right period, plausible target); the hostile
// deviations are explicit and labelled.
func (w *World) GenTx(t *rapid.T, r *Replica, only []types.TxType) (*types.Transaction, TxInfo) {
	s := r.ReadState()
	st := s.State
	pool := allTxTypes
	if len(only) > 0 {
		pool = only
		if p := st.ValidationPeriod(); (p == state.FlipLotteryPeriod || p == state.ShortSessionPeriod) && rapid.IntRange(0, 4).Draw(t, "ceremonialOnly") != 4 {
			// the pool refuses everything but ceremony transactions in these periods
			var cer []types.TxType
			for _, x := range only {
				if x == types.SubmitAnswersHashTx || x == types.SubmitShortAnswersTx || x == types.SubmitLongAnswersTx || x == types.EvidenceTx {
					cer = append(cer, x)
				}
			}
			if len(cer) > 0 {
				pool = cer
			}
		}
	} else {
		switch st.ValidationPeriod() {
		case state.FlipLotteryPeriod, state.ShortSessionPeriod:
			// the pool refuses non-ceremonial txs in these periods: mostly offer ceremonial ones
			if rapid.IntRange(0, 4).Draw(t, "ceremonialOnly") != 4 {
				pool = []types.TxType{types.SubmitAnswersHashTx, types.SubmitAnswersHashTx, types.SubmitShortAnswersTx, types.SubmitLongAnswersTx, types.EvidenceTx}
			}
		case state.LongSessionPeriod, state.AfterLongSessionPeriod:
			if rapid.IntRange(0, 2).Draw(t, "ceremonialOnly") == 0 {
				pool = []types.TxType{types.SubmitAnswersHashTx, types.SubmitShortAnswersTx, types.SubmitLongAnswersTx, types.EvidenceTx, types.SendTx}
			}
		}
	}
	if st.ValidationPeriod() != state.NonePeriod && rapid.IntRange(0, 4).Draw(t, "skipLateTypes") != 4 {
		// these types are refused as "late" for the whole ceremony: offer them rarely there
		var rest []types.TxType
		for _, x := range pool {
			if !lateTypes[x] {
				rest = append(rest, x)
			}
		}
		if len(rest) > 0 {
			pool = rest
		}
	}
	typ := pool[rapid.IntRange(0, len(pool)-1).Draw(t, "txType")]
	// transitions that need a relationship built by earlier transactions (an invitee, a delegator, a pending
	// delegation, an invitation to activate, a deployed contract) are enabled rarely and then drawn rarely: when one of
	// them is enabled right now, take it in a quarter of the draws
	var enabledRare []types.TxType
	for _, rt := range rareTypes {
		inPool := false
		for _, pt := range pool {
			if pt == rt {
				inPool = true
				break
			}
		}
		if !inPool {
			continue
		}
		for _, a := range w.Actors {
			if w.plausibleSender(s, a, rt) {
				enabledRare = append(enabledRare, rt)
				break
			}
		}
	}
	if len(enabledRare) > 0 && rapid.IntRange(0, 3).Draw(t, "takeEnabledRare") == 0 {
		typ = enabledRare[rapid.IntRange(0, len(enabledRare)-1).Draw(t, "rareType")]
	}
	epoch := st.Epoch()
	// prefer a sender for which this type is plausible on the current state
	var plausible []*Actor
	for _, a := range w.Actors {
		if w.plausibleSender(s, a, typ) {
			plausible = append(plausible, a)
		}
	}
	var sender *Actor
	if len(plausible) > 0 && rapid.IntRange(0, 9).Draw(t, "anySender") != 9 {
		sender = plausible[rapid.IntRange(0, len(plausible)-1).Draw(t, "plausibleSender")]
	} else {
		sender = w.Actors[rapid.IntRange(0, len(w.Actors)-1).Draw(t, "sender")]
	}
	info := TxInfo{Sender: sender, Type: typ}
	bal := st.GetBalance(sender.Addr)
	tx := &types.Transaction{Type: typ, Epoch: epoch}
	tx.AccountNonce = r.AppState.NonceCache.GetNonce(sender.Addr, epoch) + 1
	id := st.GetIdentity(sender.Addr)

	switch typ {
	case types.SendTx:
		tx.To, info.Rel = w.pickTarget(t, s, sender, nil)
		tx.Amount = genAmount(t, bal, "amount")
	case types.InviteTx:
		tx.To, info.Rel = w.pickTarget(t, s, sender, []string{"fresh", "fresh", "undefined"})
		tx.Amount = genAmount(t, bal, "amount")
		if info.Rel == "fresh" {
			w.Invited = append(w.Invited, *tx.To)
		}
	case types.ActivationTx:
		var target *Actor
		switch rapid.IntRange(0, 3).Draw(t, "activationTarget") {
		case 0:
			target, info.Rel = sender, "self"
		case 1:
			target, info.Rel = w.NewActor(), "fresh"
		default:
			target, info.Rel = w.Actors[rapid.IntRange(0, len(w.Actors)-1).Draw(t, "actTo")], "other"
		}
		a := target.Addr
		tx.To = &a
		tx.Payload = target.Pub
	case types.KillTx, types.UndelegateTx:
		info.Rel = "none"
	case types.KillInviteeTx:
		// (strangers aim at invited / candidate addresses they did not invite)
		tx.To, info.Rel = w.pickTarget(t, s, sender, []string{"invitee", "invitee", "notvalidated"})
	case types.KillDelegatorTx:
		// (strangers and former pools aim at identities that are not their delegators)
		tx.To, info.Rel = w.pickTarget(t, s, sender, []string{"delegator", "delegator", "other"})
	case types.DelegateTx:
		tx.To, info.Rel = w.pickTarget(t, s, sender, []string{"other", "god", "other", "notvalidated"})
	case types.ChangeGodAddressTx:
		tx.To, info.Rel = w.pickTarget(t, s, sender, []string{"other"})
	case types.ReplenishStakeTx:
		tx.To, info.Rel = w.pickTarget(t, s, sender, []string{"self", "other", "delegator", "invitee"})
		tx.Amount = genAmount(t, bal, "amount")
	case types.BurnTx:
		tx.Amount = genAmount(t, bal, "amount")
		tx.Payload = attachments.CreateBurnAttachment(rapid.SampledFrom([]string{"k", "key2", ""}).Draw(t, "burnKey"))
		info.Rel = "none"
	case types.OnlineStatusTx:
		on := !s.ValidatorsCache.IsOnlineIdentity(sender.Addr)
		if st.HasStatusSwitchAddresses(sender.Addr) {
			on = !on
		}
		if rapid.IntRange(0, 5).Draw(t, "wrongDirection") == 5 {
			on = !on
		}
		tx.Payload = attachments.CreateOnlineStatusAttachment(on)
		info.Rel = "none"
	case types.ChangeProfileTx:
		tx.Payload = attachments.CreateChangeProfileAttachment(testCid(1, rapid.IntRange(0, 3).Draw(t, "profile")))
		info.Rel = "none"
	case types.StoreToIpfsTx:
		tx.Payload = attachments.CreateStoreToIpfsAttachment(testCid(2, rapid.IntRange(0, 3).Draw(t, "ipfsCid")), uint32(rapid.SampledFrom([]int{0, 1, 1000, 1 << 20}).Draw(t, "ipfsSize")))
		info.Rel = "none"
	case types.SubmitFlipTx:
		// mostly a fresh cid and a word pair the identity has not used yet (what a client does), sometimes a clash
		flipNo, pair := rapid.IntRange(0, 5).Draw(t, "flipNo"), rapid.IntRange(0, 12).Draw(t, "pair")
		if rapid.IntRange(0, 4).Draw(t, "clashingFlip") != 0 {
			used := map[uint8]bool{}
			for _, f := range id.Flips {
				used[f.Pair] = true
			}
			flipNo = int(epoch)*16 + len(id.Flips) + flipNo%2
			for p := 0; p < 30; p++ {
				if !used[uint8(p)] {
					pair = p
					break
				}
			}
		}
		tx.Payload = attachments.CreateFlipSubmitAttachment(testCid(sender.Addr[0], flipNo), uint8(pair))
		info.Rel = "none"
	case types.DeleteFlipTx:
		cid := testCid(sender.Addr[0], rapid.IntRange(0, 5).Draw(t, "flipNo"))
		if len(id.Flips) > 0 && rapid.Bool().Draw(t, "existingFlip") {
			cid = id.Flips[rapid.IntRange(0, len(id.Flips)-1).Draw(t, "flipIdx")].Cid
		}
		tx.Payload = attachments.CreateDeleteFlipAttachment(cid)
		info.Rel = "none"
	case types.SubmitAnswersHashTx:
		h := crypto.Keccak256([]byte{sender.Addr[0], byte(epoch)})
		tx.Payload = h
		info.Rel = "none"
	case types.SubmitShortAnswersTx:
		ans := types.NewAnswers(uint(rapid.IntRange(1, 8).Draw(t, "nAnswers")))
		ans.Left(0)
		tx.Payload = attachments.CreateShortAnswerAttachment(ans.Bytes(), rapid.Uint64().Draw(t, "rnd"), 0)
		info.Rel = "none"
	case types.SubmitLongAnswersTx:
		ans := types.NewAnswers(uint(rapid.IntRange(1, 20).Draw(t, "nAnswers")))
		ans.Right(0)
		seed := st.FlipWordsSeed()
		var proof []byte
		if signer, err := p256.NewVRFSigner(sender.Key); err == nil {
			_, proof = signer.Evaluate(seed[:])
		}
		key := ecies.ImportECDSA(DeriveKey(w.P.KeySeed^0x5a5a, sender.Idx))
		tx.Payload = attachments.CreateLongAnswerAttachment(ans.Bytes(), proof, []byte{1, 2, 3}, key)
		info.Rel = "none"
	case types.EvidenceTx:
		tx.Payload = []byte{byte(rapid.IntRange(0, 255).Draw(t, "evidence"))}
		info.Rel = "none"
	case types.DeployContractTx:
		fpg := st.FeePerGas()
		if fpg == nil {
			fpg = big.NewInt(0)
		}
		min := new(big.Int).Mul(fpg, big.NewInt(3000000))
		switch rapid.IntRange(0, 3).Draw(t, "deployAmount") {
		case 0:
			tx.Amount = min
		case 1:
			tx.Amount = new(big.Int).Add(min, Dna(1))
		case 2:
			tx.Amount = new(big.Int).Sub(min, big.NewInt(1))
		default:
			tx.Amount = genAmount(t, bal, "amount")
		}
		att := attachments.CreateDeployContractAttachment(embedded.TimeLockContract, nil, nil, common.ToBytes(uint64(w.now.Unix()+int64(rapid.IntRange(-100, 1000).Draw(t, "lockDelta")))))
		tx.Payload, _ = att.ToBytes()
		info.Rel = "none"
	case types.CallContractTx:
		tx.To, info.Rel = w.pickTarget(t, s, sender, []string{"contract"})
		method := rapid.SampledFrom([]string{"transfer", "transfer", "nosuch", ""}).Draw(t, "method")
		dest, _ := w.pickTarget(t, s, sender, []string{"self", "other"})
		var destB []byte
		if dest != nil {
			destB = dest.Bytes()
		}
		att := attachments.CreateCallContractAttachment(method, destB, Dna(int64(rapid.IntRange(0, 5).Draw(t, "callAmt"))).Bytes())
		tx.Payload, _ = att.ToBytes()
		tx.Amount = genAmount(t, bal, "amount")
	case types.TerminateContractTx:
		tx.To, info.Rel = w.pickTarget(t, s, sender, []string{"contract"})
		dest, _ := w.pickTarget(t, s, sender, []string{"self", "other"})
		var destB []byte
		if dest != nil {
			destB = dest.Bytes()
		}
		att := attachments.CreateTerminateContractAttachment(destB)
		tx.Payload, _ = att.ToBytes()
	}

	if w.FatTxs && typ == types.SendTx && r.Cfg.Consensus.EnableUpgrade11 && rapid.IntRange(0, 2).Draw(t, "fatPayload") != 2 {
		// a payload of tens of kilobytes (allowed from upgrade 11 on): a handful of these fill a block to its gas cap
		tx.Payload = make([]byte, rapid.SampledFrom([]int{30000, 60000, 100000, 150000, 250000}).Draw(t, "fatPayloadSize"))
		tx.Payload[0], tx.Payload[len(tx.Payload)-1] = byte(len(tx.Payload)), sender.Addr[0]
	}
	// fee: normally twice the current fee, so the tx stays valid when the rate moves
	netSize := s.ValidatorsCache.NetworkSize()
	curFee := fee.CalculateFee(netSize, st.FeePerGas(), tx)
	minFee := fee.CalculateFee(netSize, fee.GetFeePerGasForNetwork(netSize), tx)
	if minFee.Cmp(curFee) > 0 {
		curFee = minFee
	}
	tx.MaxFee = new(big.Int).Mul(curFee, big.NewInt(2))
	if typ == types.DeployContractTx || typ == types.CallContractTx || typ == types.TerminateContractTx {
		tx.MaxFee = new(big.Int).Add(tx.MaxFee, Dna(int64(rapid.IntRange(0, 3).Draw(t, "gasDna"))))
	}
	if rapid.IntRange(0, 9).Draw(t, "tipsOn") == 0 {
		tx.Tips = genAmount(t, bal, "tips")
	}

	// hostile deviations
	switch rapid.IntRange(0, 42).Draw(t, "hostile") - 27 {
	case 14:
		// money fields below zero exist only on objects built inside the node (RPC, own code): the wire drops the sign.
		// A negative amount that the other fields make up for keeps the total cost non-negative.
		neg := big.NewInt(-1)
		if a := genAmount(t, new(big.Int).Add(bal, big.NewInt(1000)), "negativeAmount"); a != nil && a.Sign() > 0 {
			neg = new(big.Int).Neg(a)
		}
		tx.Amount = neg
		if rapid.Bool().Draw(t, "compensatedByTips") {
			tx.Tips = new(big.Int).Neg(neg)
		} else {
			tx.MaxFee = new(big.Int).Add(new(big.Int).Neg(neg), curFee)
		}
		info.Hostile = "negative-amount"
	case 15:
		tx.Tips = big.NewInt(-1)
		if a := genAmount(t, new(big.Int).Add(bal, big.NewInt(1000)), "negativeTips"); a != nil && a.Sign() > 0 {
			tx.Tips = new(big.Int).Neg(a)
		}
		if rapid.Bool().Draw(t, "coveredByMaxFee") {
			tx.MaxFee = new(big.Int).Add(new(big.Int).Neg(tx.Tips), curFee)
		}
		info.Hostile = "negative-tips"
	case 13:
		tx.Epoch = epoch + 1
		info.Hostile = "future-epoch"
	case 1:
		if epoch > 0 {
			tx.Epoch = epoch - 1
			info.Hostile = "past-epoch"
		}
	case 2:
		if tx.AccountNonce > 1 {
			tx.AccountNonce--
			info.Hostile = "stale-nonce"
		}
	case 3:
		tx.AccountNonce += uint32(rapid.IntRange(1, 3).Draw(t, "gap"))
		info.Hostile = "nonce-gap"
	case 4:
		tx.MaxFee = new(big.Int).Sub(curFee, big.NewInt(1))
		if tx.MaxFee.Sign() < 0 {
			tx.MaxFee = big.NewInt(0)
		}
		info.Hostile = "low-maxfee"
	case 5:
		tx.MaxFee = new(big.Int).Lsh(big.NewInt(1), 100)
		info.Hostile = "huge-maxfee"
	case 6:
		tx.To = nil
		info.Hostile = "nil-to"
	case 7:
		tx.Payload = rapid.SliceOfN(rapid.Byte(), 0, 40).Draw(t, "junkPayload")
		info.Hostile = "junk-payload"
	case 8:
		tx.Payload = nil
		info.Hostile = "nil-payload"
	case 9:
		if !r.Cfg.Consensus.EnableUpgrade11 {
			tx.Payload = make([]byte, 3*1024+1)
			info.Hostile = "oversized-payload"
		}
	case 10:
		a := w.Actors[rapid.IntRange(0, len(w.Actors)-1).Draw(t, "hostileTo")].Addr
		tx.To = &a
		info.Hostile = "unexpected-to"
	case 11:
		tx.Amount = genAmount(t, bal, "hostileAmount")
		info.Hostile = "unexpected-amount"
	case 12:
		tx.MaxFee = nil
		info.Hostile = "nil-maxfee"
	}
	signed, err := types.SignTx(tx, sender.Key)
	if err != nil {
		t.Fatalf("sign: %v", err)
	}
	// a signature no key can be recovered from (wrong length, recovery id out of range, zeros): nobody signed this
	if rapid.IntRange(0, 39).Draw(t, "junkSignature") == 0 {
		c := WireCopyTx(signed)
		switch rapid.IntRange(0, 4).Draw(t, "junkSignatureKind") {
		case 0:
			c.Signature = c.Signature[:len(c.Signature)-1]
		case 1:
			c.Signature = append(c.Signature, 0)
		case 2:
			c.Signature[len(c.Signature)-1] = byte(rapid.IntRange(4, 255).Draw(t, "recoveryId"))
		case 3:
			c.Signature = make([]byte, 65)
		default:
			c.Signature = []byte{1}
		}
		if _, err := types.Sender(c); err != nil {
			info.Hostile = "unrecoverable-signature"
			return c, info
		}
	}
	// a genuine signature grafted onto other content: the node has seen the genuine transaction (its sender has been
	// recovered, as on receipt) and then meets a DIFFERENT transaction carrying the same signature bytes. Nobody
	// signed that one; whatever address its signature recovers to over the new content is not the genuine signer.
	if rapid.IntRange(0, 39).Draw(t, "graftedSignature") == 0 {
		types.Sender(signed)
		c := WireCopyTx(signed)
		switch rapid.IntRange(0, 3).Draw(t, "graftedContent") {
		case 0:
			c.Amount = new(big.Int).Add(c.AmountOrZero(), big.NewInt(1))
		case 1:
			a := w.Actors[rapid.IntRange(0, len(w.Actors)-1).Draw(t, "graftedTo")].Addr
			if c.To != nil && *c.To == a {
				c.Amount = new(big.Int).Add(c.AmountOrZero(), big.NewInt(1))
			}
			c.To = &a
		case 2:
			c.AccountNonce++
		default:
			c.Payload = append(append([]byte{}, c.Payload...), 1)
		}
		info.Hostile = "grafted-signature"
		return c, info
	}
	return signed, info
}

// TrueSigner recovers the signer of tx from its content and signature bytes alone (no per-object or shared cache of
// the repository involved): the address whose key produced the signature over THIS content.
func TrueSigner(tx *types.Transaction) (common.Address, error) {
	var h common.Hash
	if tx.UseRlp {
		h = rlp.Hash([]interface{}{tx.AccountNonce, tx.Epoch, tx.Type, tx.To, tx.Amount, tx.MaxFee, tx.Tips, tx.Payload})
	} else {
		h = crypto.SignatureHash(tx)
	}
	pub, err := crypto.Ecrecover(h[:], tx.Signature)
	if err != nil {
		return common.Address{}, err
	}
	if len(pub) == 0 || pub[0] != 4 {
		return common.Address{}, fmt.Errorf("invalid public key")
	}
	return crypto.PubKeyBytesToAddress(pub)
}

// inviteesOf lists the addresses related to a as invitees by either record of the relation: a's own invitee list and
// the inviter record of every known address.
func (w *World) inviteesOf(s *appstate.AppState, a *Actor, id state.Identity) []common.Address {
	var xs []common.Address
	seen := map[common.Address]bool{}
	for _, inv := range id.Invitees {
		if !seen[inv.Address] {
			seen[inv.Address] = true
			xs = append(xs, inv.Address)
		}
	}
	for _, x := range w.Actors {
		if inv := s.State.GetIdentity(x.Addr).Inviter; inv != nil && inv.Address == a.Addr && !seen[x.Addr] {
			seen[x.Addr] = true
			xs = append(xs, x.Addr)
		}
	}
	return xs
}

// plausibleSender says whether a tx of this type from a is likely to pass the
// type's own validator on state s (used to steer generation, never as an oracle).
func (w *World) plausibleSender(s *appstate.AppState, a *Actor, typ types.TxType) bool {
	st := s.State
	id := st.GetIdentity(a.Addr)
	switch typ {
	case types.ActivationTx:
		return id.State == state.Invite
	case types.InviteTx:
		return id.Invites > 0 || a.Addr == st.GodAddress() && st.GodAddressInvites() > 0
	case types.KillTx:
		return id.State == state.Verified || id.State == state.Human || id.State == state.Suspended || id.State == state.Zombie
	case types.KillInviteeTx:
		for _, inv := range w.inviteesOf(s, a, id) {
			if x := st.GetIdentityState(inv); x == state.Invite || x == state.Candidate {
				return true
			}
		}
		return false
	case types.KillDelegatorTx:
		for _, x := range w.Actors {
			if d := st.Delegatee(x.Addr); d != nil && *d == a.Addr {
				return true
			}
		}
		return false
	case types.DelegateTx:
		return id.Delegatee() == nil && !s.ValidatorsCache.IsPool(a.Addr) && id.State != state.Undefined
	case types.UndelegateTx:
		return id.Delegatee() != nil || st.DelegationSwitch(a.Addr) != nil
	case types.OnlineStatusTx:
		return (s.ValidatorsCache.IsValidated(a.Addr) || s.ValidatorsCache.IsPool(a.Addr)) && id.Delegatee() == nil
	case types.SubmitFlipTx:
		return id.State >= state.Candidate && int(id.GetMaximumAvailableFlips()) > len(id.Flips)
	case types.DeleteFlipTx:
		return len(id.Flips) > 0
	case types.SubmitAnswersHashTx, types.SubmitShortAnswersTx, types.SubmitLongAnswersTx, types.EvidenceTx:
		return state.IsCeremonyCandidate(id) && !id.HasValidationTx(typ)
	case types.ChangeGodAddressTx:
		return a.Addr == st.GodAddress()
	case types.CallContractTx, types.TerminateContractTx:
		return len(w.Contracts) > 0 && st.GetBalance(a.Addr).Sign() > 0
	default:
		return st.GetBalance(a.Addr).Sign() > 0
	}
}

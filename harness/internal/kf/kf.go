// Package kf reads /verif/known_findings.json (committed, never written at run
// time). A finding whose key is listed with status "known" is recorded and the
// search continues; anything else fails the case. "fixed" entries suppress
// nothing.
package kf

import (
	"encoding/json"
	"os"
	"sync"

	"verifharness/internal/evid"
)

type Entry struct {
	Property string `json:"property"`
	Key      string `json:"key"`
	Status   string `json:"status"`
	Commit   string `json:"commit,omitempty"`
	What     string `json:"what"`
}

type fataler interface {
	Fatalf(format string, args ...interface{})
	Helper()
}

var (
	once    sync.Once
	entries []Entry
)

func load() {
	path := os.Getenv("VERIF_KNOWN")
	if path == "" {
		path = "/verif/known_findings.json"
	}
	b, err := os.ReadFile(path)
	if err != nil {
		return
	}
	var doc struct {
		Findings []Entry `json:"findings"`
	}
	if json.Unmarshal(b, &doc) == nil {
		entries = doc.Findings
	}
}

// Listed reports whether (property,key) is a recorded, unrepaired finding.
func Listed(property, key string) bool {
	once.Do(load)
	for _, e := range entries {
		if e.Property == property && e.Key == key && e.Status == "known" {
			return true
		}
	}
	return false
}

// Report handles an oracle failure identified by key. It returns (true) when
// the finding is listed as known — the caller must then exclude the shape and
// go on; otherwise it fails the case and does not return.
func Report(t fataler, property, key, format string, args ...interface{}) bool {
	t.Helper()
	if Listed(property, key) {
		what := key
		for _, e := range entries {
			if e.Property == property && e.Key == key {
				what = e.What
			}
		}
		evid.KnownHit(property, key, what)
		return true
	}
	t.Fatalf("FINDING property=%s key=%s: "+format, append([]interface{}{property, key}, args...)...)
	return false
}

package c19

import (
	"context"
	"errors"
	"fmt"
	"sync"
	"sync/atomic"

	"github.com/idena-network/idena-go/rpc"
)

// Probe is the service registered under the namespace "probe". Every entry
// into any of its methods bumps an atomic counter and appends one line to an
// invocation log, so the oracle sees whether ANY method ran and which one.
type Probe struct {
	entries int64 // atomic: entries into any method

	mu   sync.Mutex
	log  []string
	subs []probeSub
}

type probeSub struct {
	n  *rpc.Notifier
	id rpc.ID
}

func (p *Probe) enter(line string) {
	atomic.AddInt64(&p.entries, 1)
	p.mu.Lock()
	p.log = append(p.log, line)
	p.mu.Unlock()
}

// mark returns the current position in the invocation log.
func (p *Probe) mark() (int, int64) {
	p.mu.Lock()
	defer p.mu.Unlock()
	return len(p.log), atomic.LoadInt64(&p.entries)
}

// since returns the log lines appended after position pos.
func (p *Probe) since(pos int) []string {
	p.mu.Lock()
	defer p.mu.Unlock()
	return append([]string(nil), p.log[pos:]...)
}

// ---- plain calls: 0, 1, 2 arguments, optional argument, context, no result, error result

func (p *Probe) Ping() string { p.enter("ping"); return "pong" }

func (p *Probe) One(a string) string { p.enter("one:" + a); return "one:" + a }

func (p *Probe) Two(a string, b int) string {
	p.enter(fmt.Sprintf("two:%s:%d", a, b))
	return fmt.Sprintf("two:%s:%d", a, b)
}

func (p *Probe) Opt(a *string) string {
	if a == nil {
		p.enter("opt:<nil>")
		return "opt:<nil>"
	}
	p.enter("opt:" + *a)
	return "opt:" + *a
}

func (p *Probe) Ctx(ctx context.Context, a int) int { p.enter(fmt.Sprintf("ctx:%d", a)); return a }

func (p *Probe) Void() { p.enter("void") }

func (p *Probe) Fail() (string, error) { p.enter("fail"); return "", errors.New("probe: fail") }

// Emit sends tag on every subscription that was created over the calling
// connection, synchronously: for an activated subscription the notification is
// written to the connection before Emit's own response.
func (p *Probe) Emit(ctx context.Context, tag int) int {
	p.enter(fmt.Sprintf("emit:%d", tag))
	n, ok := rpc.NotifierFromContext(ctx)
	if !ok {
		return -1
	}
	p.mu.Lock()
	mine := make([]probeSub, 0, len(p.subs))
	for _, s := range p.subs {
		if s.n == n {
			mine = append(mine, s)
		}
	}
	p.mu.Unlock()
	for _, s := range mine {
		n.Notify(s.id, tag)
	}
	return len(mine)
}

// ---- subscriptions

func (p *Probe) subscribe(ctx context.Context, line string) (*rpc.Subscription, error) {
	p.enter(line)
	n, ok := rpc.NotifierFromContext(ctx)
	if !ok {
		return nil, errors.New("probe: notifications unsupported")
	}
	s := n.CreateSubscription()
	p.mu.Lock()
	p.subs = append(p.subs, probeSub{n, s.ID})
	p.mu.Unlock()
	return s, nil
}

func (p *Probe) Feed(ctx context.Context, label string) (*rpc.Subscription, error) {
	return p.subscribe(ctx, "feed:"+label)
}

func (p *Probe) Plain(ctx context.Context) (*rpc.Subscription, error) {
	return p.subscribe(ctx, "plain")
}

package c19

import (
	"bytes"
	"encoding/json"
	"fmt"
	"reflect"
	"strings"
	"testing"

	"pgregory.net/rapid"

	"verifharness/internal/evid"
	"verifharness/internal/kf"
)

func TestMain(m *testing.M) { evid.Main(m) }

const invalidKeyCode = -32800 // rpc/errors.go: invalidApiKeyError

// Stable keys of the deviations found on the unchanged tree (see check.json).
const (
	kfWholeBatch = "c19.nonstring-key-fails-whole-batch"
	kfDropsConn  = "c19.nonstring-key-drops-connection"
)

type pair struct {
	key        string
	main, twin *world
}

func newPair(f failer, key string) *pair {
	p := &pair{key: key}
	p.main = newWorld(f, "server", key, true)
	p.twin = newWorld(f, "twin", key, false)
	return p
}

func (p *pair) close() {
	if p.main != nil {
		p.main.close()
	}
	if p.twin != nil {
		p.twin.close()
	}
}

// dispatched: the answer shows that the request went through the gate and
// reached a method / the subscription machinery.
func dispatched(it respItem) bool {
	return it.hasResult || (it.isErr && it.code == -32000 && strings.HasPrefix(it.msg, "probe:"))
}

// logName predicts which probe method an element reaches once it is past the
// gate (only used to attribute the twin's invocation log to elements; a wrong
// prediction stops the run with a "harness:" failure, it cannot hide anything).
func logName(w wireReq) string {
	m := w.Method
	switch {
	case strings.HasSuffix(m, "_subscribe"):
		if strings.TrimSuffix(m, "_subscribe") != "probe" {
			return ""
		}
		var a [1]string
		if json.Unmarshal(w.Payload, &a) != nil {
			return ""
		}
		if a[0] == "feed" || a[0] == "plain" {
			return a[0]
		}
		return ""
	case strings.HasSuffix(m, "_unsubscribe"):
		return ""
	}
	parts := strings.Split(m, "_")
	if len(parts) != 2 || parts[0] != "probe" {
		return ""
	}
	switch parts[1] {
	case "ping", "one", "two", "opt", "ctx", "void", "fail", "emit":
		return parts[1]
	}
	return ""
}

func sameJSON(a, b string) bool {
	var x, y interface{}
	da := json.NewDecoder(strings.NewReader(a))
	da.UseNumber()
	db := json.NewDecoder(strings.NewReader(b))
	db.UseNumber()
	if da.Decode(&x) != nil || db.Decode(&y) != nil {
		return a == b
	}
	return reflect.DeepEqual(x, y)
}

// outcome of one message in one world
type outcome struct {
	text   string
	parts  []string // resolved element texts
	rep    reply
	notes  []notification
	log    []string
	rejAll bool // the message was refused as a whole (one error object for a batch)
}

func (o *outcome) item(i int) respItem {
	if o.rep.single {
		return o.rep.items[0]
	}
	return o.rep.items[i]
}

func run(f failer, w *world, m *message, twin bool) *outcome {
	f.Helper()
	o := &outcome{}
	o.text, o.parts = m.text(twin, func(s string) string { return w.resolve(s, m.Transport) })
	pos, _ := w.probe.mark()
	o.rep, o.notes = w.exchange(f, m.Transport, o.text, m.HTTP)
	o.log = w.probe.since(pos)
	n := len(m.Elems)
	switch {
	case o.rep.none:
	case m.Garbage != "":
	case o.rep.single && m.Batch:
		o.rejAll = true
		if !o.rep.items[0].isErr {
			f.Fatalf("%s: batch of %d answered with a single non-error object\nmessage: %s\nanswer:  %s", w.name, n, o.text, o.rep.raw)
		}
	case o.rep.single:
	default:
		if !m.Batch || len(o.rep.items) != n {
			f.Fatalf("%s: %d element(s) sent, %d answer(s) received: some request has no answer\nmessage: %s\nanswer:  %s", w.name, n, len(o.rep.items), o.text, o.rep.raw)
		}
	}
	return o
}

// applyModel updates the world's model of live subscriptions from the answers.
func applyModel(f failer, w *world, m *message, o *outcome) {
	c := w.conns[m.Transport]
	if c == nil || o.rep.none || o.rejAll || m.Garbage != "" {
		return
	}
	for i := range m.Elems {
		it := o.item(i)
		if !it.hasResult {
			continue
		}
		var wr wireReq
		if json.Unmarshal([]byte(o.parts[i]), &wr) != nil {
			continue
		}
		switch {
		case strings.HasSuffix(wr.Method, "_subscribe"):
			var id string
			if json.Unmarshal([]byte(it.result), &id) != nil || id == "" {
				f.Fatalf("harness: %s: subscribe answered with %s", w.name, it.raw)
			}
			c.live = append(c.live, id)
		case strings.HasSuffix(wr.Method, "_unsubscribe"):
			var a []json.RawMessage
			var id string
			if json.Unmarshal(wr.Payload, &a) == nil && len(a) > 0 && json.Unmarshal(a[0], &id) == nil {
				c.dropLive(id)
			}
		}
	}
}

// step generates one message, sends it to the server and its all-keys-K twin
// to the twin server, and evaluates the oracle.
func (p *pair) step(f failer, m *message) {
	f.Helper()
	tr := m.Transport
	evid.Eval()
	classify(m)

	mo := run(f, p.main, m, false)
	to := run(f, p.twin, m, true)
	ctx := func() string {
		return fmt.Sprintf("\ntransport: %s %+v\nconfigured key: %q\nmessage: %s\nanswer:  %s\ntwin message: %s\ntwin answer:  %s\nprobe log: %q",
			tr, m.HTTP, p.key, mo.text, mo.rep.raw, to.text, to.rep.raw, mo.log)
	}

	p.main.context, p.twin.context = ctx, ctx
	defer func() { p.main.context, p.twin.context = nil, nil }()

	if mo.rep.none {
		f.Fatalf("no answer at all (connection closed or empty HTTP body)%s", ctx())
	}
	if m.Garbage != "" {
		for _, it := range mo.rep.items {
			if !it.isErr {
				f.Fatalf("a message that is no request was answered with a result%s", ctx())
			}
		}
	}
	// Nothing may be delivered while the message is processed: keyed elements never emit.
	if len(mo.notes) > 0 {
		f.Fatalf("notification(s) %v were delivered while the message was processed: an un-keyed probe_emit ran%s", mo.notes, ctx())
	}

	hasBadKeyType := false
	anyUnkeyed, anyKeyed, pubsubVariant := false, false, false
	allClean := m.Garbage == ""
	for i := range m.Elems {
		e := &m.Elems[i]
		hasBadKeyType = hasBadKeyType || e.BadKeyType
		allClean = allClean && e.Clean
		if e.keyed {
			anyKeyed = true
		} else {
			anyUnkeyed = true
			if strings.HasSuffix(e.w.Method, "subscribe") {
				pubsubVariant = true
			}
		}
	}

	// The only difference between message and twin are key members. If the
	// server refuses the whole message but the twin server does not, the refusal
	// is caused by a key member.
	rejectedForKey := mo.rejAll && !to.rejAll
	skipRelative := false
	if rejectedForKey {
		if !hasBadKeyType {
			f.Fatalf("the batch was refused as a whole although only key members differ from the served twin%s", ctx())
		}
		if anyKeyed {
			if !kf.Report(f, "C19", kfWholeBatch,
				"a batch holding an element whose \"key\" member is not a JSON string is refused as a whole (one error object), so the elements of the same batch that do carry the key are not served%s", ctx()) {
				return
			}
		}
		// Without keyed siblings nothing is served and every element is answered by
		// the one error object; that the error is not the invalid-key error for the
		// well-formed un-keyed siblings is not held against the server.
		skipRelative = true
	}

	// ---- O3: which methods ran. Attribute the twin's invocation log to elements.
	var wantLog []string
	twinDisp := make([]bool, len(m.Elems))
	if m.Garbage == "" && !to.rep.none {
		k := 0
		for i := range m.Elems {
			e := &m.Elems[i]
			twinDisp[i] = !to.rejAll && dispatched(to.item(i))
			if !twinDisp[i] {
				continue
			}
			var tw wireReq
			if json.Unmarshal([]byte(to.parts[i]), &tw) != nil {
				f.Fatalf("harness: twin element %d dispatched but not decodable%s", i, ctx())
			}
			ln := logName(tw)
			if ln == "" {
				continue
			}
			if k >= len(to.log) || !(to.log[k] == ln || strings.HasPrefix(to.log[k], ln+":")) {
				f.Fatalf("harness: cannot attribute twin log %q to element %d (%s)%s", to.log, i, ln, ctx())
			}
			if e.keyed {
				wantLog = append(wantLog, to.log[k])
			}
			k++
		}
		if k != len(to.log) {
			f.Fatalf("harness: twin log %q has entries that belong to no element%s", to.log, ctx())
		}
	} else if len(to.log) != 0 {
		f.Fatalf("harness: twin ran %q on a garbage message%s", to.log, ctx())
	}
	if skipRelative {
		wantLog = nil
	}
	if !reflect.DeepEqual(mo.log, wantLog) && !(len(mo.log) == 0 && len(wantLog) == 0) {
		f.Fatalf("service methods that ran: %q, expected exactly those of the elements carrying the key: %q%s", mo.log, wantLog, ctx())
	}

	// ---- per element
	for i := range m.Elems {
		e := &m.Elems[i]
		it := mo.item(i)
		if !e.keyed {
			// O1: answered with an error
			if !it.isErr {
				f.Fatalf("element %d (%s, key variant %s) does not carry the key but was answered with a result: %s%s", i, e.Kind, e.KeyVar, it.raw, ctx())
			}
			// O2: the invalid-key error when the element is otherwise well-formed, i.e. its
			// members decode and the same element with the key is dispatched.
			if e.decoded && twinDisp[i] && it.code != invalidKeyCode && !skipRelative {
				f.Fatalf("element %d (%s, key variant %s) is well-formed apart from the key (its twin is served: %s) but the error is not the invalid-key error %d: %s%s",
					i, e.Kind, e.KeyVar, to.item(i).raw, invalidKeyCode, it.raw, ctx())
			}
			if it.code == invalidKeyCode {
				evid.Count("answer.unkeyed.invalid-key")
			} else {
				evid.Count("answer.unkeyed.other-error")
			}
			continue
		}
		// O5: elements carrying the key are served exactly like in the all-keyed twin.
		// (When both servers refuse the whole message it is malformed whatever its
		// keys are; the two refusals may name different members.)
		if skipRelative || (mo.rejAll && to.rejAll) {
			continue
		}
		ti := to.item(i)
		same := it.isErr == ti.isErr && it.hasResult == ti.hasResult && it.code == ti.code && it.msg == ti.msg
		if same && it.hasResult && !strings.HasSuffix(e.w.Method, "_subscribe") {
			same = sameJSON(it.result, ti.result)
		}
		if !same {
			f.Fatalf("element %d (%s, key variant %s) carries the key but is not served like in the all-keyed twin: %s vs twin %s%s", i, e.Kind, e.KeyVar, it.raw, ti.raw, ctx())
		}
		if it.hasResult {
			evid.Count("answer.keyed.result")
		} else {
			evid.Count("answer.keyed.error")
		}
	}

	// ---- O6: absolute expectations on messages made of clean elements only
	if allClean {
		if mo.rejAll {
			f.Fatalf("a batch of well-formed elements was refused as a whole%s", ctx())
		}
		for i := range m.Elems {
			e := &m.Elems[i]
			if e.Canon == "" {
				continue
			}
			it := mo.item(i)
			if !e.keyed {
				if !(it.isErr && it.code == invalidKeyCode) {
					f.Fatalf("element %d (%s, key variant %s): well-formed request without the key must get the invalid-key error %d, got %s%s", i, e.Kind, e.KeyVar, invalidKeyCode, it.raw, ctx())
				}
				continue
			}
			ok := false
			switch e.Canon {
			case "call":
				ok = it.hasResult && sameJSON(it.result, e.WantResult)
			case "fail":
				ok = it.isErr && it.code == -32000 && strings.HasPrefix(it.msg, "probe:")
			case "sub":
				var id string
				ok = it.hasResult && json.Unmarshal([]byte(it.result), &id) == nil && id != ""
			case "unsub":
				ok = it.hasResult && it.result == "true"
			}
			if !ok {
				f.Fatalf("element %d (%s, key variant %s) carries the key and is well-formed but was not served: %s%s", i, e.Kind, e.KeyVar, it.raw, ctx())
			}
			evid.Count("answer.keyed.canonical-served")
		}
	}

	// ---- O4: subscriptions. Model := effects of the answers to keyed elements
	// (un-keyed elements have error answers, so they contribute nothing), then
	// every pub-sub connection must deliver on exactly the model's live set.
	// A live subscription that an un-keyed unsubscribe aimed at is, in half of
	// the cases, cancelled with the key right afterwards: it must still be there.
	cycleID := ""
	if c := p.main.conns[tr]; c != nil && !mo.rejAll && m.Cycle {
		for i := range m.Elems {
			e := &m.Elems[i]
			if !e.keyed && e.Target >= 0 && e.Target < len(c.live) {
				cycleID = c.live[e.Target]
			}
		}
	}
	applyModel(f, p.main, m, mo)
	applyModel(f, p.twin, m, to)

	for _, t2 := range pubsubTransports {
		mainClosed := p.main.settleCycle(f, t2, cycleID, t2 == tr)
		twinClosed := p.twin.settle(f, t2)
		if t2 != tr && (mainClosed || twinClosed) {
			f.Fatalf("the %s connection was closed by a message sent over %s%s", t2, tr, ctx())
		}
		if mainClosed && !twinClosed {
			if !hasBadKeyType {
				f.Fatalf("the server closed the %s connection (dropping its subscriptions) although the all-keyed twin stays connected%s", tr, ctx())
			}
			if !kf.Report(f, "C19", kfDropsConn,
				"a request whose \"key\" member is not a JSON string makes the server close the %s connection after the error answer; the live subscriptions of that connection stop delivering%s", tr, ctx()) {
				return
			}
			evid.Count("observed.closed-for-key-type")
		}
		if !mainClosed && twinClosed {
			f.Fatalf("harness: only the twin connection was closed%s", ctx())
		}
		if mainClosed {
			evid.Count("observed.connection-closed-by-server")
			p.main.connect(f, t2)
		}
		if twinClosed {
			p.twin.connect(f, t2)
		}
	}

	// ---- evidence
	desc := descriptor(m)
	if (m.Batch && anyKeyed && anyUnkeyed) || pubsubVariant {
		evid.NonTrivial(desc)
		if m.Batch && anyKeyed && anyUnkeyed {
			evid.Count("nontrivial.mixed-batch")
		}
		if pubsubVariant {
			evid.Count("nontrivial.unkeyed-pubsub")
		}
	}
	if m.Batch && anyKeyed && anyUnkeyed {
		evid.Sample("mixed-batch", map[string]interface{}{"transport": tr, "key": p.key, "message": mo.text, "answer": mo.rep.raw})
	} else if pubsubVariant {
		evid.Sample("unkeyed-pubsub", map[string]interface{}{"transport": tr, "key": p.key, "message": mo.text, "answer": mo.rep.raw})
	}
}

// settleCycle is settle for the main world; cycleID names a live subscription
// of this connection that is first cancelled with the key.
func (w *world) settleCycle(f failer, tr string, cycleID string, own bool) (closed bool) {
	f.Helper()
	if w.sync(f, tr) {
		return true
	}
	if own && cycleID != "" {
		if w.unsubscribeKeyed(f, tr, cycleID) {
			return true
		}
		evid.Count("observed.keyed-unsubscribe-after-unkeyed-attempt")
	}
	return w.settle(f, tr)
}

func descriptor(m *message) string {
	var sb strings.Builder
	sb.WriteString(m.Transport)
	if m.Batch {
		sb.WriteString("|batch")
	}
	for _, e := range m.Elems {
		fmt.Fprintf(&sb, "|%s/%s/%v", e.Kind, e.KeyVar, e.keyed)
	}
	return sb.String()
}

func classify(m *message) {
	tr := m.Transport
	evid.Count("transport." + tr)
	if tr == "http" {
		switch {
		case m.HTTP.Method != "":
			evid.Count("http.method-" + m.HTTP.Method)
		case m.HTTP.Query != "":
			evid.Count("http.key-in-query")
		case len(m.HTTP.Header) > 0:
			evid.Count("http.key-or-origin-in-header")
		}
	}
	switch {
	case m.Garbage != "":
		evid.Count("shape.garbage-message")
	case m.Batch:
		evid.Count(fmt.Sprintf("shape.batch-%d", len(m.Elems)))
	default:
		evid.Count("shape.single")
	}
	for _, e := range m.Elems {
		evid.Count("kind." + e.Kind)
		evid.Count("key." + e.KeyVar)
		evid.Count("transport-kind." + tr + "." + e.Kind)
		if e.keyed {
			evid.Count("carries-key.yes")
		} else {
			evid.Count("carries-key.no")
			evid.Count("unkeyed-kind." + e.Kind)
		}
		if !e.decoded {
			evid.Count("element.not-decodable")
		}
	}
}

// finish cancels every live subscription of the server with the key.
func (p *pair) finish(f failer) {
	f.Helper()
	for _, tr := range pubsubTransports {
		c := p.main.conns[tr]
		for len(c.live) > 0 {
			if p.main.unsubscribeKeyed(f, tr, c.live[0]) {
				f.Fatalf("connection %s closed during the final keyed unsubscribe", tr)
			}
		}
		if p.main.sync(f, tr) {
			f.Fatalf("connection %s closed at the end", tr)
		}
	}
}

// TestC19Gate: the property. One case = one server (plus its twin) with a
// drawn key and a sequence of generated messages over all transports.
func TestC19Gate(t *testing.T) {
	rapid.Check(t, func(t *rapid.T) {
		key := genKey(t)
		evid.Count("configured-key." + keyClass(key))
		p := newPair(t, key)
		defer p.close()
		t.Repeat(map[string]func(*rapid.T){
			"message": func(t *rapid.T) {
				p.step(t, genMessage(t, key))
			},
		})
		p.finish(t)
	})
}

func keyClass(k string) string {
	switch {
	case len(k) == 32 && strings.Trim(k, "0123456789abcdef") == "":
		return "hex32"
	case len(k) > 100:
		return "long"
	case strings.ContainsAny(k, `"\`):
		return "quotes"
	case bytes.IndexFunc([]byte(k), func(r rune) bool { return r > 127 }) >= 0:
		return "unicode"
	case strings.Trim(k, "0123456789") == "":
		return "digits"
	default:
		return "ascii"
	}
}

package c19

import (
	"bytes"
	"context"
	"encoding/json"
	"fmt"
	"io"
	"net"
	"net/http"
	"os"
	"path/filepath"
	"strings"
	"time"

	"github.com/idena-network/idena-go/rpc"
	"golang.org/x/net/websocket"
)

const (
	nLive  = 2                // live subscriptions kept on every pub-sub connection
	safety = 20 * time.Second // safety timeout; never a correctness signal on a healthy server
)

var pubsubTransports = []string{"ws", "ipc", "inproc"}

// failer is what the harness needs from *rapid.T / *testing.T.
type failer interface {
	Fatalf(format string, args ...interface{})
	Helper()
}

// ---------------------------------------------------------------- responses

type respItem struct {
	raw       string
	hasResult bool
	result    string
	isErr     bool
	code      int
	msg       string
	id        string
}

func (r respItem) String() string { return r.raw }

// reply is the server's answer to one message.
type reply struct {
	none   bool       // connection closed without an answer
	single bool       // one object (not an array)
	items  []respItem // one entry when single, else the array entries
	status int        // HTTP status (0 on other transports)
	raw    string
}

func parseItem(raw json.RawMessage) (respItem, error) {
	it := respItem{raw: string(raw)}
	var m map[string]json.RawMessage
	if err := json.Unmarshal(raw, &m); err != nil {
		return it, err
	}
	if e, ok := m["error"]; ok {
		var je struct {
			Code    int    `json:"code"`
			Message string `json:"message"`
		}
		if err := json.Unmarshal(e, &je); err != nil {
			return it, err
		}
		it.isErr, it.code, it.msg = true, je.Code, je.Message
	} else if r, ok := m["result"]; ok {
		it.hasResult, it.result = true, string(r)
	} else {
		return it, fmt.Errorf("neither result nor error")
	}
	it.id = string(m["id"])
	return it, nil
}

func parseReply(raw json.RawMessage) (reply, error) {
	rep := reply{raw: string(raw)}
	trim := bytes.TrimLeft(raw, " \t\r\n")
	if len(trim) > 0 && trim[0] == '[' {
		var arr []json.RawMessage
		if err := json.Unmarshal(raw, &arr); err != nil {
			return rep, err
		}
		for _, a := range arr {
			it, err := parseItem(a)
			if err != nil {
				return rep, err
			}
			rep.items = append(rep.items, it)
		}
		return rep, nil
	}
	it, err := parseItem(raw)
	if err != nil {
		return rep, err
	}
	rep.single = true
	rep.items = []respItem{it}
	return rep, nil
}

type notification struct {
	sub string
	tag string
}

// asNotification recognises {"method":"<ns>_subscription","params":{"subscription":id,"result":tag}}.
func asNotification(raw json.RawMessage) (notification, bool) {
	trim := bytes.TrimLeft(raw, " \t\r\n")
	if len(trim) == 0 || trim[0] != '{' {
		return notification{}, false
	}
	var m struct {
		Method *string `json:"method"`
		Params struct {
			Subscription string          `json:"subscription"`
			Result       json.RawMessage `json:"result"`
		} `json:"params"`
	}
	if json.Unmarshal(raw, &m) != nil || m.Method == nil || !strings.HasSuffix(*m.Method, "_subscription") {
		return notification{}, false
	}
	return notification{m.Params.Subscription, string(m.Params.Result)}, true
}

// ---------------------------------------------------------------- connections

// pconn is one persistent client connection (WebSocket, unix socket, in-proc pipe).
type pconn struct {
	tr     string
	send   func(string) error
	close  func()
	in     chan json.RawMessage // closed by the reader at EOF / error
	live   []string             // model: ids of the subscriptions that must be live
	shaken map[string]bool      // ids known to be activated (delivered at least once)
	stale  []string             // ids that were cancelled (for generated requests)
}

func startReader(in chan json.RawMessage, next func() (json.RawMessage, error)) {
	go func() {
		defer close(in)
		for {
			m, err := next()
			if err != nil {
				return
			}
			in <- m
		}
	}()
}

func newStreamConn(tr string, c net.Conn) *pconn {
	p := &pconn{tr: tr, in: make(chan json.RawMessage, 1024), shaken: map[string]bool{}}
	dec := json.NewDecoder(c)
	p.send = func(s string) error {
		c.SetWriteDeadline(time.Now().Add(safety))
		_, err := io.WriteString(c, s+"\n")
		return err
	}
	p.close = func() { c.Close() }
	startReader(p.in, func() (json.RawMessage, error) {
		var m json.RawMessage
		err := dec.Decode(&m)
		return m, err
	})
	return p
}

func newWSConn(c *websocket.Conn) *pconn {
	p := &pconn{tr: "ws", in: make(chan json.RawMessage, 1024), shaken: map[string]bool{}}
	p.send = func(s string) error {
		c.SetWriteDeadline(time.Now().Add(safety))
		return websocket.Message.Send(c, s)
	}
	p.close = func() { c.Close() }
	startReader(p.in, func() (json.RawMessage, error) {
		var s string
		if err := websocket.Message.Receive(c, &s); err != nil {
			return nil, err
		}
		return json.RawMessage(s), nil
	})
	return p
}

// recv returns the next message; ok=false when the server closed the connection.
func (p *pconn) recv(f failer, what string) (json.RawMessage, bool) {
	f.Helper()
	tm := time.NewTimer(safety)
	defer tm.Stop()
	select {
	case m, ok := <-p.in:
		return m, ok
	case <-tm.C:
		f.Fatalf("harness safety timeout (%v) on %s while waiting for %s", safety, p.tr, what)
		return nil, false
	}
}

// ---------------------------------------------------------------- world

// world is one RPC server with API key `key`, a probe service, and listeners
// for every transport; all listeners are unix sockets in a private directory.
type world struct {
	name  string
	key   string
	srv   *rpc.Server
	probe *Probe
	dir   string

	httpSrv *http.Server
	wsSrv   *http.Server
	lis     []net.Listener
	httpc   *http.Client

	conns  map[string]*pconn
	tagSeq int
	strict bool // main world: any unexpected notification is a failure

	context func() string // describes the message being judged (for failure texts)
}

func (w *world) ctx() string {
	if w.context == nil {
		return ""
	}
	return "\nafter:" + w.context()
}

func tmpBase() string {
	if d := os.Getenv("VERIF_TMP"); d != "" {
		return d
	}
	return os.TempDir()
}

func newWorld(f failer, name, key string, strict bool) *world {
	f.Helper()
	w := &world{name: name, key: key, probe: &Probe{}, conns: map[string]*pconn{}, strict: strict, tagSeq: 1000000}
	w.srv = rpc.NewServer(key)
	if err := w.srv.RegisterName("probe", w.probe); err != nil {
		f.Fatalf("harness: register: %v", err)
	}
	dir, err := os.MkdirTemp(tmpBase(), "w")
	if err != nil {
		f.Fatalf("harness: tmp dir: %v", err)
	}
	w.dir = dir
	listen := func(n string) net.Listener {
		l, err := net.Listen("unix", filepath.Join(dir, n))
		if err != nil {
			w.close()
			f.Fatalf("harness: listen %s: %v", n, err)
		}
		w.lis = append(w.lis, l)
		return l
	}
	// HTTP: the handler stack the node builds in rpc.StartHTTPEndpoint (CORS + vhost + server),
	// with the node's default CORS / vhost settings.
	w.httpSrv = rpc.NewHTTPServer([]string{"*"}, []string{"localhost"}, rpc.DefaultHTTPTimeouts, w.srv)
	go w.httpSrv.Serve(listen("http.sock"))
	w.httpc = &http.Client{Timeout: safety, Transport: &http.Transport{
		DialContext: func(ctx context.Context, _, _ string) (net.Conn, error) {
			return (&net.Dialer{}).DialContext(ctx, "unix", filepath.Join(dir, "http.sock"))
		},
		MaxIdleConns: 2, DisableCompression: true,
	}}
	// WebSocket
	w.wsSrv = rpc.NewWSServer([]string{"*"}, w.srv)
	go w.wsSrv.Serve(listen("ws.sock"))
	// IPC
	go w.srv.ServeListener(listen("ipc.sock"))

	for _, tr := range pubsubTransports {
		w.connect(f, tr)
	}
	return w
}

func (w *world) close() {
	for _, c := range w.conns {
		c.close()
	}
	if w.httpc != nil {
		w.httpc.CloseIdleConnections()
	}
	if w.httpSrv != nil {
		w.httpSrv.Close()
	}
	if w.wsSrv != nil {
		w.wsSrv.Close()
	}
	for _, l := range w.lis {
		l.Close()
	}
	w.srv.Stop()
	os.RemoveAll(w.dir)
}

func (w *world) dial(f failer, tr string) *pconn {
	f.Helper()
	switch tr {
	case "ipc":
		c, err := net.Dial("unix", filepath.Join(w.dir, "ipc.sock"))
		if err != nil {
			f.Fatalf("harness: dial ipc: %v", err)
		}
		return newStreamConn("ipc", c)
	case "inproc":
		// what rpc.DialInProc does, with the raw client end kept by the harness
		p1, p2 := net.Pipe()
		go w.srv.ServeCodec(rpc.NewJSONCodec(p1), rpc.OptionMethodInvocation|rpc.OptionSubscriptions)
		return newStreamConn("inproc", p2)
	case "ws":
		c, err := net.Dial("unix", filepath.Join(w.dir, "ws.sock"))
		if err != nil {
			f.Fatalf("harness: dial ws: %v", err)
		}
		cfg, err := websocket.NewConfig("ws://127.0.0.1/", "http://localhost")
		if err != nil {
			f.Fatalf("harness: ws config: %v", err)
		}
		c.SetDeadline(time.Now().Add(safety))
		ws, err := websocket.NewClient(cfg, c)
		if err != nil {
			f.Fatalf("harness: ws handshake: %v", err)
		}
		c.SetDeadline(time.Time{})
		return newWSConn(ws)
	}
	f.Fatalf("harness: unknown transport %s", tr)
	return nil
}

// connect (re)opens the persistent connection of a transport and gives it
// nLive live subscriptions, created with the key.
func (w *world) connect(f failer, tr string) {
	f.Helper()
	if old := w.conns[tr]; old != nil {
		old.close()
	}
	w.conns[tr] = w.dial(f, tr)
	if closed := w.settle(f, tr); closed {
		f.Fatalf("%s: %s connection closed by the server during set-up", w.name, tr)
	}
}

type httpOpts struct {
	Method string
	Query  string
	Header [][2]string
}

// exchange sends one message and returns the answer plus the notifications
// that arrived before it.
func (w *world) exchange(f failer, tr, text string, ho httpOpts) (reply, []notification) {
	f.Helper()
	if tr == "http" {
		method := ho.Method
		if method == "" {
			method = http.MethodPost
		}
		req, err := http.NewRequest(method, "http://127.0.0.1/"+ho.Query, strings.NewReader(text))
		if err != nil {
			f.Fatalf("harness: http request: %v", err)
		}
		req.Header.Set("Content-Type", "application/json")
		for _, h := range ho.Header {
			req.Header.Set(h[0], h[1])
		}
		resp, err := w.httpc.Do(req)
		if err != nil {
			f.Fatalf("%s: http: %v", w.name, err)
		}
		body, err := io.ReadAll(resp.Body)
		resp.Body.Close()
		if err != nil {
			f.Fatalf("%s: http body: %v", w.name, err)
		}
		if resp.StatusCode < 200 || resp.StatusCode > 299 {
			it := respItem{raw: fmt.Sprintf("HTTP %d %s", resp.StatusCode, strings.TrimSpace(string(body))), isErr: true, code: -resp.StatusCode, msg: string(body)}
			return reply{single: true, items: []respItem{it}, status: resp.StatusCode, raw: it.raw}, nil
		}
		if len(bytes.TrimSpace(body)) == 0 {
			return reply{none: true, status: resp.StatusCode}, nil
		}
		rep, err := parseReply(body)
		if err != nil {
			f.Fatalf("%s: unparseable http answer %q: %v", w.name, body, err)
		}
		rep.status = resp.StatusCode
		return rep, nil
	}
	c := w.conns[tr]
	if err := c.send(text); err != nil {
		// the server had already closed the connection: cannot happen after a successful settle
		f.Fatalf("%s: %s: send failed: %v", w.name, tr, err)
	}
	var notes []notification
	for {
		m, ok := c.recv(f, "the answer to "+text)
		if !ok {
			return reply{none: true}, notes
		}
		if n, isN := asNotification(m); isN {
			notes = append(notes, n)
			continue
		}
		rep, err := parseReply(m)
		if err != nil {
			f.Fatalf("%s: unparseable answer %q: %v", w.name, m, err)
		}
		return rep, notes
	}
}

func jstr(s string) string {
	b, _ := json.Marshal(s)
	return string(b)
}

// call sends one well-formed keyed request on a persistent connection and
// returns its answer; closed=true when the server closed the connection.
func (w *world) call(f failer, tr, method, params string, onNote func(notification)) (item respItem, closed bool) {
	f.Helper()
	c := w.conns[tr]
	w.tagSeq++
	id := fmt.Sprintf(`"h%d"`, w.tagSeq)
	text := fmt.Sprintf(`{"jsonrpc":"2.0","id":%s,"method":%s,"params":%s,"key":%s}`, id, jstr(method), params, jstr(w.key))
	if err := c.send(text); err != nil {
		return respItem{}, true
	}
	for {
		m, ok := c.recv(f, "the answer to "+text)
		if !ok {
			return respItem{}, true
		}
		if n, isN := asNotification(m); isN {
			if onNote != nil {
				onNote(n)
			}
			continue
		}
		rep, err := parseReply(m)
		if err != nil || !rep.single {
			f.Fatalf("%s: %s: bad answer %q to %s", w.name, tr, m, text)
		}
		if rep.items[0].id != id {
			f.Fatalf("%s: %s: answer %q does not belong to %s", w.name, tr, m, text)
		}
		return rep.items[0], false
	}
}

// sync makes the server send one tagged notification on every subscription of
// the connection (through a keyed probe_emit call) and compares the set of
// subscriptions that deliver with the model. Returns closed=true when the
// server has closed the connection.
func (w *world) sync(f failer, tr string) (closed bool) {
	f.Helper()
	c := w.conns[tr]
	w.tagSeq++
	tag := fmt.Sprint(w.tagSeq)
	pending := map[string]bool{}
	for _, id := range c.live {
		pending[id] = true
	}
	onNote := func(n notification) {
		if n.tag == tag && pending[n.sub] {
			delete(pending, n.sub)
			return
		}
		if w.strict {
			f.Fatalf("%s: %s: unexpected notification sub=%s tag=%s (expected live set %v, tag %s): a subscription exists that no keyed request created%s",
				w.name, tr, n.sub, n.tag, c.live, tag, w.ctx())
		}
	}
	it, closed := w.call(f, tr, "probe_emit", "["+tag+"]", onNote)
	if closed {
		return true
	}
	if !it.hasResult {
		f.Fatalf("%s: %s: keyed probe_emit failed: %s%s", w.name, tr, it.raw, w.ctx())
	}
	// Activated subscriptions deliver before the answer to probe_emit.
	for id := range pending {
		if c.shaken[id] {
			f.Fatalf("%s: %s: live subscription %s no longer delivers notifications (live set %v)%s", w.name, tr, id, c.live, w.ctx())
		}
	}
	// Fresh subscriptions are activated just after the answer that announced
	// them; their buffered notification follows.
	for len(pending) > 0 {
		m, ok := c.recv(f, fmt.Sprintf("the first notification of new subscription(s) %v", pending))
		if !ok {
			return true
		}
		n, isN := asNotification(m)
		if !isN {
			f.Fatalf("%s: %s: stray message %q", w.name, tr, m)
		}
		onNote(n)
	}
	for _, id := range c.live {
		c.shaken[id] = true
	}
	return false
}

// unsubscribeKeyed cancels a live subscription with the key; it must succeed.
func (w *world) unsubscribeKeyed(f failer, tr, id string) (closed bool) {
	f.Helper()
	c := w.conns[tr]
	it, closed := w.call(f, tr, "probe_unsubscribe", "["+jstr(id)+"]", nil)
	if closed {
		return true
	}
	if !it.hasResult || it.result != "true" {
		f.Fatalf("%s: %s: live subscription %s cannot be unsubscribed with the key: %s%s", w.name, tr, id, it.raw, w.ctx())
	}
	c.dropLive(id)
	return false
}

func (c *pconn) dropLive(id string) {
	for i, l := range c.live {
		if l == id {
			c.live = append(c.live[:i:i], c.live[i+1:]...)
			c.stale = append(c.stale, id)
			if len(c.stale) > 4 {
				c.stale = c.stale[1:]
			}
			return
		}
	}
}

// settle verifies the model against the connection (sync) and brings the
// number of live subscriptions back to nLive.
func (w *world) settle(f failer, tr string) (closed bool) {
	f.Helper()
	c := w.conns[tr]
	if w.sync(f, tr) {
		return true
	}
	changed := false
	for len(c.live) > nLive {
		if w.unsubscribeKeyed(f, tr, c.live[len(c.live)-1]) {
			return true
		}
		changed = true
	}
	for len(c.live) < nLive {
		it, closed := w.call(f, tr, "probe_subscribe", `["feed","live"]`, nil)
		if closed {
			return true
		}
		var id string
		if !it.hasResult || json.Unmarshal([]byte(it.result), &id) != nil || id == "" {
			f.Fatalf("%s: %s: keyed subscribe failed: %s", w.name, tr, it.raw)
		}
		c.live = append(c.live, id)
		changed = true
	}
	if changed {
		return w.sync(f, tr)
	}
	return false
}

// resolve replaces the subscription-id placeholders of a message template.
//
//	@@L<j>@@        j-th live subscription of the transport's own connection
//	@@F:<tr>:<j>@@  j-th live subscription of another connection
//	@@S@@           an id that was cancelled earlier on the own connection
func (w *world) resolve(text, tr string) string {
	if !strings.Contains(text, "@@") {
		return text
	}
	own := w.conns[tr]
	for j := 0; j < nLive; j++ {
		ph := fmt.Sprintf("@@L%d@@", j)
		if strings.Contains(text, ph) {
			id := "0xdead"
			if own != nil && j < len(own.live) {
				id = own.live[j]
			}
			text = strings.ReplaceAll(text, ph, id)
		}
		for _, o := range pubsubTransports {
			ph := fmt.Sprintf("@@F:%s:%d@@", o, j)
			if strings.Contains(text, ph) {
				text = strings.ReplaceAll(text, ph, w.conns[o].live[j])
			}
		}
	}
	if strings.Contains(text, "@@S@@") {
		id := "0xbeef"
		if own != nil && len(own.stale) > 0 {
			id = own.stale[len(own.stale)-1]
		}
		text = strings.ReplaceAll(text, "@@S@@", id)
	}
	return text
}

package c19

import (
	"encoding/json"
	"fmt"
	"strconv"
	"strings"
	"unicode"
	"unicode/utf16"
	"unicode/utf8"

	"pgregory.net/rapid"
)

// wireReq has exactly the shape of rpc.jsonRequest (rpc/json.go:40). The
// harness decides "does this element carry exactly K" by decoding the element
// with encoding/json into this shape, so JSON's member-name folding, duplicate
// handling and null handling are the server's own.
type wireReq struct {
	Key     string          `json:"key"`
	Method  string          `json:"method"`
	Version string          `json:"jsonrpc"`
	Id      json.RawMessage `json:"id,omitempty"`
	Payload json.RawMessage `json:"params,omitempty"`
}

type member struct{ name, raw string }

// pick draws an index in [0,n). rapid's integers lean toward small values;
// a multiplicative hash of a 64-bit draw spreads them evenly over the
// choices while 0 (the value rapid shrinks to) still selects choice 0.
func pick(t *rapid.T, label string, n int) int {
	v := rapid.Uint64().Draw(t, label)
	return int(((v * 0x9E3779B97F4A7C15) >> 33) % uint64(n))
}

func pickS(t *rapid.T, label string, choices []string) string {
	return choices[pick(t, label, len(choices))]
}

func chance(t *rapid.T, label string, percent int) bool { return pick(t, label, 100) >= 100-percent }

// elemSpec is one generated request (single message or batch element).
type elemSpec struct {
	Kind   string `json:"kind"`
	KeyVar string `json:"key"`
	Text   string `json:"text"` // template (placeholders for subscription ids)
	Twin   string `json:"-"`    // same element carrying exactly "key": K

	// Facts known by construction (used only for the absolute expectations on
	// messages made of clean elements; everything else is relative to the twin).
	Clean      bool   `json:"clean"` // every member has the JSON type the server expects, id valid
	Canon      string `json:"canon"` // "", "call", "fail", "sub", "unsub": served for sure with the key
	WantResult string `json:"-"`     // canonical calls: expected result
	BadKeyType bool   `json:"-"`     // the key member has a JSON type that cannot decode into a string
	Target     int    `json:"-"`     // live index targeted by an unsubscribe (-1: none)

	// filled in by analyse()
	decoded bool
	w       wireReq
	keyed   bool
}

type message struct {
	Transport string     `json:"transport"`
	Batch     bool       `json:"batch"`
	Elems     []elemSpec `json:"elems"`
	Lead      string     `json:"-"`
	Cycle     bool       `json:"-"`                 // cancel with the key a subscription that an un-keyed unsubscribe aimed at
	Garbage   string     `json:"garbage,omitempty"` // whole message is this text (no elements)
	HTTP      httpOpts   `json:"http"`
}

// text assembles the message; resolve substitutes the subscription-id
// placeholders. It also returns the resolved text of every element.
func (m *message) text(twin bool, resolve func(string) string) (string, []string) {
	if m.Garbage != "" {
		return m.Lead + m.Garbage, nil
	}
	parts := make([]string, len(m.Elems))
	for i, e := range m.Elems {
		if twin {
			parts[i] = resolve(e.Twin)
		} else {
			parts[i] = resolve(e.Text)
		}
	}
	if !m.Batch {
		return m.Lead + parts[0], parts
	}
	return m.Lead + "[" + strings.Join(parts, ",") + "]", parts
}

// ---------------------------------------------------------------- keys

var fixedKeys = []string{
	"tempKey",
	"Ключ-密钥-clé-🔑",
	strings.Repeat("Ab3-", 80),
	`a"b\c'd`,
	" lead and trail ",
	"k",
	"12345",
	"null",
	"<k&y>",
	"Skeleton-Key",
}

func genKey(t *rapid.T) string {
	switch c := pick(t, "keyShape", 15); {
	case c <= 3: // the node's default: 16 random bytes in hex
		return rapid.StringMatching(`[0-9a-f]{32}`).Draw(t, "hexKey")
	case c == 4:
		s := rapid.String().Filter(func(s string) bool {
			return s != "" && utf8.ValidString(s) && !strings.Contains(s, "@@") && !strings.ContainsRune(s, utf8.RuneError)
		}).Draw(t, "anyKey")
		return s
	default:
		return fixedKeys[c-5] // 5..14 -> 0..9
	}
}

func swapCase(s string) string {
	rs := []rune(s)
	for i, r := range rs {
		switch {
		case unicode.IsUpper(r):
			rs[i] = unicode.ToLower(r)
		case unicode.IsLower(r):
			rs[i] = unicode.ToUpper(r)
		}
	}
	return string(rs)
}

// jstrEsc writes s with every character as a \uXXXX escape.
func jstrEsc(s string) string {
	var sb strings.Builder
	sb.WriteByte('"')
	for _, u := range utf16.Encode([]rune(s)) {
		fmt.Fprintf(&sb, `\u%04x`, u)
	}
	sb.WriteByte('"')
	return sb.String()
}

type keyVariant struct {
	label   string
	members func(t *rapid.T, k string) []member
	badType bool // key member of a JSON type that does not decode into a Go string
}

func one(name, raw string) []member { return []member{{name, raw}} }

func otherString(t *rapid.T, k string) string {
	s := pickS(t, "otherKey", []string{"secret", "admin", "0", "key", "*", "%", "' OR 1=1 --", "undefined", "\u0000"})
	if s == k {
		s += "_"
	}
	return s
}

// Variants that carry the key (after encoding/json's own decoding rules).
var keyedVariants = []keyVariant{
	{label: "exact", members: func(t *rapid.T, k string) []member { return one("key", jstr(k)) }},
	{label: "exact", members: func(t *rapid.T, k string) []member { return one("key", jstr(k)) }},
	{label: "exact", members: func(t *rapid.T, k string) []member { return one("key", jstr(k)) }},
	{label: "exact-escaped", members: func(t *rapid.T, k string) []member { return one("key", jstrEsc(k)) }},
	{label: "dup-last-good", members: func(t *rapid.T, k string) []member {
		return []member{{"key", jstr(otherString(t, k))}, {"key", jstr(k)}}
	}},
	{label: "dup-null-after", members: func(t *rapid.T, k string) []member {
		return []member{{"key", jstr(k)}, {"key", "null"}}
	}},
	{label: "name-Key", members: func(t *rapid.T, k string) []member { return one("Key", jstr(k)) }},
	{label: "name-KEY", members: func(t *rapid.T, k string) []member { return one("KEY", jstr(k)) }},
	{label: "name-kelvin", members: func(t *rapid.T, k string) []member { return one("\u212aey", jstr(k)) }}, // KELVIN SIGN folds to k
	{label: "names-last-good", members: func(t *rapid.T, k string) []member {
		return []member{{"key", jstr(otherString(t, k))}, {"KEY", jstr(k)}}
	}},
}

// Variants that do not carry the key.
var unkeyedVariants = []keyVariant{
	{label: "absent", members: func(t *rapid.T, k string) []member { return nil }},
	{label: "absent", members: func(t *rapid.T, k string) []member { return nil }},
	{label: "empty", members: func(t *rapid.T, k string) []member { return one("key", `""`) }},
	{label: "suffix", members: func(t *rapid.T, k string) []member {
		return one("key", jstr(k+pickS(t, "suffix", []string{"x", " ", "\u0000", "\n", k})))
	}},
	{label: "prefix", members: func(t *rapid.T, k string) []member {
		rs := []rune(k)
		n := []int{len(rs) - 1, len(rs) / 2, 1, (len(rs)*3 + 3) / 4}[pick(t, "prefixLen", 4)]
		if n >= len(rs) {
			n = len(rs) - 1
		}
		if n < 0 {
			n = 0
		}
		return one("key", jstr(string(rs[:n])))
	}},
	{label: "inner", members: func(t *rapid.T, k string) []member { // K is a proper suffix / substring
		return one("key", jstr(pickS(t, "lead", []string{"x", " ", "0"})+k))
	}},
	{label: "case", members: func(t *rapid.T, k string) []member {
		c := swapCase(k)
		if pick(t, "upperOnly", 2) == 1 {
			c = strings.ToUpper(k)
			if c == k {
				c = strings.ToLower(k)
			}
		}
		if c == k { // a key without cased letters has no case variant
			c = otherString(t, k)
		}
		return one("key", jstr(c))
	}},
	{label: "other", members: func(t *rapid.T, k string) []member { return one("key", jstr(otherString(t, k))) }},
	{label: "null", members: func(t *rapid.T, k string) []member { return one("key", "null") }},
	{label: "number", badType: true, members: func(t *rapid.T, k string) []member {
		if _, err := strconv.ParseUint(k, 10, 63); err == nil && k[0] != '0' {
			return one("key", k) // the key's digits as a JSON number
		}
		return one("key", pickS(t, "numKey", []string{"0", "1", "12345", "-1", "1.5", "1e3"}))
	}},
	{label: "bool", badType: true, members: func(t *rapid.T, k string) []member {
		return one("key", pickS(t, "boolKey", []string{"true", "false"}))
	}},
	{label: "array", badType: true, members: func(t *rapid.T, k string) []member {
		return one("key", pickS(t, "arrKey", []string{"[" + jstr(k) + "]", "[]"}))
	}},
	{label: "object", badType: true, members: func(t *rapid.T, k string) []member {
		return one("key", pickS(t, "objKey", []string{`{"key":` + jstr(k) + `}`, "{}"}))
	}},
	{label: "dup-first-good", members: func(t *rapid.T, k string) []member {
		return []member{{"key", jstr(k)}, {"key", jstr(otherString(t, k))}}
	}},
	{label: "names-first-good", members: func(t *rapid.T, k string) []member {
		return []member{{"KEY", jstr(k)}, {"key", jstr(otherString(t, k))}}
	}},
	{label: "name-other", members: func(t *rapid.T, k string) []member {
		return one(pickS(t, "keyName", []string{"apiKey", "api_key", "key ", "keys", "k", "apikey", "token"}), jstr(k))
	}},
	{label: "nested", members: func(t *rapid.T, k string) []member { // the key only inside another member
		return one(pickS(t, "nestName", []string{"auth", "meta", "params2"}), `{"key":`+jstr(k)+`}`)
	}},
}

// ---------------------------------------------------------------- ids, versions

type idShape struct {
	raw   string // "" = absent
	valid bool
}

// genID draws the id member. Malformed ids (the server then refuses the whole
// message) appear only in noisy messages, in ~12% of their elements.
func genID(t *rapid.T, seq int, noisy bool) idShape {
	if noisy && chance(t, "badId", 12) {
		return []idShape{{"", false} /* notification form */, {"true", false}, {`{"n":1}`, false}, {"[1]", false}}[pick(t, "badIdShape", 4)]
	}
	switch c := pick(t, "idShape", 24); {
	case c <= 11:
		return idShape{strconv.Itoa(seq + 1), true}
	case c == 12:
		return idShape{"7", true} // likely duplicate inside a batch
	case c == 13:
		return idShape{"12345678901234567890123", true}
	case c == 14:
		return idShape{"-3", true}
	case c == 15:
		return idShape{"1.5", true}
	case c == 16:
		return idShape{"1e3", true}
	case c == 17:
		return idShape{jstr(fmt.Sprintf("s%d", seq)), true}
	case c == 18:
		return idShape{`""`, true}
	case c == 19:
		return idShape{jstr("id-ü-\"q\"-<&>"), true}
	case c == 20, c == 21:
		return idShape{"null", true}
	case c == 22:
		return idShape{jstrEsc(fmt.Sprintf("e%d", seq)), true}
	default:
		return idShape{fmt.Sprintf(" %d ", seq+100), true}
	}
}

type verShape struct {
	m     []member
	clean bool
}

func genVersion(t *rapid.T, noisy bool) verShape {
	if noisy && chance(t, "badVersion", 5) {
		return verShape{one("jsonrpc", `2.0`), false} // number: cannot decode into the string field
	}
	switch c := pick(t, "version", 16); {
	case c <= 11:
		return verShape{one("jsonrpc", `"2.0"`), true}
	case c == 12:
		return verShape{nil, true}
	case c == 13:
		return verShape{one("jsonrpc", `"1.0"`), true}
	case c == 14:
		return verShape{one("jsonrpc", `null`), true}
	default:
		return verShape{one("version", `"2.0"`), true}
	}
}

// ---------------------------------------------------------------- kinds

var kindTable = []struct {
	kind string
	w    int
}{
	{"call0", 5}, {"call1", 4}, {"call2", 4}, {"callopt", 2}, {"callctx", 2}, {"void", 2}, {"fail", 2},
	{"emit", 3}, {"modules", 2}, {"badparams", 3},
	{"sub", 7}, {"subodd", 3},
	{"unsub-live", 8}, {"unsub-other", 3},
	{"unknown-method", 3}, {"unknown-ns", 3}, {"no-underscore", 3}, {"two-underscore", 1},
	{"dup-method", 2}, {"odd-member", 2}, {"garbage-elem", 1},
}

// kinds that make the server refuse the whole message whatever the keys are
var noisyKinds = map[string]bool{"odd-member": true, "garbage-elem": true}

func makeKindPool(noisy bool) []string {
	var p []string
	for _, k := range kindTable {
		if noisyKinds[k.kind] && !noisy {
			continue
		}
		for i := 0; i < k.w; i++ {
			p = append(p, k.kind)
		}
	}
	return p
}

var kindPoolQuiet, kindPoolNoisy = makeKindPool(false), makeKindPool(true)

func variantPool(all []keyVariant, noisy bool) []keyVariant {
	var p []keyVariant
	for _, v := range all {
		if v.badType && !noisy {
			continue
		}
		p = append(p, v)
	}
	return p
}

var unkeyedQuiet, unkeyedNoisy = variantPool(unkeyedVariants, false), variantPool(unkeyedVariants, true)

func smallString(t *rapid.T, label string) string {
	return pickS(t, label, []string{"a", "", "héllo", `q"uo\te`, "@", "x y", "0"})
}

type body struct {
	method     []member // usually one member "method"
	params     string   // raw; "" = absent
	canon      string
	wantResult string
	clean      bool
	target     int
}

// genBody draws the method / params part of an element of the given kind.
// transport matters for pub-sub kinds; freeLive lists the live indices that no
// other element of the message targets yet.
func genBody(t *rapid.T, kind, tr string, noisy bool, freeLive *[]int) body {
	b := body{clean: true, target: -1}
	meth := func(s string) { b.method = one("method", jstr(s)) }
	pubsub := tr != "http"
	switch kind {
	case "call0":
		meth("probe_ping")
		b.params = pickS(t, "p0", []string{"", "[]", "null"})
		b.canon, b.wantResult = "call", `"pong"`
	case "call1":
		s := smallString(t, "a1")
		meth("probe_one")
		b.params = "[" + jstr(s) + "]"
		b.canon, b.wantResult = "call", jstr("one:"+s)
	case "call2":
		s, n := smallString(t, "a1"), rapid.IntRange(-5, 5).Draw(t, "a2")
		meth("probe_two")
		b.params = fmt.Sprintf("[%s,%d]", jstr(s), n)
		b.canon, b.wantResult = "call", jstr(fmt.Sprintf("two:%s:%d", s, n))
	case "callopt":
		meth("probe_opt")
		b.params = pickS(t, "popt", []string{"[]", `["v"]`, "[null]", ""})
	case "callctx":
		n := rapid.IntRange(0, 9).Draw(t, "a1")
		meth("probe_ctx")
		b.params = fmt.Sprintf("[%d]", n)
		b.canon, b.wantResult = "call", strconv.Itoa(n)
	case "void":
		meth("probe_void")
		b.canon, b.wantResult = "call", "null"
	case "fail":
		meth("probe_fail")
		b.canon = "fail"
	case "emit": // would deliver notifications; only ever generated without the key
		meth("probe_emit")
		b.params = fmt.Sprintf("[%d]", rapid.IntRange(1, 9).Draw(t, "tag"))
	case "modules":
		meth("rpc_modules")
	case "badparams":
		meth(pickS(t, "bpMethod", []string{"probe_one", "probe_two", "probe_ctx"}))
		b.params = pickS(t, "bpParams", []string{"", "[]", `["a","b","c"]`, `[1]`, `{"a":1}`, `"str"`, "null", "5", `[null]`, `["a",1.5]`})
	case "sub":
		meth("probe_subscribe")
		if pick(t, "plain", 2) == 1 {
			b.params = `["plain"]`
		} else {
			b.params = `["feed",` + jstr(smallString(t, "label")) + `]`
		}
		if pubsub {
			b.canon = "sub"
		} else {
			b.canon = "fail" // the subscription method runs and reports that the transport has no notifier
		}
	case "subodd":
		meth(pickS(t, "soMethod", []string{"probe_subscribe", "probe_subscribe", "rpc_subscribe", "zzz_subscribe", "_subscribe", "probe__subscribe", "PROBE_subscribe"}))
		soParams := []string{`["nosuch"]`, `["feed"]`, `["feed",5]`, `["plain","extra"]`, `["Feed","x"]`, `["feed","a","b"]`, `[]`}
		if noisy { // first parameter not a string: the server refuses the whole message ("null" is kept out of the clean set to stay conservative)
			soParams = append(soParams, "", `[5]`, `{}`, "null", `"feed"`)
		}
		b.params = pickS(t, "soParams", soParams)
		switch b.params {
		case "", `[5]`, `{}`, "null", `"feed"`:
			b.clean = false
		}
	case "unsub-live":
		ns := pickS(t, "unsNs", []string{"probe", "probe", "probe", "rpc", "zzz", ""})
		meth(ns + "_unsubscribe")
		if pubsub && len(*freeLive) > 0 {
			i := pick(t, "liveIdx", len(*freeLive))
			b.target = (*freeLive)[i]
			*freeLive = append((*freeLive)[:i:i], (*freeLive)[i+1:]...)
			b.params = fmt.Sprintf(`["@@L%d@@"]`, b.target)
			b.canon = "unsub"
		} else {
			// over HTTP (or when every live id is already targeted): a live id of another connection
			var others []string
			for _, o := range pubsubTransports {
				if o != tr {
					others = append(others, o)
				}
			}
			b.params = fmt.Sprintf(`["@@F:%s:%d@@"]`, pickS(t, "foreign", others), pick(t, "foreignIdx", nLive))
		}
	case "unsub-other":
		meth(pickS(t, "uoMethod", []string{"probe_unsubscribe", "x_unsubscribe", "_unsubscribe"}))
		b.params = pickS(t, "uoParams", []string{`["@@S@@"]`, `["0x1234"]`, `[""]`, `[5]`, `[]`, "", `[null]`, `{"id":"@@S@@"}`, `["@@S@@","x"]`})
	case "unknown-method":
		meth(pickS(t, "umMethod", []string{"probe_nosuch", "probe_Ping", "probe_PING", "probe_", "probe_feed", "probe_enter", "rpc_nosuch", "probe_ping "}))
		b.params = pickS(t, "umParams", []string{"", "[]", `["a"]`})
	case "unknown-ns":
		meth(pickS(t, "unMethod", []string{"zzz_ping", "PROBE_ping", "Probe_ping", "_ping", " probe_ping", "dna_identity", "probe\u0000_ping"}))
	case "no-underscore":
		meth(pickS(t, "nuMethod", []string{"probeping", "", "ping", "probe.ping", "probe-ping", "subscribe", "unsubscribe"}))
		if pick(t, "nullMethod", 4) == 3 {
			b.method = one("method", "null")
		}
	case "two-underscore":
		meth(pickS(t, "tuMethod", []string{"probe_ping_x", "probe__ping", "_probe_ping", "probe_ping_"}))
	case "dup-method": // two method members; encoding/json keeps the last
		good, bad := "probe_ping", pickS(t, "dmBad", []string{"probe_nosuch", "zzz_ping", "nounderscore"})
		name2 := pickS(t, "dmName", []string{"method", "METHOD", "Method"})
		if pick(t, "goodLast", 2) == 1 {
			b.method = []member{{"method", jstr(bad)}, {name2, jstr(good)}}
		} else {
			b.method = []member{{"method", jstr(good)}, {name2, jstr(bad)}}
		}
	case "odd-member": // a member of the wrong JSON type: the typed decode of the message fails
		b.clean = false
		switch pick(t, "omWhich", 4) {
		case 0:
			b.method = one("method", "5")
		case 1:
			b.method = one("method", `["probe_ping"]`)
		case 2:
			b.method = one("method", `{"name":"probe_ping"}`)
		default:
			b.method = one("method", "true")
		}
	default:
		panic("kind " + kind)
	}
	return b
}

// (no arrays here: as a single message an array is a batch; see garbageMessages)
var garbageElems = []string{"null", "5", `"probe_ping"`, "{}", "true", "1.5e3"}

var garbageMessages = []string{"nope", "}", "]", `"probe_ping"`, "42", "null", "true", "{}", "[[]]", "[null]", "[5]", `["x"]`, "[]", `{"key":}`, "[,]", `[[{"jsonrpc":"2.0","id":1,"method":"probe_ping"}]]`}

func render(ms []member, spaced bool) string {
	var sb strings.Builder
	sb.WriteByte('{')
	for i, m := range ms {
		if i > 0 {
			sb.WriteByte(',')
		}
		if spaced {
			sb.WriteString("\n  ")
		}
		sb.WriteString(jstr(m.name))
		sb.WriteByte(':')
		if spaced {
			sb.WriteByte(' ')
		}
		sb.WriteString(m.raw)
	}
	if spaced {
		sb.WriteByte('\n')
	}
	sb.WriteByte('}')
	return sb.String()
}

// genElem draws one element. wantKeyed selects between the keyed and the
// un-keyed variant families (the final decision "carries K" is always made by
// analyse() with encoding/json). Members of a wrong JSON type (including
// non-string keys) are drawn only when noisy.
func genElem(t *rapid.T, k, tr string, seq int, wantKeyed, noisy bool, freeLive *[]int) elemSpec {
	pool := kindPoolQuiet
	if noisy {
		pool = kindPoolNoisy
	}
	kind := pickS(t, "kind", pool)
	var kv keyVariant
	if wantKeyed {
		kv = keyedVariants[pick(t, "keyedVariant", len(keyedVariants))]
		if kind == "emit" {
			kind = "call0"
		}
	} else if noisy {
		kv = unkeyedNoisy[pick(t, "unkeyedVariant", len(unkeyedNoisy))]
	} else {
		kv = unkeyedQuiet[pick(t, "unkeyedVariant", len(unkeyedQuiet))]
	}
	return buildElem(t, k, tr, kind, kv, seq, noisy, freeLive)
}

// buildElem renders an element of the given kind with the given key variant.
func buildElem(t *rapid.T, k, tr, kind string, kv keyVariant, seq int, noisy bool, freeLive *[]int) elemSpec {
	e := elemSpec{Kind: kind, KeyVar: kv.label, BadKeyType: kv.badType, Target: -1}
	keyMembers := kv.members(t, k)
	exact := one("key", jstr(k))

	if kind == "garbage-elem" {
		e.Text = pickS(t, "garbageElem", garbageElems)
		e.Twin = e.Text
		e.KeyVar = "none(garbage)"
		e.BadKeyType = false
		return e
	}

	b := genBody(t, kind, tr, noisy, freeLive)
	id := genID(t, seq, noisy)
	ver := genVersion(t, noisy)

	var rest []member
	rest = append(rest, ver.m...)
	if id.raw != "" {
		rest = append(rest, member{"id", id.raw})
	}
	rest = append(rest, b.method...)
	if b.params != "" {
		rest = append(rest, member{"params", b.params})
	}
	switch pick(t, "order", 6) {
	case 5: // method first, as the node's own clients write it
		for i := range rest {
			if rest[i].name == "method" {
				rest[0], rest[i] = rest[i], rest[0]
			}
		}
	case 0: // reversed
		for i, j := 0, len(rest)-1; i < j; i, j = i+1, j-1 {
			rest[i], rest[j] = rest[j], rest[i]
		}
	case 1: // rotate
		if len(rest) > 1 {
			rest = append(rest[1:], rest[0])
		}
	}
	if chance(t, "junk", 12) {
		rest = append(rest, member{pickS(t, "junkName", []string{"foo", "extra", "Params ", "ke", "ID2"}), `{"key":1,"x":[1,2]}`})
	}
	pos := pick(t, "keyPos", len(rest)+1)
	build := func(km []member) []member {
		out := make([]member, 0, len(rest)+len(km))
		out = append(out, rest[:pos]...)
		out = append(out, km...)
		out = append(out, rest[pos:]...)
		return out
	}
	spaced := chance(t, "spaced", 10)
	e.Text = render(build(keyMembers), spaced)
	e.Twin = render(build(exact), spaced)
	e.Clean = b.clean && id.valid && ver.clean && !kv.badType
	if e.Clean {
		e.Canon, e.WantResult = b.canon, b.wantResult
	}
	e.Target = b.target
	return e
}

// analyse decodes the element the way the server does and decides whether it
// carries exactly the key.
func (e *elemSpec) analyse(k string) {
	e.w = wireReq{}
	err := json.Unmarshal([]byte(e.Text), &e.w)
	e.decoded = err == nil
	e.keyed = e.decoded && e.w.Key == k
}

func genMessage(t *rapid.T, k string) *message {
	m := &message{}
	m.Transport = pickS(t, "transport", []string{"http", "http", "http", "ws", "ws", "ipc", "ipc", "inproc"})
	if m.Transport == "http" {
		switch c := pick(t, "httpVariant", 20); {
		case c == 1:
			m.HTTP.Method = "GET"
		case c == 2:
			m.HTTP.Method = "OPTIONS"
		case c == 3:
			m.HTTP.Query = "?key=" + queryEscape(k)
		case c == 4:
			m.HTTP.Query = "?apikey=" + queryEscape(k)
		case c == 5:
			m.HTTP.Header = [][2]string{{"Authorization", "Bearer " + headerSafe(k)}}
		case c == 6:
			m.HTTP.Header = [][2]string{{"X-Api-Key", headerSafe(k)}, {"Key", headerSafe(k)}}
		case c == 7:
			m.HTTP.Header = [][2]string{{"Content-Type", "application/json; charset=utf-8"}, {"Origin", "http://evil.example"}}
		}
	}
	m.Lead = pickS(t, "lead", []string{"", "", "", " ", "\n\t ", "\r\n"})
	m.Cycle = pick(t, "cycle", 2) == 1
	// 0: single  1: batch  2: noisy single  3: noisy batch  4: garbage message
	shape := []int{0, 0, 0, 0, 0, 0, 1, 1, 1, 1, 1, 1, 1, 1, 1, 2, 2, 3, 3, 3, 3, 4}[pick(t, "shape", 22)]
	if shape == 4 {
		m.Garbage = pickS(t, "garbageMessage", garbageMessages)
		return m
	}
	noisy := shape >= 2
	n := 1
	if shape == 1 || shape == 3 {
		m.Batch = true
		n = 1 + pick(t, "batchLen", 8)
	}
	free := make([]int, nLive)
	for i := range free {
		free[i] = i
	}
	// In batches, lean toward a mix of keyed and un-keyed elements.
	pKeyed := []int{0, 25, 40, 40, 60}[pick(t, "keyedPercent", 5)]
	for i := 0; i < n; i++ {
		wantKeyed := pick(t, "keyedDie", 100) < pKeyed
		e := genElem(t, k, m.Transport, i, wantKeyed, noisy, &free)
		e.analyse(k)
		if e.keyed && strings.Contains(e.w.Method, "probe_emit") {
			// cannot happen by construction; the main world must stay free of keyed emits
			t.Fatalf("harness: generated a keyed emit element: %s", e.Text)
		}
		m.Elems = append(m.Elems, e)
	}
	return m
}

func queryEscape(s string) string {
	var sb strings.Builder
	for _, b := range []byte(s) {
		if b >= 'a' && b <= 'z' || b >= 'A' && b <= 'Z' || b >= '0' && b <= '9' || b == '-' {
			sb.WriteByte(b)
		} else {
			fmt.Fprintf(&sb, "%%%02X", b)
		}
	}
	return sb.String()
}

func headerSafe(s string) string {
	var sb strings.Builder
	for _, r := range s {
		if r >= 0x20 && r < 0x7f {
			sb.WriteRune(r)
		} else {
			sb.WriteByte('_')
		}
	}
	return sb.String()
}

package c19

import (
	"fmt"
	"net/http"
	"os"
	"path/filepath"
	"strings"
	"testing"

	"github.com/idena-network/idena-go/config"
	"github.com/idena-network/idena-go/rpc"
	"pgregory.net/rapid"

	"verifharness/internal/evid"
)

// TestC19ConfiguredKey: the key the NODE ends up running with. node.StartMobileNode / NewNode call
// config.SetApiKey and hand config.RPC.APIKey to rpc.StartHTTPEndpoint; the statement is about "the node runs with
// an API key", so for every state of the data directory (no key file, empty, blank, key with surrounding white
// space, ordinary key, a left-over directory of that name) and every --apikey flag value the endpoint started the way
// the node starts it must refuse requests that carry no key, an empty key or a blank key, and serve the request that
// carries config.RPC.APIKey. Nothing is asserted about WHICH key is chosen.
func TestC19ConfiguredKey(t *testing.T) {
	blanks := []string{" ", "\n", "\r\n", "\t", "   \n\n", "\n \t \r\n", " ", " \n", "\v\f"}
	rapid.Check(t, func(t *rapid.T) {
		evid.Eval()
		dir, err := os.MkdirTemp("", "c19cfg")
		if err != nil {
			t.Fatalf("harness: %v", err)
		}
		defer os.RemoveAll(dir)
		file := filepath.Join(dir, "api.key")
		state := pickS(t, "keyFile", []string{"absent", "empty", "blank", "blank", "padded-key", "key", "key-newline", "directory"})
		stored := rapid.StringMatching(`[0-9a-zA-Z]{1,40}`).Draw(t, "storedKey")
		switch state {
		case "empty":
			err = os.WriteFile(file, nil, 0666)
		case "blank":
			n := pick(t, "blankParts", 3) + 1
			var sb strings.Builder
			for i := 0; i < n; i++ {
				sb.WriteString(pickS(t, "blank", blanks))
			}
			err = os.WriteFile(file, []byte(sb.String()), 0666)
		case "padded-key":
			err = os.WriteFile(file, []byte(pickS(t, "blank", blanks)+stored+pickS(t, "blank", blanks)), 0666)
		case "key":
			err = os.WriteFile(file, []byte(stored), 0666)
		case "key-newline":
			err = os.WriteFile(file, []byte(stored+"\n"), 0666)
		case "directory":
			err = os.Mkdir(file, 0777)
		}
		if err != nil {
			t.Fatalf("harness: %v", err)
		}
		flag := ""
		if chance(t, "apikeyFlag", 25) {
			flag = rapid.StringMatching(`[0-9a-zA-Z]{1,40}`).Draw(t, "flagKey")
		}
		restarts := pick(t, "restarts", 3) + 1 // the node is started 1-3 times on the same data directory
		for run := 0; run < restarts; run++ {
			rcfg := rpc.GetDefaultRPCConfig("127.0.0.1", 0)
			if run == 0 || chance(t, "flagAgain", 50) {
				rcfg.APIKey = flag
			}
			given := rcfg.APIKey
			cfg := &config.Config{DataDir: dir, RPC: rcfg}
			if err := cfg.SetApiKey(); err != nil {
				// the node refuses to start (node.go returns the error): no endpoint, nothing to gate
				evid.Count("cfg.refused-to-start." + state)
				return
			}
			k := cfg.RPC.APIKey
			probe := &Probe{}
			apis := []rpc.API{{Namespace: "probe", Version: "1.0", Service: probe, Public: true}}
			l, srv, hs, err := rpc.StartHTTPEndpoint(rcfg.HTTPEndpoint(), apis, []string{"probe"}, rcfg.HTTPCors, rcfg.HTTPVirtualHosts, rcfg.HTTPTimeouts, k)
			if err != nil {
				t.Fatalf("harness: %v", err)
			}
			post := func(body string) reply {
				resp, err := http.Post("http://"+l.Addr().String()+"/", "application/json", strings.NewReader(body))
				if err != nil {
					t.Fatalf("harness: %v", err)
				}
				defer resp.Body.Close()
				var sb strings.Builder
				buf := make([]byte, 4096)
				for {
					n, err := resp.Body.Read(buf)
					sb.Write(buf[:n])
					if err != nil {
						break
					}
				}
				rep, err := parseReply([]byte(sb.String()))
				if err != nil {
					t.Fatalf("unparseable answer %q", sb.String())
				}
				return rep
			}
			desc := fmt.Sprintf("data directory with key file %q (start %d of %d, --apikey %q): node runs with key %q", state, run+1, restarts, given, k)
			keyless := []string{
				`{"jsonrpc":"2.0","id":1,"method":"probe_ping"}`,
				`{"jsonrpc":"2.0","id":1,"method":"probe_ping","key":""}`,
				`{"jsonrpc":"2.0","id":1,"method":"probe_ping","key":" "}`,
				`{"jsonrpc":"2.0","id":1,"method":"probe_ping","key":"\n"}`,
				`{"jsonrpc":"2.0","id":1,"method":"probe_ping","key":null}`,
				`[{"jsonrpc":"2.0","id":1,"method":"probe_ping"},{"jsonrpc":"2.0","id":2,"method":"probe_void","key":""}]`,
			}
			for _, body := range keyless {
				rep := post(body)
				for _, it := range rep.items {
					if !it.isErr {
						hs.Close()
						l.Close()
						srv.Stop()
						t.Fatalf("%s; request without it was served: %s -> %s", desc, body, rep.raw)
					}
				}
			}
			if _, n := probe.mark(); n != 0 {
				hs.Close()
				l.Close()
				srv.Stop()
				t.Fatalf("%s; %d probe method(s) ran for requests that do not carry it", desc, n)
			}
			rep := post(`{"jsonrpc":"2.0","id":1,"method":"probe_ping","key":` + jstr(k) + `}`)
			hs.Close()
			l.Close()
			srv.Stop()
			if len(rep.items) != 1 || rep.items[0].result != `"pong"` {
				t.Fatalf("%s; the request that carries it was not served: %s", desc, rep.raw)
			}
			evid.Count("cfg.start." + state + map[bool]string{true: ".flag", false: ".no-flag"}[given != ""])
			if run > 0 {
				evid.Count("cfg.restart")
			}
			if state == "blank" || state == "empty" || state == "padded-key" {
				evid.NonTrivial(fmt.Sprintf("cfg|%s|%d|%v", state, run, given != ""))
			}
		}
		evid.Sample("cfg."+state, map[string]interface{}{"key_file": state, "flag": flag != "", "starts": restarts})
	})
}

package c19

import (
	"fmt"
	"net/http"
	"strings"
	"testing"

	"github.com/idena-network/idena-go/rpc"
	"pgregory.net/rapid"

	"verifharness/internal/evid"
)

func distinctVariants(vs []keyVariant) []keyVariant {
	seen := map[string]bool{}
	var out []keyVariant
	for _, v := range vs {
		if !seen[v.label] {
			seen[v.label] = true
			out = append(out, v)
		}
	}
	return out
}

// TestC19Product: for a drawn key, the full product transport x canonical kind
// x every key variant, once as a single request and once in a batch with two keyed
// calls (element first / middle / last in turn). Same oracle as TestC19Gate; the random parts
// (ids, member order, variant details) are drawn.
func TestC19Product(t *testing.T) {
	kinds := []string{"call0", "call1", "callctx", "void", "fail", "modules", "sub", "unsub-live", "emit", "unknown-method", "no-underscore"}
	variants := append(distinctVariants(keyedVariants), distinctVariants(unkeyedVariants)...)
	exact := keyedVariants[0]
	rapid.Check(t, func(t *rapid.T) {
		key := genKey(t)
		evid.Count("configured-key." + keyClass(key))
		p := newPair(t, key)
		defer p.close()
		for _, tr := range []string{"http", "ws", "ipc", "inproc"} {
			for _, kind := range kinds {
				for vi, kv := range variants {
					keyedFamily := vi < len(distinctVariants(keyedVariants))
					if kind == "emit" && keyedFamily {
						continue
					}
					for _, batch := range []bool{false, true} {
						m := &message{Transport: tr, Batch: batch, Cycle: vi%2 == 0}
						free := []int{0, 1}
						x := buildElem(t, key, tr, kind, kv, 1, false, &free)
						if batch { // two keyed calls around / before / after the element, in turn
							a := buildElem(t, key, tr, "call0", exact, 0, false, &free)
							b := buildElem(t, key, tr, "call1", exact, 2, false, &free)
							switch vi % 3 {
							case 0:
								m.Elems = []elemSpec{a, x, b}
							case 1:
								m.Elems = []elemSpec{a, b, x}
							default:
								m.Elems = []elemSpec{x, a, b}
							}
						} else {
							m.Elems = []elemSpec{x}
						}
						for i := range m.Elems {
							m.Elems[i].analyse(key)
						}
						evid.Count("product." + tr + "." + kind)
						p.step(t, m)
					}
				}
			}
		}
		p.finish(t)
	})
}

// hand-written elements for the plain regression tests
func handElem(kind, keyVar, rest, keyMember, k string, canon, want string, badType bool) elemSpec {
	e := elemSpec{Kind: kind, KeyVar: keyVar, Target: -1, BadKeyType: badType}
	e.Text = "{" + rest
	if keyMember != "" {
		e.Text += "," + keyMember
	}
	e.Text += "}"
	e.Twin = "{" + rest + `,"key":` + jstr(k) + "}"
	e.Clean = !badType
	if e.Clean {
		e.Canon, e.WantResult = canon, want
	}
	if strings.Contains(rest, "@@L0@@") {
		e.Target = 0
	}
	e.analyse(k)
	return e
}

// TestC19Pinned: fixed requests over every transport, among them the shrunk
// forms of what TestC19Gate found on the unchanged tree.
func TestC19Pinned(t *testing.T) {
	const k = "tempKey"
	p := newPair(t, k)
	defer p.close()
	ping := func(id int, keyMember, keyVar string, bad bool) elemSpec {
		return handElem("call0", keyVar, fmt.Sprintf(`"jsonrpc":"2.0","id":%d,"method":"probe_ping"`, id), keyMember, k, "call", `"pong"`, bad)
	}
	sub := func(id int, keyMember, keyVar string) elemSpec {
		return handElem("sub", keyVar, fmt.Sprintf(`"jsonrpc":"2.0","id":%d,"method":"probe_subscribe","params":["feed","x"]`, id), keyMember, k, "sub", "", false)
	}
	unsub := func(id int, keyMember, keyVar string) elemSpec {
		return handElem("unsub-live", keyVar, fmt.Sprintf(`"jsonrpc":"2.0","id":%d,"method":"probe_unsubscribe","params":["@@L0@@"]`, id), keyMember, k, "unsub", "", false)
	}
	good := `"key":` + jstr(k)
	for _, tr := range []string{"http", "ws", "ipc", "inproc"} {
		pubsub := tr != "http"
		msgs := []*message{
			{Transport: tr, Elems: []elemSpec{ping(1, "", "absent", false)}},
			{Transport: tr, Elems: []elemSpec{ping(1, good, "exact", false)}},
			{Transport: tr, Elems: []elemSpec{ping(1, `"key":"tempkey"`, "case", false)}},
			{Transport: tr, Elems: []elemSpec{ping(1, `"key":"tempKeyx"`, "suffix", false)}},
			{Transport: tr, Elems: []elemSpec{ping(1, `"key":"tempKe"`, "prefix", false)}},
			{Transport: tr, Elems: []elemSpec{ping(1, `"key":""`, "empty", false)}},
			{Transport: tr, Elems: []elemSpec{ping(1, `"key":null`, "null", false)}},
			{Transport: tr, Batch: true, Elems: []elemSpec{ping(1, good, "exact", false), ping(2, "", "absent", false), ping(3, good, "exact", false), ping(4, `"key":"x"`, "other", false)}},
			{Transport: tr, Batch: true, Elems: []elemSpec{ping(1, "", "absent", false), ping(2, good, "exact", false)}},
			{Transport: tr, Elems: []elemSpec{sub(1, "", "absent")}},
			{Transport: tr, Batch: true, Elems: []elemSpec{ping(1, good, "exact", false), sub(2, `"key":"TEMPKEY"`, "case")}},
		}
		if pubsub {
			msgs = append(msgs,
				&message{Transport: tr, Cycle: true, Elems: []elemSpec{unsub(1, "", "absent")}},
				&message{Transport: tr, Batch: true, Elems: []elemSpec{ping(1, good, "exact", false), unsub(2, `"key":"tempKe"`, "prefix"), sub(3, good, "exact")}},
				&message{Transport: tr, Batch: true, Elems: []elemSpec{unsub(1, good, "exact"), ping(2, "", "absent", false)}},
			)
		}
		// shrunk findings of the generated check (see check.json / known_findings)
		msgs = append(msgs,
			&message{Transport: tr, Elems: []elemSpec{ping(1, `"key":5`, "number", true)}},
			&message{Transport: tr, Batch: true, Elems: []elemSpec{ping(1, good, "exact", false), ping(2, `"key":5`, "number", true)}},
		)
		for _, m := range msgs {
			p.step(t, m)
		}
	}
	p.finish(t)
}

// TestC19NodeEndpoint: the key handed to rpc.StartHTTPEndpoint (the call
// node.startHTTP makes with config.RPC.APIKey) is the key the gate enforces,
// over real TCP.
func TestC19NodeEndpoint(t *testing.T) {
	const k = "81e13c16d83150017211e011aefc0215"
	probe := &Probe{}
	cfg := rpc.GetDefaultRPCConfig("127.0.0.1", 0)
	apis := []rpc.API{{Namespace: "probe", Version: "1.0", Service: probe, Public: true}}
	l, srv, hs, err := rpc.StartHTTPEndpoint(cfg.HTTPEndpoint(), apis, []string{"probe"}, cfg.HTTPCors, cfg.HTTPVirtualHosts, cfg.HTTPTimeouts, k)
	if err != nil {
		t.Fatalf("harness: %v", err)
	}
	defer func() { hs.Close(); l.Close(); srv.Stop() }()
	post := func(body string) reply {
		resp, err := http.Post("http://"+l.Addr().String()+"/", "application/json", strings.NewReader(body))
		if err != nil {
			t.Fatalf("harness: %v", err)
		}
		defer resp.Body.Close()
		var sb strings.Builder
		buf := make([]byte, 4096)
		for {
			n, err := resp.Body.Read(buf)
			sb.Write(buf[:n])
			if err != nil {
				break
			}
		}
		rep, err := parseReply([]byte(sb.String()))
		if err != nil {
			t.Fatalf("unparseable answer %q", sb.String())
		}
		return rep
	}
	evid.Eval()
	for _, body := range []string{
		`{"jsonrpc":"2.0","id":1,"method":"probe_ping"}`,
		`{"jsonrpc":"2.0","id":1,"method":"probe_ping","key":""}`,
		`{"jsonrpc":"2.0","id":1,"method":"probe_ping","key":"81e13c16d83150017211e011aefc021"}`,
		`{"jsonrpc":"2.0","id":1,"method":"probe_ping","key":"81E13C16D83150017211E011AEFC0215"}`,
		`{"jsonrpc":"2.0","id":1,"method":"probe_subscribe","params":["plain"]}`,
		`{"jsonrpc":"2.0","id":1,"method":"probe_unsubscribe","params":["0x1"]}`,
		`{"jsonrpc":"2.0","id":1,"method":"rpc_modules"}`,
	} {
		rep := post(body)
		if !rep.single || !rep.items[0].isErr || rep.items[0].code != invalidKeyCode {
			t.Fatalf("request without the key: %s answered %s", body, rep.raw)
		}
	}
	if _, n := probe.mark(); n != 0 {
		t.Fatalf("%d probe method(s) ran for requests without the key", n)
	}
	rep := post(`[{"jsonrpc":"2.0","id":1,"method":"probe_ping","key":"` + k + `"},{"jsonrpc":"2.0","id":2,"method":"probe_ping"}]`)
	if len(rep.items) != 2 || rep.items[0].result != `"pong"` || rep.items[1].code != invalidKeyCode {
		t.Fatalf("mixed batch answered %s", rep.raw)
	}
	if _, n := probe.mark(); n != 1 {
		t.Fatalf("probe entries = %d after one keyed call", n)
	}
}

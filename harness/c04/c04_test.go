package c04

import (
	"fmt"
	"math/big"
	"testing"

	"github.com/idena-network/idena-go/blockchain/types"
	"github.com/idena-network/idena-go/common"
	"pgregory.net/rapid"

	"verifharness/internal/evid"
	"verifharness/internal/sim"
)

func TestMain(m *testing.M) { evid.Main(m) }

type ledger struct {
	total    *big.Int
	balances map[common.Address]*big.Int
	stakes   map[common.Address]*big.Int
}

func nz(x *big.Int) *big.Int {
	if x == nil {
		return new(big.Int)
	}
	return x
}

// sumLedger iterates every account, identity and contract stake of the state
// and checks the per-entry non-negativity clauses.
func sumLedger(t *rapid.T, w *sim.World, img *sim.StateImage, where string) *ledger {
	l := &ledger{total: new(big.Int), balances: map[common.Address]*big.Int{}, stakes: map[common.Address]*big.Int{}}
	for addr, a := range img.Accounts {
		b := nz(a.Balance)
		if b.Sign() < 0 {
			t.Fatalf("%s: negative balance %v of %s", where, b, w.Name(addr))
		}
		l.total.Add(l.total, b)
		l.balances[addr] = b
		if a.Contract != nil {
			cs := nz(a.Contract.Stake)
			if cs.Sign() < 0 {
				t.Fatalf("%s: negative contract stake %v of %s", where, cs, w.Name(addr))
			}
			l.total.Add(l.total, cs)
		}
	}
	for addr, id := range img.Identities {
		s := nz(id.Stake)
		if s.Sign() < 0 {
			t.Fatalf("%s: negative stake %v of %s", where, s, w.Name(addr))
		}
		if lk := nz(id.LockedStake()); lk.Sign() < 0 || lk.Cmp(s) > 0 {
			t.Fatalf("%s: locked stake %v of %s outside [0, stake=%v]", where, lk, w.Name(addr), s)
		}
		if rp := nz(id.ReplenishedStake()); rp.Sign() < 0 || rp.Cmp(s) > 0 {
			t.Fatalf("%s: replenished stake %v of %s outside [0, stake=%v]", where, rp, w.Name(addr), s)
		}
		l.total.Add(l.total, s)
		l.stakes[addr] = s
	}
	return l
}

// No coins from nowhere: after every block all balances and stakes are
// non-negative and the ledger total grows by at most the block reward (plus
// one epoch pool on the validation-finishing block, nothing on an empty
// non-epoch block).
func TestIssuanceBounded(t *testing.T) {
	rapid.Check(t, func(t *rapid.T) {
		opt := sim.Options{MinActors: 3, MaxActors: 10, Replicas: 1, MaxReplicas: 4, Steps: 45, MaxTxPerStep: 6}
		var prev *ledger
		var prevEpochBlock uint64
		events := map[string]bool{}
		opt.BetweenBlocks = func(h *sim.History) {
			r := h.W.Replicas[0]
			s := r.ReadState()
			if prev == nil {
				prev = sumLedger(t, h.W, sim.Image(s), "genesis")
			}
			prevEpochBlock = s.State.EpochBlock()
		}
		opt.AfterBlock = func(h *sim.History, blk *types.Block) {
			evid.Eval()
			w := h.W
			r := w.Replicas[0]
			cons := r.Cfg.Consensus
			where := "after " + sim.BlockDesc(blk)
			cur := sumLedger(t, w, sim.Image(r.ReadState()), where)
			delta := new(big.Int).Sub(cur.total, prev.total)
			perBlock := new(big.Int).Add(cons.BlockReward, cons.FinalCommitteeReward)
			bound := new(big.Int)
			if !blk.IsEmpty() {
				bound.Add(bound, perBlock)
			}
			if blk.Header.Flags().HasFlag(types.ValidationFinished) {
				// one epoch pool = per-block reward x blocks of the epoch; the shares are computed in float32/decimal,
				// so allow a relative rounding tolerance of 1e-5 (far above float32 accumulation error for <= 100 identities)
				pool := new(big.Int).Mul(perBlock, new(big.Int).SetUint64(blk.Height()-prevEpochBlock))
				tol := new(big.Int).Div(pool, big.NewInt(100000))
				bound.Add(bound, pool).Add(bound, tol)
				events["epochReward"] = true
				evid.Count("block.validation_finished")
			}
			if delta.Cmp(bound) > 0 {
				t.Fatalf("%s: ledger total grew by %v, allowed at most %v (total %v -> %v)\nhistory:\n%s", where, delta, bound, prev.total, cur.total, h.Summary())
			}
			if blk.IsEmpty() {
				evid.Count("block.empty")
			} else {
				evid.Count("block.proposed")
			}
			for _, tx := range blk.Body.Transactions {
				switch tx.Type {
				case types.KillTx, types.KillInviteeTx, types.KillDelegatorTx:
					events["kill"] = true
				case types.CallContractTx, types.DeployContractTx, types.TerminateContractTx:
					events["contract"] = true
				case types.BurnTx, types.ReplenishStakeTx, types.ActivationTx:
					events[sim.TxTypeNames[tx.Type]] = true
				}
				evid.Count("tx." + sim.TxTypeNames[tx.Type])
			}
			prev = cur
		}
		h := sim.RunHistory(t, opt)
		if len(events) > 0 {
			evid.NonTrivial(h.Descriptor())
			evid.Sample("history", fmt.Sprintf("%v | %s", events, h.Descriptor()))
			for e := range events {
				evid.Count("history.with_" + e)
			}
		}
	})
}

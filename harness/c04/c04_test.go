package c04

import (
	"fmt"
	"math/big"
	"os"
	"testing"

	"github.com/idena-network/idena-go/blockchain/attachments"
	"github.com/idena-network/idena-go/blockchain/types"
	"github.com/idena-network/idena-go/blockchain/validation"
	"github.com/idena-network/idena-go/common"
	"github.com/idena-network/idena-go/core/state"
	"github.com/idena-network/idena-go/crypto"
	"pgregory.net/rapid"

	"verifharness/internal/evid"
	"verifharness/internal/sim"
)

func TestMain(m *testing.M) { evid.Main(m) }

type ledger struct {
	total    *big.Int
	balances map[common.Address]*big.Int
	stakes   map[common.Address]*big.Int
}

func nz(x *big.Int) *big.Int {
	if x == nil {
		return new(big.Int)
	}
	return x
}

// sumLedger iterates every account, identity and contract stake of the state
// and checks the per-entry non-negativity clauses.
func sumLedger(t *rapid.T, w *sim.World, img *sim.StateImage, where string) *ledger {
	l := &ledger{total: new(big.Int), balances: map[common.Address]*big.Int{}, stakes: map[common.Address]*big.Int{}}
	for addr, a := range img.Accounts {
		b := nz(a.Balance)
		if b.Sign() < 0 {
			t.Fatalf("%s: negative balance %v of %s", where, b, w.Name(addr))
		}
		l.total.Add(l.total, b)
		l.balances[addr] = b
		if a.Contract != nil {
			cs := nz(a.Contract.Stake)
			if cs.Sign() < 0 {
				t.Fatalf("%s: negative contract stake %v of %s", where, cs, w.Name(addr))
			}
			l.total.Add(l.total, cs)
		}
	}
	for addr, id := range img.Identities {
		s := nz(id.Stake)
		if s.Sign() < 0 {
			t.Fatalf("%s: negative stake %v of %s", where, s, w.Name(addr))
		}
		if lk := nz(id.LockedStake()); lk.Sign() < 0 || lk.Cmp(s) > 0 {
			t.Fatalf("%s: locked stake %v of %s outside [0, stake=%v]", where, lk, w.Name(addr), s)
		}
		if rp := nz(id.ReplenishedStake()); rp.Sign() < 0 || rp.Cmp(s) > 0 {
			t.Fatalf("%s: replenished stake %v of %s outside [0, stake=%v]", where, rp, w.Name(addr), s)
		}
		l.total.Add(l.total, s)
		l.stakes[addr] = s
	}
	return l
}

// No coins from nowhere: after every block all balances and stakes are
// non-negative and the ledger total grows by at most the block reward (plus
// one epoch pool on the validation-finishing block, nothing on an empty
// non-epoch block).
func TestIssuanceBounded(t *testing.T) {
	issuanceBounded(t, sim.Options{MinActors: 3, MaxActors: 10, Replicas: 1, MaxReplicas: 4, Steps: 45, MaxTxPerStep: 6})
}

// Careers over several epochs: validations in quick succession, most identities passing with full marks, a mempool of
// invitations, activations, ceremony transactions, payments, stake replenishments and terminations - so that invitees
// collect their (locked, partly replenished) rewards at ages 1-3, are promoted, paid out, spend and terminate.
func TestIssuanceBoundedCareers(t *testing.T) {
	issuanceBoundedWith(t, sim.Options{MinActors: 4, MaxActors: 8, Replicas: 1, MaxReplicas: 3, Steps: 130, MaxTxPerStep: 6,
		OnlyTypes: []types.TxType{types.InviteTx, types.InviteTx, types.InviteTx, types.ActivationTx, types.ActivationTx, types.ActivationTx, types.SubmitAnswersHashTx, types.SubmitShortAnswersTx,
			types.SubmitLongAnswersTx, types.EvidenceTx, types.SendTx, types.SendTx, types.KillTx, types.ReplenishStakeTx, types.DelegateTx,
			// (a newbie has to make its required flips in every epoch to stay alive)
			types.SubmitFlipTx, types.SubmitFlipTx, types.SubmitFlipTx, types.SubmitFlipTx, types.SubmitFlipTx, types.SubmitFlipTx, types.SubmitFlipTx, types.SubmitFlipTx},
		Params: func(p *sim.Params) {
			p.CeremonyIn, p.Interval, p.WellBehaved = 150, 700, 85
			p.Profile = "v12"
			// the inviters' stake decides the size of the invitation rewards (and of the invitee's share)
			p.States[0], p.Stakes[0] = state.Human, sim.Dna(500)
			for i := range p.States {
				if p.Balances[i] == nil || p.Balances[i].Cmp(sim.Dna(300)) < 0 {
					p.Balances[i] = sim.Dna(2000)
				}
			}
		}}, true)
}

func issuanceBounded(t *testing.T, opt sim.Options) { issuanceBoundedWith(t, opt, false) }

// diligent: identities that have to make flips to stay alive do make them (a drawn half of them per block), as
// real participants do; everything else stays generated.
func makeRequiredFlips(t *rapid.T, h *sim.History) {
	w := h.W
	r := w.Replicas[0]
	s := r.ReadState()
	if s.State.ValidationPeriod() != state.NonePeriod {
		return
	}
	epoch := s.State.Epoch()
	for _, a := range w.Actors {
		id := s.State.GetIdentity(a.Addr)
		if int(id.RequiredFlips) <= len(id.Flips) || !rapid.Bool().Draw(t, "makesAFlipNow") {
			continue
		}
		used := map[uint8]bool{}
		for _, f := range id.Flips {
			used[f.Pair] = true
		}
		pair := uint8(0)
		for used[pair] {
			pair++
		}
		cid := append([]byte{0x01, 0x55, 0x12, 0x20}, crypto.Keccak256([]byte{a.Addr[0], a.Addr[1], byte(epoch), byte(epoch >> 8), byte(len(id.Flips)), 0x0f})...)
		tx := &types.Transaction{Type: types.SubmitFlipTx, Epoch: epoch, AccountNonce: r.AppState.NonceCache.GetNonce(a.Addr, epoch) + 1, Payload: attachments.CreateFlipSubmitAttachment(cid, pair)}
		signed, err := types.SignTx(tx, a.Key)
		if err != nil {
			t.Fatal(err)
		}
		if err := r.Pool.AddExternalTxs(validation.InboundTx, signed); err != nil {
			evid.Count("career.required_flip_refused")
		} else {
			evid.Count("career.required_flip_submitted")
		}
	}
}

func issuanceBoundedWith(t *testing.T, opt sim.Options, diligent bool) {
	rapid.Check(t, func(t *rapid.T) {
		var prev *ledger
		var prevEpochBlock uint64
		events := map[string]bool{}
		opt.BetweenBlocks = func(h *sim.History) {
			if diligent {
				makeRequiredFlips(t, h)
			}
			r := h.W.Replicas[0]
			s := r.ReadState()
			if prev == nil {
				prev = sumLedger(t, h.W, sim.Image(s), "genesis")
			}
			prevEpochBlock = s.State.EpochBlock()
		}
		opt.AfterBlock = func(h *sim.History, blk *types.Block) {
			evid.Eval()
			w := h.W
			r := w.Replicas[0]
			cons := r.Cfg.Consensus
			where := "after " + sim.BlockDesc(blk)
			cur := sumLedger(t, w, sim.Image(r.ReadState()), where)
			delta := new(big.Int).Sub(cur.total, prev.total)
			perBlock := new(big.Int).Add(cons.BlockReward, cons.FinalCommitteeReward)
			bound := new(big.Int)
			if !blk.IsEmpty() {
				bound.Add(bound, perBlock)
			}
			if blk.Header.Flags().HasFlag(types.ValidationFinished) {
				// one epoch pool = per-block reward x blocks of the epoch; the shares are computed in float32/decimal,
				// so allow a relative rounding tolerance of 1e-5 (far above float32 accumulation error for <= 100 identities)
				pool := new(big.Int).Mul(perBlock, new(big.Int).SetUint64(blk.Height()-prevEpochBlock))
				tol := new(big.Int).Div(pool, big.NewInt(100000))
				bound.Add(bound, pool).Add(bound, tol)
				events["epochReward"] = true
				evid.Count("block.validation_finished")
			}
			if delta.Cmp(bound) > 0 {
				t.Fatalf("%s: ledger total grew by %v, allowed at most %v (total %v -> %v)\nhistory:\n%s", where, delta, bound, prev.total, cur.total, h.Summary())
			}
			if blk.IsEmpty() {
				evid.Count("block.empty")
			} else {
				evid.Count("block.proposed")
			}
			if blk.Header.Flags().HasFlag(types.ValidationFinished) {
				s := r.ReadState()
				if e := s.State.Epoch(); e >= 2 {
					evid.Count(fmt.Sprintf("epoch.reached_%d", minU16(e, 4)))
				}
				if pre, err := r.AppState.Readonly(blk.Height() - 1); err == nil {
					for _, a := range w.Actors {
						was, is := pre.State.GetIdentity(a.Addr), s.State.GetIdentity(a.Addr)
						if os.Getenv("C04_TRACE") != "" && was.State != state.Undefined {
							fmt.Fprintf(os.Stderr, "epoch %d %s: %d -> %d required=%d made=%d qualified=%d stake=%v locked=%v repl=%v\n", s.State.Epoch(), a, was.State, is.State, was.RequiredFlips, len(was.Flips), was.QualifiedFlips, was.Stake, was.LockedStake(), was.ReplenishedStake())
						}
						if was.State == state.Newbie && is.State == state.Verified {
							evid.Count("career.newbie_to_verified")
							if lk := was.LockedStake(); lk != nil && lk.Sign() > 0 {
								evid.Count("career.newbie_to_verified_with_locked_stake")
								// locked share of the stake before the promotion, in tenths
								share := new(big.Int).Div(new(big.Int).Mul(lk, big.NewInt(10)), nz1(was.Stake))
								evid.Count(fmt.Sprintf("career.promoted_locked_share_tenths=%v", share))
							}
						}
					}
				}
				for _, a := range w.Actors {
					id := s.State.GetIdentity(a.Addr)
					if id.Inviter != nil && id.State.NewbieOrBetter() {
						evid.Count("career.validated_invitee")
						if id.ReplenishedStake() != nil && id.ReplenishedStake().Sign() > 0 && id.LockedStake() != nil && id.LockedStake().Sign() > 0 {
							evid.Count("career.validated_invitee_with_locked_and_replenished_stake")
							if id.State.VerifiedOrBetter() {
								evid.Count("career.promoted_invitee_with_locked_and_replenished_stake")
							}
						}
						if id.LockedStake() != nil && id.LockedStake().Sign() > 0 {
							evid.Count("career.validated_invitee_with_locked_stake")
						}
					}
				}
			}
			for _, tx := range blk.Body.Transactions {
				switch tx.Type {
				case types.KillTx, types.KillInviteeTx, types.KillDelegatorTx:
					events["kill"] = true
				case types.CallContractTx, types.DeployContractTx, types.TerminateContractTx:
					events["contract"] = true
				case types.BurnTx, types.ReplenishStakeTx, types.ActivationTx:
					events[sim.TxTypeNames[tx.Type]] = true
				}
				evid.Count("tx." + sim.TxTypeNames[tx.Type])
			}
			prev = cur
		}
		h := sim.RunHistory(t, opt)
		if os.Getenv("C04_TRACE") != "" {
			for _, o := range h.Offered {
				if o.Tx.Type == types.SubmitFlipTx {
					fmt.Fprintf(os.Stderr, "flipoffer err=%v\n", o.Err)
				}
			}
		}
		if len(events) > 0 {
			evid.NonTrivial(h.Descriptor())
			evid.Sample("history", fmt.Sprintf("%v | %s", events, h.Descriptor()))
			for e := range events {
				evid.Count("history.with_" + e)
			}
		}
	})
}

func minU16(a uint16, b uint16) uint16 {
	if a < b {
		return a
	}
	return b
}

func nz1(x *big.Int) *big.Int {
	if x == nil || x.Sign() == 0 {
		return big.NewInt(1)
	}
	return x
}

package c06

import (
	"fmt"
	feepkg "github.com/idena-network/idena-go/blockchain/fee"
	"math/big"
	"testing"

	"github.com/idena-network/idena-go/blockchain/types"
	"github.com/idena-network/idena-go/blockchain/validation"
	"github.com/idena-network/idena-go/common"
	"pgregory.net/rapid"

	"verifharness/internal/evid"
	"verifharness/internal/sim"
)

func TestMain(m *testing.M) { evid.Main(m) }

type included struct {
	tx     *types.Transaction
	epoch  uint16 // epoch of the block that holds it
	height uint64
}

// No transaction is applied twice; nonces advance strictly per epoch; replays
// of any included transaction are rejected by the pool and by block processing.
func TestNoReplay(t *testing.T) {
	rapid.Check(t, func(t *rapid.T) {
		opt := sim.Options{MinActors: 3, MaxActors: 9, Replicas: 2, MaxReplicas: 4, Steps: 45, MaxTxPerStep: 6}
		opt.Params = func(p *sim.Params) {
			// reach the first validation early so that histories span epochs (dust clearing happens there)
			if p.CeremonyIn > 1000 {
				p.CeremonyIn = 300
			}
		}
		var all []included
		seen := map[common.Hash]uint64{}
		type key struct {
			a common.Address
			e uint16
		}
		nextNonce := map[key]uint32{}
		var preEpoch uint16
		epochChanges, dustCleared := 0, 0
		opt.BetweenBlocks = func(h *sim.History) {
			w := h.W
			r := w.Replicas[0]
			s := r.ReadState()
			preEpoch = s.State.Epoch()
			// replayer: re-offer previously included transactions
			n := 0
			if len(all) > 0 {
				n = rapid.IntRange(0, 3).Draw(t, "nReplays")
			}
			for i := 0; i < n; i++ {
				it := all[rapid.IntRange(0, len(all)-1).Draw(t, "replayIdx")]
				evid.Eval()
				class := "same-epoch"
				if it.epoch != preEpoch {
					class = "after-epoch-change"
				}
				sender, _ := types.Sender(it.tx)
				if !s.State.AccountExists(sender) {
					class += "+sender-cleared"
				}
				evid.Count("replay." + class)
				// 1. through the mempool, as a peer and as a local submission
				for _, kind := range []validation.TxType{validation.InboundTx, validation.MempoolTx} {
					if err := r.Pool.AddExternalTxs(kind, it.tx); err == nil {
						t.Fatalf("pool accepted a replay (%s) of %s tx %x (nonce %d, tx epoch %d) first included at height %d; head %d epoch %d\nhistory:\n%s", class, sim.TxTypeNames[it.tx.Type], it.tx.Hash(), it.tx.AccountNonce, it.tx.Epoch, it.height, r.Head().Height(), preEpoch, h.Summary())
					}
				}
				// 2. bypassing the pool: the validator's strict processing of a block body that contains it,
				//    alone and behind other fresh transactions of the pool
				bodies := [][]*types.Transaction{{it.tx}}
				if pend := r.Pool.BuildBlockTransactions(); len(pend) > 0 {
					bodies = append(bodies, append(append([]*types.Transaction{}, pend...), it.tx))
				}
				// ... and behind a fresh transaction that takes the body over the block's gas cap (from upgrade 10 on one
				// transaction may cross it): what follows the crossing transaction is part of the body all the same
				if r.Cfg.Consensus.EnableUpgrade11 {
					cs, err := r.AppState.ForCheck(r.Head().Height())
					if err != nil {
						t.Fatalf("ForCheck: %v", err)
					}
					god := s.State.GodAddress()
					if w.ByAddr[god] != nil {
						ge := s.State.Epoch()
						gn := s.State.GetNonce(god) + 1
						if s.State.GetEpoch(god) < ge {
							gn = 1
						}
						// two invitations of the god address (no fee is charged for them whatever their size), each below the
						// cap, together above it: the second one is the crossing transaction
						half := int(types.MaxBlockSize(true)/10)/2 + rapid.IntRange(1000, 100000).Draw(t, "overHalfTheCap")
						var fats []*types.Transaction
						minFee := feepkg.GetFeePerGasForNetwork(cs.ValidatorsCache.NetworkSize())
						ok := sender != god
						for i := 0; i < 2 && ok; i++ {
							to := common.Address{0xfa, 0x7c, byte(i), byte(r.Head().Height()), byte(gn)}
							fat := &types.Transaction{Type: types.InviteTx, AccountNonce: gn + uint32(i), Epoch: ge, To: &to, Payload: make([]byte, half)}
							signed, err := types.SignTx(fat, w.ByAddr[god].Key)
							if err != nil {
								ok = false
								break
							}
							if i == 0 {
								if verr := validation.ValidateTx(cs, signed, minFee, validation.InBlockTx); verr != nil {
									evid.Count("replay.gas_cap_body_not_buildable." + verr.Error())
									ok = false
								}
							}
							fats = append(fats, signed)
						}
						if ok {
							bodies = append(bodies, append(fats, it.tx))
							evid.Count("replay.behind_a_tx_that_crosses_the_gas_cap")
						} else {
							evid.Count("replay.gas_cap_body_not_buildable")
						}
					}
				}
				for _, body := range bodies {
					cs, err := r.AppState.ForCheck(r.Head().Height())
					if err != nil {
						t.Fatalf("ForCheck: %v", err)
					}
					hdr := &types.Header{ProposedHeader: &types.ProposedHeader{Height: r.Head().Height() + 1, ParentHash: r.Head().Hash(), Time: w.Now().Unix(), ProposerPubKey: w.God.Pub}}
					if _, err := r.Chain.VerifProcessTxs(cs, body, hdr); err == nil {
						t.Fatalf("block processing accepted a body of %d txs containing a replay (%s) of %s tx %x (nonce %d, tx epoch %d) first included at height %d; head %d epoch %d\nhistory:\n%s", len(body), class, sim.TxTypeNames[it.tx.Type], it.tx.Hash(), it.tx.AccountNonce, it.tx.Epoch, it.height, r.Head().Height(), preEpoch, h.Summary())
					}
				}
				// 3. a third party re-stamps the included transaction for the present (epoch and/or nonce rewritten, the
				//    signature kept): it must not come back as a transaction of the original signer
				next := s.State.GetNonce(sender) + 1
				if s.State.GetEpoch(sender) < preEpoch {
					next = 1
				}
				for _, stamp := range []string{"epoch", "nonce", "epoch+nonce"} {
					c := sim.WireCopyTx(it.tx)
					if stamp != "nonce" {
						c.Epoch = preEpoch
					}
					if stamp != "epoch" {
						c.AccountNonce = next
					}
					if c.Epoch == it.tx.Epoch && c.AccountNonce == it.tx.AccountNonce {
						continue
					}
					evid.Eval()
					evid.Count("restamp." + stamp)
					if s2, _ := types.Sender(c); s2 != sender {
						continue // a transaction of somebody else (an address nobody holds the key of)
					}
					evid.Count("restamp.keeps_the_signer")
					cs, err := r.AppState.ForCheck(r.Head().Height())
					if err != nil {
						t.Fatalf("ForCheck: %v", err)
					}
					hdr := &types.Header{ProposedHeader: &types.ProposedHeader{Height: r.Head().Height() + 1, ParentHash: r.Head().Hash(), Time: w.Now().Unix(), ProposerPubKey: w.God.Pub}}
					_, perr := r.Chain.VerifProcessTxs(cs, []*types.Transaction{c}, hdr)
					if perr == nil || r.Pool.AddExternalTxs(validation.InboundTx, sim.WireCopyTx(c)) == nil {
						t.Fatalf("%s tx %x of %s (signed for epoch %d, nonce %d, included at height %d) with its %s rewritten to epoch %d nonce %d and the signature kept is accepted as a transaction of the same signer\nhistory:\n%s",
							sim.TxTypeNames[it.tx.Type], it.tx.Hash(), w.Name(sender), it.tx.Epoch, it.tx.AccountNonce, it.height, stamp, c.Epoch, c.AccountNonce, h.Summary())
					}
				}
				if class != "same-epoch" {
					evid.NonTrivial(fmt.Sprintf("%s|%s|type=%s|age=%d", h.W.P.Profile, class, sim.TxTypeNames[it.tx.Type], r.Head().Height()-it.height))
					evid.Sample("replay", fmt.Sprintf("%s of %s first included at %d, re-offered at head %d", class, sim.TxTypeNames[it.tx.Type], it.height, r.Head().Height()))
				}
			}
		}
		// crafted bodies (a dishonest proposer bypasses the pool): fresh, correctly signed transactions that are
		// out of sequence or signed for another epoch must make strict block processing fail, alone and behind the
		// pool's valid transactions
		prevBetween := opt.BetweenBlocks
		opt.BetweenBlocks = func(h *sim.History) {
			prevBetween(h)
			w := h.W
			r := w.Replicas[0]
			s := r.ReadState()
			for n := rapid.IntRange(0, 2).Draw(t, "crafted"); n > 0; n-- {
				evid.Eval()
				a := w.Actors[rapid.IntRange(0, len(w.Actors)-1).Draw(t, "craftSender")]
				if s.State.GetBalance(a.Addr).Cmp(sim.Dna(1)) < 0 {
					continue
				}
				epoch := s.State.Epoch()
				next := s.State.GetNonce(a.Addr) + 1
				if s.State.GetEpoch(a.Addr) < epoch {
					next = 1
				}
				kind := rapid.SampledFrom([]string{"future-epoch-nonce1", "future-epoch-next", "nonce-gap", "nonce-gap-big", "nonce-zero", "past-epoch", "far-future-epoch"}).Draw(t, "craftKind")
				tx := &types.Transaction{Type: types.SendTx, Epoch: epoch, AccountNonce: next, To: &w.Actors[0].Addr, Amount: big.NewInt(1), MaxFee: sim.Dna(100)}
				switch kind {
				case "future-epoch-nonce1":
					tx.Epoch, tx.AccountNonce = epoch+1, 1
				case "future-epoch-next":
					tx.Epoch = epoch + 1
				case "nonce-gap":
					tx.AccountNonce = next + 1
				case "nonce-gap-big":
					tx.AccountNonce = next + uint32(rapid.IntRange(2, 1000).Draw(t, "gap"))
				case "nonce-zero":
					tx.AccountNonce = 0
				case "past-epoch":
					if epoch == 0 {
						continue
					}
					tx.Epoch = epoch - 1
				case "far-future-epoch":
					tx.Epoch = epoch + uint16(rapid.IntRange(2, 60000).Draw(t, "epochJump"))
				}
				signed, _ := types.SignTx(tx, a.Key)
				bodies := [][]*types.Transaction{{signed}}
				var pend []*types.Transaction
				for _, p := range r.Pool.BuildBlockTransactions() {
					if ps, _ := types.Sender(p); ps != a.Addr {
						pend = append(pend, p)
					}
				}
				if len(pend) > 0 {
					bodies = append(bodies, append(append([]*types.Transaction{}, pend...), signed))
				}
				for _, body := range bodies {
					cs, err := r.AppState.ForCheck(r.Head().Height())
					if err != nil {
						t.Fatalf("ForCheck: %v", err)
					}
					hdr := &types.Header{ProposedHeader: &types.ProposedHeader{Height: r.Head().Height() + 1, ParentHash: r.Head().Hash(), Time: w.Now().Unix(), ProposerPubKey: w.God.Pub}}
					if _, err := r.Chain.VerifProcessTxs(cs, body, hdr); err == nil {
						t.Fatalf("block processing accepted a body of %d txs with an out-of-sequence tx (%s: tx epoch %d nonce %d; state epoch %d, sender's next nonce %d)\nhistory:\n%s", len(body), kind, tx.Epoch, tx.AccountNonce, epoch, next, h.Summary())
					}
				}
				evid.Count("crafted." + kind)
				evid.NonTrivial(fmt.Sprintf("crafted|%s|%s|e%d", w.P.Profile, kind, epoch))
			}
		}
		opt.AfterBlock = func(h *sim.History, blk *types.Block) {
			evid.Eval()
			r := h.W.Replicas[0]
			// read the block back from the node, as the chain it accepted
			stored := r.Chain.GetBlockByHeight(blk.Height())
			if stored == nil {
				t.Fatalf("block %d not retrievable", blk.Height())
			}
			for _, tx := range stored.Body.Transactions {
				hh := tx.Hash()
				if at, dup := seen[hh]; dup {
					t.Fatalf("tx %x included twice: heights %d and %d\nhistory:\n%s", hh, at, blk.Height(), h.Summary())
				}
				seen[hh] = blk.Height()
				if tx.Epoch != preEpoch {
					t.Fatalf("tx %x signed for epoch %d applied in a block of epoch %d (height %d)\nhistory:\n%s", hh, tx.Epoch, preEpoch, blk.Height(), h.Summary())
				}
				sender, _ := types.Sender(tx)
				k := key{sender, preEpoch}
				want := nextNonce[k] + 1
				if tx.AccountNonce != want {
					t.Fatalf("sender %s epoch %d: nonce %d included where %d is next (height %d)\nhistory:\n%s", h.W.Name(sender), preEpoch, tx.AccountNonce, want, blk.Height(), h.Summary())
				}
				nextNonce[k] = tx.AccountNonce
				all = append(all, included{tx, preEpoch, blk.Height()})
			}
			if blk.Header.Flags().HasFlag(types.ValidationFinished) {
				epochChanges++
				s := r.ReadState()
				for _, it := range all {
					sender, _ := types.Sender(it.tx)
					if !s.State.AccountExists(sender) {
						dustCleared++
						break
					}
				}
			}
		}
		h := sim.RunHistory(t, opt)
		if epochChanges > 0 {
			evid.Count("history.with_epoch_change")
		}
		if epochChanges > 1 {
			evid.Count("history.with_two_epoch_changes")
		}
		if dustCleared > 0 {
			evid.Count("history.with_cleared_sender")
		}
		evid.CountN("chain.included_txs", len(all))
		_ = h
	})
}

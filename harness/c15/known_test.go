package c15

import (
	"math/big"
	"testing"
	"time"

	"github.com/idena-network/idena-go/blockchain/attachments"
	"github.com/idena-network/idena-go/blockchain/fee"
	"github.com/idena-network/idena-go/blockchain/types"
	"github.com/idena-network/idena-go/blockchain/validation"
	"github.com/idena-network/idena-go/common"
	"github.com/idena-network/idena-go/core/state"
	"github.com/idena-network/idena-go/vm/embedded"

	"verifharness/internal/evid"
	"verifharness/internal/kf"
	"verifharness/internal/sim"
)

// Fixed history for the finding c15.same-block-store-writes-iterated-in-map-order (found by the same-contract chains,
// repaired in the repository): four deposits of different senders and a refund on one RefundableOracleLock share a block.
// refund walks the deposits - all of them written by earlier transactions of the same block, i.e. still held in the state
// object's write cache - and sends + emits one event per deposit, so the receipt records the order of the walk. The
// block's transactions are executed 16 times on fresh check states of the parent: every execution must give the same
// receipts, and the builder and a second node must accept the proposed block.
func TestKnownSameBlockStoreWritesIterationOrder(t *testing.T) {
	const n = 6
	params := sim.Params{KeySeed: 1515, NActors: n, Profile: "v12", SwitchRng: 2, DelegRng: 2, DiscrRng: 3, SnapRng: 1000,
		Start: time.Date(2030, 1, 5, 12, 0, 0, 0, time.UTC).Unix(), CeremonyIn: 600000000, Interval: 3600, LotteryDur: 30, ShortDur: 30, LongDur: 30}
	for i := 0; i < n; i++ {
		params.States = append(params.States, state.Verified)
		params.Balances = append(params.Balances, sim.Dna(500000))
		params.Stakes = append(params.Stakes, sim.Dna(10))
	}
	w := sim.NewWorld(params)
	A, err := w.AddReplica("A", w.God.Key, nil)
	if err != nil {
		t.Fatalf("replica: %v", err)
	}
	evid.Eval()
	copyOf := func() *sim.Replica {
		r := &sim.Replica{W: w, Name: "builder", Key: A.Key, Addr: A.Addr, DB: sim.CopyDB(A.DB), Ipfs: A.Ipfs, Loc: time.UTC}
		if err := r.Start(); err != nil {
			t.Fatalf("start copy: %v", err)
		}
		return r
	}
	nonces := map[int]uint32{}
	mk := func(a *sim.Actor, typ types.TxType, to *common.Address, amount *big.Int, payload []byte) *types.Transaction {
		s := A.ReadState()
		nonces[a.Idx]++
		tx := &types.Transaction{Type: typ, To: to, Epoch: s.State.Epoch(), AccountNonce: nonces[a.Idx], Amount: amount, Payload: payload}
		fpg, netSize := nz(s.State.FeePerGas()), s.ValidatorsCache.NetworkSize()
		if min := fee.GetFeePerGasForNetwork(netSize); fpg.Cmp(min) < 0 {
			fpg = min
		}
		feeFor(tx, netSize, fpg, 60000, nil)
		stx, err := types.SignTx(tx, a.Key)
		if err != nil {
			t.Fatalf("sign: %v", err)
		}
		return stx
	}
	call := func(a *sim.Actor, c common.Address, method string, amount *big.Int) *types.Transaction {
		payload, _ := attachments.CreateCallContractAttachment(method).ToBytes()
		return mk(a, types.CallContractTx, &c, amount, payload)
	}
	propose := func(txs ...*types.Transaction) (*sim.Replica, *types.Block) {
		w.Advance(20 * time.Second)
		c := copyOf()
		for _, tx := range txs {
			if err := c.Pool.AddExternalTxs(validation.MempoolTx, tx); err != nil {
				t.Fatalf("HARNESS: pool refuses a tx of the fixed history: %v", err)
			}
		}
		b := c.Propose().Block
		if len(b.Body.Transactions) != len(txs) {
			t.Fatalf("HARNESS: the builder took %d of %d txs", len(b.Body.Transactions), len(txs))
		}
		return c, b
	}
	mine := func(txs ...*types.Transaction) {
		_, b := propose(txs...)
		if err := A.AddBlock(b); err != nil {
			t.Fatalf("HARNESS: block of the fixed history refused: %v", err)
		}
		for _, tx := range txs {
			if tx.Type != types.SendTx {
				if r := A.Chain.GetReceipt(tx.Hash()); r == nil || !r.Success {
					t.Fatalf("HARNESS: a contract tx of the fixed history failed: %+v", r)
				}
			}
		}
	}
	a := w.Actors
	mine() // the genesis state has gas price 0
	// nonces: a2 -> 0, a3 -> 1, a1 -> 2 (deployment, push), a4 -> 3: the builder orders by nonce
	self := func(x *sim.Actor) *types.Transaction {
		return mk(x, types.SendTx, &x.Addr, big.NewInt(0), nil)
	}
	mine(self(a[3]), self(a[4]), self(a[4]), self(a[4]))
	now := uint64(w.Now().Unix())
	minStake := new(big.Int).Mul(nz(A.ReadState().State.FeePerGas()), big.NewInt(3000000))
	deployAtt := attachments.CreateDeployContractAttachment(embedded.RefundableOracleLockContract, nil, nil,
		a[5].Addr.Bytes() /* "voting": an address without a contract */, []byte{1}, a[1].Addr.Bytes(), a[2].Addr.Bytes(), u64b(0), u64b(now+1000000), u64b(0))
	payload, _ := deployAtt.ToBytes()
	deploy := mk(a[1], types.DeployContractTx, nil, minStake, payload)
	mine(deploy)
	lock := A.Chain.GetReceipt(deploy.Hash()).ContractAddress
	mine(call(a[1], lock, "push", big.NewInt(0))) // no voting, no result: unlocked for refund, refund block = this block
	if st := A.ReadState().State.GetContractValue(lock, []byte("state")); len(st) != 1 || st[0] != 4 {
		t.Fatalf("HARNESS: lock state %x, expected unlocked_refund", st)
	}
	deposit := func(x *sim.Actor, dna int64) *types.Transaction { return call(x, lock, "deposit", sim.Dna(dna)) }
	txs := []*types.Transaction{deposit(a[2], 20), deposit(a[3], 21), deposit(a[1], 22), deposit(a[4], 23), call(a[4], lock, "refund", big.NewInt(0))}
	builder, b := propose(txs...)
	if last := b.Body.Transactions[len(txs)-1]; last.Hash() != txs[len(txs)-1].Hash() {
		t.Fatalf("HARNESS: refund is not the last tx of the block")
	}
	seen := map[string]bool{}
	for i := 0; i < 16; i++ {
		cs, err := A.AppState.ForCheck(A.Chain.Head.Height())
		if err != nil {
			t.Fatalf("HARNESS: %v", err)
		}
		recs, err := A.Chain.VerifProcessTxs(cs, b.Body.Transactions, b.Header)
		if err != nil {
			t.Fatalf("HARNESS: processing the block's txs: %v", err)
		}
		if len(recs) != len(txs) {
			t.Fatalf("HARNESS: %d receipts for %d txs", len(recs), len(txs))
		}
		var all []byte
		for _, r := range recs {
			if !r.Success {
				t.Fatalf("HARNESS: %s failed in the fixed history: %v", r.Method, r.Error)
			}
			rb, _ := r.ToBytes()
			all = append(append(all, rb...), 0xff)
		}
		if i == 0 && len(recs[len(recs)-1].Events) != 4 {
			t.Fatalf("HARNESS: refund emitted %d events, expected one per deposit (4)", len(recs[len(recs)-1].Events))
		}
		seen[string(all)] = true
	}
	evid.Count("known.same-block-deposits-then-refund.executions-compared")
	evid.NonTrivial("known|deposit x4 + refund in one block")
	if len(seen) > 1 {
		kf.Report(t, "C15", "c15.same-block-store-writes-iterated-in-map-order", "deposit by a2, a3, a1, a4 and refund on one RefundableOracleLock in one block: 16 executions of the block's transactions on the same parent state gave %d different receipt lists (order of the refund events)", len(seen))
		return
	}
	if err := builder.AddBlock(b); err != nil {
		t.Fatalf("block with four deposits and a refund refused by its own builder: %v", err)
	}
	if err := A.AddBlock(b); err != nil {
		t.Fatalf("block with four deposits and a refund refused by a second replica: %v", err)
	}
}

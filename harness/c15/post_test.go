package c15

import (
	"bytes"
	"fmt"
	"math/big"

	"github.com/idena-network/idena-go/common"
)

// Contract-specific witnesses that a SUCCESSFUL execution really applied its writes and transfers. They are
// independent of the environment's write buffers (which the generic oracle uses as the description of "its writes"):
// each states a fact the contract's own source promises for a well-typed call.

func postOwnerIs(owner common.Address) func(c *txCase) string {
	return func(c *txCase) string {
		v, ok := c.with.store[storeKey(c.rec.ContractAddress, "owner")]
		if !ok || !bytes.Equal(v, owner.Bytes()) {
			return fmt.Sprintf("deployed contract's owner key is %x (present=%v), deployer is %x", v, ok, owner.Bytes())
		}
		return ""
	}
}

// postReceived: dest's balance grew by exactly amount (only stated when dest plays no other role in the tx).
func postReceived(dest []byte, amount []byte) func(c *txCase) string {
	return func(c *txCase) string {
		if len(dest) != common.AddressLength || amount == nil {
			return ""
		}
		var d common.Address
		d.SetBytes(dest)
		if d == c.sender || d == c.proposer || d == *c.tx.To {
			return ""
		}
		want := new(big.Int).SetBytes(amount)
		if got := new(big.Int).Sub(c.with.bal(d), c.without.bal(d)); got.Cmp(want) != 0 {
			return fmt.Sprintf("transfer of %v to %s succeeded but its balance changed by %v", want, c.w.Name(d), got)
		}
		return ""
	}
}

func postStoreEquals(key string, value []byte) func(c *txCase) string {
	return func(c *txCase) string {
		v, ok := c.with.store[storeKey(*c.tx.To, key)]
		if !ok || !bytes.Equal(v, value) {
			return fmt.Sprintf("store key %q is %x (present=%v) after the successful call, expected %x", key, v, ok, value)
		}
		return ""
	}
}

func postStakeGrewByAmount() func(c *txCase) string {
	return func(c *txCase) string {
		a := c.tx.AmountOrZero()
		if got := new(big.Int).Sub(c.with.cStake(*c.tx.To), c.without.cStake(*c.tx.To)); got.Cmp(a) != 0 {
			return fmt.Sprintf("addStake with %v succeeded but the contract stake changed by %v", a, got)
		}
		return ""
	}
}

// postBigCounterMoved: a big-endian counter in the store moved by delta (sign +1 / -1) x amount.
func postBigCounterMoved(key string, amount *big.Int, sign int) func(c *txCase) string {
	return func(c *txCase) string {
		k := storeKey(*c.tx.To, key)
		before := new(big.Int).SetBytes(c.without.store[k])
		after := new(big.Int).SetBytes(c.with.store[k])
		want := new(big.Int).Set(before)
		if sign > 0 {
			want.Add(want, amount)
		} else {
			want.Sub(want, amount)
		}
		if after.Cmp(want) != 0 {
			return fmt.Sprintf("store counter %q went %v -> %v, expected %v", key, before, after, want)
		}
		return ""
	}
}

func allOf(fs ...func(c *txCase) string) func(c *txCase) string {
	return func(c *txCase) string {
		for _, f := range fs {
			if f == nil {
				continue
			}
			if m := f(c); m != "" {
				return m
			}
		}
		return ""
	}
}

func leU64(b []byte) (uint64, bool) {
	if len(b) != 8 {
		return 0, false
	}
	var r uint64
	for i := 7; i >= 0; i-- {
		r = r<<8 | uint64(b[i])
	}
	return r, true
}

// postSum: sum_func.invoke(x, y) asks the function contract for inc(x) and stores inc(x)+y under "sum" in its
// callback; stated when both sub-actions (the call and the callback) succeeded.
func postSum(xb, yb []byte) func(c *txCase) string {
	return func(c *txCase) string {
		x, okx := leU64(xb)
		y, oky := leU64(yb)
		n := decodeActionResult(c.rec.ActionResult)
		if !okx || !oky || n == nil || len(n.Subs) != 2 || !n.Subs[0].Success || !n.Subs[1].Success || n.Subs[0].Method != "inc" {
			return ""
		}
		v, ok := c.with.store[storeKey(*c.tx.To, "sum")]
		got, _ := leU64(v)
		if !ok || got != x+1+y {
			return fmt.Sprintf("invoke(%d,%d): call and callback succeeded but the stored sum is %x (present=%v), expected %d", x, y, v, ok, x+1+y)
		}
		return ""
	}
}

package c15

import (
	"fmt"
	"os"
	"syscall"
	"math/big"
	"testing"
	"time"

	"github.com/idena-network/idena-go/blockchain/attachments"
	"github.com/idena-network/idena-go/blockchain/fee"
	"github.com/idena-network/idena-go/blockchain/types"
	"github.com/idena-network/idena-go/blockchain/validation"
	"github.com/idena-network/idena-go/common"
	"github.com/idena-network/idena-go/core/state"
	"github.com/idena-network/idena-go/vm/wasm/testdata"
	"github.com/golang/protobuf/proto"
	models "github.com/idena-network/idena-wasm-binding/lib/protobuf"
	"pgregory.net/rapid"

	"verifharness/internal/evid"
	"verifharness/internal/sim"
)

func TestMain(m *testing.M) {
	// the WASM runtime (prebuilt library) prints debug traces straight to fd 1 when cfg.IsDebug is set (the bundled
	// test binaries import env.debug and only instantiate in debug mode); keep the test's own output on the real
	// stdout and send fd 1 to /dev/null
	if fd, err := syscall.Dup(1); err == nil {
		if null, err := os.OpenFile(os.DevNull, os.O_WRONLY, 0); err == nil {
			if syscall.Dup2(int(null.Fd()), 1) == nil {
				os.Stdout = os.NewFile(uintptr(fd), "stdout")
			}
		}
	}
	evid.Main(m)
}

func printAR(a *models.ActionResult, ind string) {
	ia := a.InputAction
	if ia == nil {
		ia = &models.Action{}
	}
	fmt.Printf("%saction type=%d method=%q amount=%v gasLimit=%d | success=%v err=%q gasUsed=%d remaining=%d contract=%x out=%d\n", ind, ia.ActionType, ia.Method, new(big.Int).SetBytes(ia.Amount), ia.GasLimit, a.Success, a.Error, a.GasUsed, a.RemainingGas, a.Contract, len(a.OutputData))
	for _, s := range a.SubActionResults {
		printAR(s, ind+"   ")
	}
}

func TestProbe(t *testing.T) {
	rapid.Check(t, func(t *rapid.T) {
		p := sim.GenParams(t, 4, 4)
		p.Profile = "v12"
		p.CeremonyIn = 100000000
		for i := range p.States {
			p.States[i] = state.Verified
			p.Balances[i] = sim.Dna(100000)
			p.Stakes[i] = sim.Dna(100)
		}
		w := sim.NewWorld(p)
		r, err := w.AddReplica("A", w.God.Key, nil)
		if err != nil {
			t.Fatalf("replica: %v", err)
		}
		r.Cfg.IsDebug = true
		w.Advance(20 * time.Second)
		if err := r.AddBlock(r.Propose().Block); err != nil {
			t.Fatalf("first: %v", err)
		}
		s := r.ReadState()
		fmt.Printf("feePerGas=%v network=%d canPropose=%v\n", s.State.FeePerGas(), s.ValidatorsCache.NetworkSize(), r.CanPropose())
		var incAddr common.Address
		for step, name := range []string{"inc", "sum", "erc20", "sft", "tc"} {
			var code []byte
			switch name {
			case "inc":
				code, _ = testdata.IncFunc()
			case "sum":
				code, _ = testdata.SumFunc()
			case "erc20":
				code, _ = testdata.Erc20()
			case "sft":
				code, _ = testdata.SharedFungibleToken()
			case "tc":
				code, _ = testdata.TestCases()
			}
			w.Advance(20 * time.Second)
			s := r.ReadState()
			sender := w.Actors[1]
			var dargs [][]byte
			if name == "sum" {
				dargs = [][]byte{incAddr.Bytes()}
			}
			if name == "sft" {
				dargs = [][]byte{sender.Addr.Bytes(), common.Address{0xA}.Bytes()}
			}
			att := attachments.CreateDeployContractAttachment(common.Hash{}, code, []byte{byte(step)}, dargs...)
			tx := &types.Transaction{Type: types.DeployContractTx, Epoch: s.State.Epoch(), AccountNonce: s.State.GetNonce(sender.Addr) + 1, Amount: big.NewInt(0)}
			tx.Payload, _ = att.ToBytes()
			fpg := s.State.FeePerGas()
			intr := fee.CalculateFee(s.ValidatorsCache.NetworkSize(), fpg, tx)
			tx.MaxFee = new(big.Int).Add(intr, new(big.Int).Mul(fpg, big.NewInt(3000000)))
			stx, _ := types.SignTx(tx, sender.Key)
			intr = fee.CalculateFee(s.ValidatorsCache.NetworkSize(), fpg, stx)
			err := r.Pool.AddExternalTxs(validation.MempoolTx, stx)
			fmt.Printf("%s: payload=%d intrinsic=%v maxFee=%v pool err=%v\n", name, len(tx.Payload), intr, tx.MaxFee, err)
			b := r.Propose().Block
			fmt.Printf("  block txs=%d\n", len(b.Body.Transactions))
			if err := r.AddBlock(b); err != nil {
				t.Fatalf("add: %v", err)
			}
			rec := r.Chain.GetReceipt(stx.Hash())
			if rec != nil {
				fmt.Printf("  receipt success=%v gasUsed=%d gasCost=%v addr=%s err=%v events=%d\n", rec.Success, rec.GasUsed, rec.GasCost, rec.ContractAddress.Hex(), rec.Error, len(rec.Events))
			} else {
				fmt.Printf("  no receipt\n")
				continue
			}
			if name == "inc" {
				incAddr = rec.ContractAddress
			}
			// call
			var catt *attachments.CallContractAttachment
			switch name {
			case "inc":
				catt = attachments.CreateCallContractAttachment("inc", common.ToBytes(uint64(5)))
			case "sum":
				catt = attachments.CreateCallContractAttachment("invoke", common.ToBytes(uint64(1)), common.ToBytes(uint64(5)))
			case "erc20":
				catt = attachments.CreateCallContractAttachment("transfer", w.Actors[2].Addr.Bytes(), big.NewInt(777).Bytes())
			case "sft":
				catt = attachments.CreateCallContractAttachment("transferTo", w.Actors[2].Addr.Bytes(), big.NewInt(0).Bytes())
			case "tc":
				c2, _ := testdata.IncFunc()
				catt = attachments.CreateCallContractAttachment("test", common.ToBytes(uint32(1)), c2)
			}
			w.Advance(20 * time.Second)
			s = r.ReadState()
			ca := rec.ContractAddress
			tx = &types.Transaction{Type: types.CallContractTx, To: &ca, Epoch: s.State.Epoch(), AccountNonce: s.State.GetNonce(sender.Addr) + 1, Amount: sim.Dna(20000)}
			tx.Payload, _ = catt.ToBytes()
			fpg = s.State.FeePerGas()
			intr = fee.CalculateFee(s.ValidatorsCache.NetworkSize(), fpg, tx)
			tx.MaxFee = new(big.Int).Add(intr, new(big.Int).Mul(fpg, big.NewInt(3000000)))
			stx, _ = types.SignTx(tx, sender.Key)
			err = r.Pool.AddExternalTxs(validation.MempoolTx, stx)
			b = r.Propose().Block
			fmt.Printf("  call: pool err=%v block txs=%d fpg=%v\n", err, len(b.Body.Transactions), fpg)
			if err := r.AddBlock(b); err != nil {
				t.Fatalf("add: %v", err)
			}
			rec = r.Chain.GetReceipt(stx.Hash())
			if rec != nil {
				fmt.Printf("  call receipt success=%v gasUsed=%d gasCost=%v addr=%s err=%v events=%d bal=%v\n", rec.Success, rec.GasUsed, rec.GasCost, rec.ContractAddress.Hex(), rec.Error, len(rec.Events), r.ReadState().State.GetBalance(ca))
				var ar models.ActionResult
				if err := proto.Unmarshal(rec.ActionResult, &ar); err == nil {
					printAR(&ar, "      ")
				}
				r.ReadState().State.IterateOverAccounts(func(a common.Address, acc state.Account) {
					if acc.Contract != nil {
						fmt.Printf("     contract %s bal=%v stake=%v\n", a.Hex(), acc.Balance, acc.Contract.Stake)
					}
				})
			}
		}
	})
}

package c15

import (
	"bytes"
	"fmt"
	"math/big"
	"os"
	"sort"
	"strings"
	"syscall"
	"testing"
	"time"

	"github.com/idena-network/idena-go/blockchain/attachments"
	"github.com/idena-network/idena-go/blockchain/fee"
	"github.com/idena-network/idena-go/blockchain/types"
	"github.com/idena-network/idena-go/blockchain/validation"
	"github.com/idena-network/idena-go/common"
	"github.com/idena-network/idena-go/common/math"
	"github.com/idena-network/idena-go/core/appstate"
	"github.com/idena-network/idena-go/core/state"
	"github.com/idena-network/idena-go/vm/env"
	"github.com/idena-network/idena-go/vm/wasm"
	"github.com/shopspring/decimal"
	"pgregory.net/rapid"

	"verifharness/internal/evid"
	"verifharness/internal/kf"
	"verifharness/internal/sim"
)

func TestMain(m *testing.M) {
	// The bundled WASM binaries import env.debug and instantiate only when the node runs with cfg.IsDebug; in that mode
	// the prebuilt runtime prints traces straight to fd 1. Keep the test's own output on the real stdout and send
	// fd 1 to /dev/null.
	if fd, err := syscall.Dup(1); err == nil {
		if null, err := os.OpenFile(os.DevNull, os.O_WRONLY, 0); err == nil {
			if syscall.Dup2(int(null.Fd()), 1) == nil {
				os.Stdout = os.NewFile(uintptr(fd), "stdout")
			}
		}
	}
	evid.Main(m)
}

func (p *prog) copyOf(name string) *sim.Replica {
	r := &sim.Replica{W: p.w, Name: name, Key: p.A.Key, Addr: p.A.Addr, DB: sim.CopyDB(p.A.DB), Ipfs: p.A.Ipfs, Loc: p.buildLoc}
	if err := r.Start(); err != nil {
		p.t.Fatalf("start copy: %v", err)
	}
	r.Cfg.IsDebug = true
	return r
}

// HOST TIME ZONES. The copies that build the blocks run under one host time zone, the main replica (the second node that
// validates and inserts every block) under another one; sim.Replica switches time.Local around every piece of a replica's
// work. Whatever a contract execution derives from the host zone (a rendered time in a failure text is part of the receipt)
// then shows as a block the second node refuses.
var hostZones = []*time.Location{time.UTC, time.FixedZone("UTC+14", 14*3600), time.FixedZone("UTC-12", -12*3600), time.FixedZone("UTC+9", 9*3600),
	time.FixedZone("UTC+5:45", 5*3600+45*60), time.FixedZone("UTC-3:30", -(3*3600 + 30*60))}

// drawZones: 1 program in 10 keeps both nodes on UTC; otherwise the second node's zone differs from the builder's
// (builder on UTC - the usual server setting - in 3 of 10, a drawn zone in 6 of 10).
func (p *prog) drawZones() (builder, second *time.Location) {
	k := p.draw("hostZones", 10)
	if k == 0 {
		return time.UTC, time.UTC
	}
	b := 0
	if k > 3 {
		b = p.draw("builderZone", len(hostZones))
	}
	v := (b + 1 + p.draw("secondNodeZone", len(hostZones)-1)) % len(hostZones)
	return hostZones[b], hostZones[v]
}

// receiptsUnder executes the block's transactions on a fresh check state of the main replica's head with the host time
// zone set to loc (diagnosis of a refusal).
func (p *prog) receiptsUnder(loc *time.Location, b *types.Block) []*types.TxReceipt {
	prev := time.Local
	if prev != loc {
		time.Local = loc
	}
	defer func() {
		if time.Local != prev {
			time.Local = prev
		}
	}()
	cs, err := p.A.AppState.ForCheck(p.A.Chain.Head.Height())
	if err != nil {
		return nil
	}
	recs, err := p.A.Chain.VerifProcessTxs(cs, b.Body.Transactions, b.Header)
	if err != nil {
		return nil
	}
	return recs
}

// zoneDependence: "" or the first receipt of the block that differs between an execution under the builder's host time
// zone and one under the second node's.
func (p *prog) zoneDependence(b *types.Block) string {
	if p.buildLoc == p.A.Loc {
		return ""
	}
	rb, rv := p.receiptsUnder(p.buildLoc, b), p.receiptsUnder(p.A.Loc, b)
	if rb == nil || len(rb) != len(rv) {
		return ""
	}
	for i := range rb {
		x, _ := rb[i].ToBytes()
		y, _ := rv[i].ToBytes()
		if string(x) != string(y) {
			return fmt.Sprintf("receipt #%d (method %q, success=%v) depends on the HOST TIME ZONE of the executing node: under %s its error is %q, under %s it is %q",
				i, rb[i].Method, rb[i].Success, p.buildLoc, fmt.Sprint(rb[i].Error), p.A.Loc, fmt.Sprint(rv[i].Error))
		}
	}
	return ""
}

// PROCESS-WIDE CONSTANTS. The repository hands out shared *big.Int values (common.Big0 is what every getter returns for
// a missing balance / stake, and what BurnAll stores as the balance of a contract). A state transition that writes INTO
// one of them (an in-place Add on a balance object that happens to be the shared zero) changes "zero" for the whole
// process: coins out of nowhere in every later block. Checked after every block built or inserted and after every step;
// a poisoned constant is reported at once, and repaired so that the shrinker works in a sane process.
var sharedConstants = []struct {
	name string
	v    *big.Int
	want *big.Int
}{
	{"common.Big0", common.Big0, nil}, {"common.Big1", common.Big1, nil}, {"common.Big2", common.Big2, nil}, {"common.Big3", common.Big3, nil},
	{"common.Big32", common.Big32, nil}, {"common.Big256", common.Big256, nil}, {"common.Big257", common.Big257, nil}, {"common.DnaBase", common.DnaBase, nil},
	{"fee.MinFeePerGas", fee.MinFeePerGas, nil},
}

func init() {
	for i := range sharedConstants {
		sharedConstants[i].want = new(big.Int).Set(sharedConstants[i].v)
	}
}

// poisonedConstants lists the shared constants that no longer hold their value, and restores them.
func poisonedConstants() []string {
	var bad []string
	for _, c := range sharedConstants {
		if c.v.Cmp(c.want) != 0 {
			bad = append(bad, fmt.Sprintf("%s = %v (must be %v)", c.name, c.v, c.want))
			c.v.Set(c.want)
		}
	}
	return bad
}

func (p *prog) constantsIntact(where func() string) {
	if bad := poisonedConstants(); len(bad) > 0 {
		evid.Count("constants.poisoned")
		p.t.Fatalf("a process-wide constant was written into: %s after %s\n  (a state transition added in place into a shared *big.Int; from here on every balance / stake read that returns the shared value - missing accounts, identities without stake, a contract whose balance was burnt - carries that amount in this process: coins from nowhere, and a node that executes the block twice computes two different roots)",
			strings.Join(bad, ", "), where())
	}
}

// propose / addBlock: the replica's block building / insertion followed by the check of the process-wide constants.
func (p *prog) propose(r *sim.Replica) *types.Block {
	b := r.Propose().Block
	p.constantsIntact(func() string { return fmt.Sprintf("replica %q built %s", r.Name, p.txList(b)) })
	return b
}

func (p *prog) addBlock(r *sim.Replica, b *types.Block) error {
	err := r.AddBlock(b)
	p.constantsIntact(func() string { return fmt.Sprintf("replica %q executed %s (result: %v)", r.Name, p.txList(b), err) })
	return err
}

func (p *prog) txList(b *types.Block) string {
	d := fmt.Sprintf("block %d with %d txs", b.Height(), len(b.Body.Transactions))
	for i, x := range b.Body.Transactions {
		from, _ := types.Sender(x)
		to := "-"
		if x.To != nil {
			to = p.w.Name(*x.To)
		}
		d += fmt.Sprintf("\n    #%d %s %s -> %s amount=%v nonce=%d", i, sim.TxTypeNames[x.Type], p.w.Name(from), to, x.Amount, x.AccountNonce)
	}
	return d
}

// plainBlocks lets the proposer build n blocks without transactions (moves the height).
func (p *prog) plainBlocks(n int) {
	for i := 0; i < n; i++ {
		if i > 0 {
			p.w.Advance(10 * time.Second)
		}
		b := p.propose(p.A)
		if err := p.addBlock(p.A, b); err != nil {
			p.t.Fatalf("plain block refused: %v", err)
		}
	}
}

// fund sends coins to a contract with an ordinary SendTx (how voting / lock contracts are funded).
func (p *prog) fund(op *opSpec) {
	s := p.A.ReadState()
	a := op.target.addr
	tx := &types.Transaction{Type: types.SendTx, To: &a, Epoch: s.State.Epoch(), AccountNonce: s.State.GetNonce(op.sender.Addr) + 1, Amount: op.amount}
	fpg := nz(s.State.FeePerGas())
	if min := fee.GetFeePerGasForNetwork(s.ValidatorsCache.NetworkSize()); fpg.Cmp(min) < 0 {
		fpg = min
	}
	feeFor(tx, s.ValidatorsCache.NetworkSize(), fpg, 100, nil)
	stx, _ := types.SignTx(tx, op.sender.Key)
	c := p.copyOf("fund")
	if err := c.Pool.AddExternalTxs(validation.MempoolTx, stx); err != nil {
		evid.Count("step.fund.refused")
		p.plainBlocks(1)
		return
	}
	b := p.propose(c)
	if err := p.addBlock(p.A, b); err != nil {
		p.t.Fatalf("block with a SendTx refused: %v", err)
	}
	evid.Count("step.fund")
}

func payClass(op *opSpec, minStake, bal *big.Int) string {
	a := op.amount
	switch {
	case a == nil:
		return "nil"
	case a.Sign() == 0:
		return "0"
	case a.Cmp(big.NewInt(1)) == 0:
		return "1"
	case a.Cmp(bal) > 0:
		return ">balance"
	case a.Cmp(bal) == 0:
		return "=balance"
	case op.op == "deploy" && a.Cmp(minStake) == 0:
		return "=minStake"
	case op.op == "deploy" && a.Cmp(new(big.Int).Sub(minStake, big.NewInt(1))) == 0:
		return "minStake-1"
	case new(big.Int).Mul(a, big.NewInt(2)).Cmp(bal) > 0:
		return "most-of-balance"
	}
	return "some"
}

func errClass(err error) string {
	if err == nil {
		return ""
	}
	s := err.Error()
	if strings.Contains(strings.ToLower(s), "gas") {
		return "out-of-gas"
	}
	return "error"
}

// mkSend builds a signed plain SendTx (MaxFee = the current fee + a little).
func (p *prog) mkSend(from *sim.Actor, to common.Address, amount *big.Int, nonceOffset int) *types.Transaction {
	s := p.A.ReadState()
	tx := &types.Transaction{Type: types.SendTx, To: &to, Epoch: s.State.Epoch(), AccountNonce: p.nextNonce(from) + uint32(nonceOffset), Amount: amount}
	fpg := nz(s.State.FeePerGas())
	if min := fee.GetFeePerGasForNetwork(s.ValidatorsCache.NetworkSize()); fpg.Cmp(min) < 0 {
		fpg = min
	}
	feeFor(tx, s.ValidatorsCache.NetworkSize(), fpg, 100, nil)
	stx, err := types.SignTx(tx, from.Key)
	if err != nil {
		p.t.Fatalf("sign: %v", err)
	}
	return stx
}

// spreadNonces gives the senders pairwise different nonces (one block of self-transfers: sender i sends i of them), so
// that the position of a tx inside a multi-tx block (the builder orders by nonce) can be chosen by choosing senders.
func (p *prog) spreadNonces() {
	c := p.copyOf("spread")
	n := 0
	for i, a := range p.senders {
		for k := 0; k < i; k++ {
			if err := c.Pool.AddExternalTxs(validation.MempoolTx, p.mkSend(a, a.Addr, big.NewInt(0), k)); err == nil {
				n++
			}
		}
	}
	b := p.propose(c)
	if err := p.addBlock(p.A, b); err != nil {
		p.t.Fatalf("block of self-transfers refused: %v", err)
	}
}

// prefixItem is a transaction placed in the same block BEFORE the tx under test.
type prefixItem struct {
	tx    *types.Transaction
	op    *opSpec // nil for a plain SendTx
	shape string
}

// drawPrefix draws 0-3 transactions that will precede the tx under test in its block: contract steps of other senders
// on other contracts, plain SendTxs crediting an address (an actor, the sender under test, a contract), small SendTxs of
// the sender under test itself. The block builder orders by nonce, so only senders whose next nonce is below the nonce of
// the tx under test (and pairwise different) qualify; same-sender txs shift the nonce of the tx under test.
func (p *prog) drawPrefix(op *opSpec) []*prefixItem {
	odds := p.chainOdds
	if op.op == "terminate" {
		odds = 25 + odds // dropping a contract in the block in which it was written to: the chain's natural last step
	}
	if op.target != nil && !op.target.dead && p.chance("chainShape", odds) {
		if items := p.drawChain(op); len(items) > 0 {
			op.shape = "chain"
			return items
		}
	}
	if p.chance("prefixNone", 50) {
		return nil
	}
	want := 1 + p.draw("prefixLen", 3)
	savedLast, savedCtx, savedSelf := p.last, p.ctxAddrs, p.selfPicked
	defer func() { p.last, p.ctxAddrs, p.selfPicked = savedLast, savedCtx, savedSelf }()
	var items []*prefixItem
	used := map[uint32]bool{}
	offsets := map[int]int{} // txs already placed per sender index
	top := p.nextNonce(op.sender)
	admit := func(a *sim.Actor) bool {
		if a.Idx == op.sender.Idx {
			return !op.pinNonce
		}
		n := p.nextNonce(a) + uint32(offsets[a.Idx])
		return n < top && !used[n]
	}
	place := func(a *sim.Actor) int {
		off := offsets[a.Idx]
		offsets[a.Idx]++
		if a.Idx == op.sender.Idx {
			op.nonceOffset++
		} else {
			used[p.nextNonce(a)+uint32(off)] = true
		}
		return off
	}
	for i := 0; i < want; i++ {
		switch k := p.draw("prefixShape", 10); {
		case k < 5:
			// a contract step of another sender on another contract
			var others []*contract
			for _, c := range p.contracts {
				if !c.dead && (op.target == nil || c != op.target) {
					others = append(others, c)
				}
			}
			if len(others) == 0 {
				continue
			}
			c := others[p.draw("prefixContract", len(others))]
			p.selfPicked = false
			var pop *opSpec
			if p.chance("prefixSmart", 85) {
				pop = p.smartStep(c)
			} else {
				pop = p.wildStep(c)
			}
			if pop.special != "" || pop.sender.Idx == op.sender.Idx || !admit(pop.sender) {
				continue
			}
			pop.nonceOffset = place(pop.sender)
			tx, _ := p.build(pop)
			items = append(items, &prefixItem{tx: tx, op: pop, shape: "contract"})
		case k < 8:
			// a plain SendTx that credits somebody the contract txs of this block may pay / charge
			var from []*sim.Actor
			for _, a := range p.senders {
				if a.Idx != op.sender.Idx && admit(a) {
					from = append(from, a)
				}
			}
			if len(from) == 0 {
				continue
			}
			a := from[p.draw("prefixSendFrom", len(from))]
			var to common.Address
			switch p.draw("prefixSendTo", 4) {
			case 0:
				to = op.sender.Addr
			case 1:
				if op.target != nil {
					to = op.target.addr
				} else {
					to = p.actorAddr("prefixSendToActor")
				}
			default:
				to = p.actorAddr("prefixSendToActor")
			}
			off := place(a)
			items = append(items, &prefixItem{tx: p.mkSend(a, to, sim.Dna(int64(1+p.draw("prefixSendDna", 50))), off), shape: "send-credit"})
		default:
			// the sender under test moves some coins first (same sender, consecutive nonces)
			if !admit(op.sender) {
				continue
			}
			off := place(op.sender)
			items = append(items, &prefixItem{tx: p.mkSend(op.sender, p.actorAddr("prefixOwnSendTo"), sim.Dna(int64(1+p.draw("prefixOwnSendDna", 50))), off), shape: "same-sender-send"})
		}
	}
	return items
}

// drawChain: SAME-CONTRACT CHAIN. 1-4 further steps on the very contract the tx under test addresses precede it in the
// block (one VM and one environment serve the whole block, so whatever an earlier step left behind meets the later ones):
// entries of the contract's own table, state-aware steps, wild steps, a SendTx funding the contract. They are submitted by
// the sender under test itself (consecutive nonces) or by senders whose nonce lies below. 3 chains in 4 keep only steps
// that would succeed when run one after the other on the parent state (steering by dry run: an earlier step that wrote
// something, then the step under test), the others take the steps as drawn. A termination is mostly left to the end.
func (p *prog) drawChain(op *opSpec) []*prefixItem {
	c := op.target
	want := 1 + p.draw("chainLen", 4)
	savedLast, savedCtx, savedSelf := p.last, p.ctxAddrs, p.selfPicked
	defer func() { p.last, p.ctxAddrs, p.selfPicked = savedLast, savedCtx, savedSelf }()
	var items []*prefixItem
	used := map[uint32]bool{}
	offsets := map[int]int{}
	top := p.nextNonce(op.sender)
	admit := func(a *sim.Actor) bool {
		if a.Idx == op.sender.Idx {
			return !op.pinNonce
		}
		n := p.nextNonce(a) + uint32(offsets[a.Idx])
		return n < top && !used[n]
	}
	place := func(a *sim.Actor) {
		off := offsets[a.Idx]
		offsets[a.Idx]++
		if a.Idx == op.sender.Idx {
			op.nonceOffset++
		} else {
			used[p.nextNonce(a)+uint32(off)] = true
		}
	}
	s := p.A.ReadState()
	fpg, netSize := nz(s.State.FeePerGas()), s.ValidatorsCache.NetworkSize()
	hdr := &types.Header{ProposedHeader: &types.ProposedHeader{Height: p.A.Head().Height() + 1, Time: p.now(), ParentHash: p.A.Head().Hash()}}
	var scratch *appstate.AppState
	if p.chance("chainStepsThatSucceed", 75) {
		scratch, _ = checkStateAfter(p.A, nil, hdr)
	}
	// CROWD: a quarter of the chains on an embedded contract are one entry of its table sent by several different senders
	// (many depositors / voters / stakers act on the contract in the same block), then the step under test
	var crowd []*sim.Actor
	crowdEntry := 0
	if c.emb != nil && p.chance("chainCrowd", 25) {
		crowdEntry = p.draw("crowdEntry", len(c.emb.methods))
		want = 2 + p.draw("crowdSize", 3)
		for _, a := range p.senders {
			if a.Idx != op.sender.Idx && admit(a) {
				crowd = append(crowd, a)
			}
		}
		for i := len(crowd) - 1; i > 0; i-- {
			j := p.draw("crowdOrder", i+1)
			crowd[i], crowd[j] = crowd[j], crowd[i]
		}
		if admit(op.sender) {
			crowd = append(crowd, op.sender)
		}
		if len(crowd) < 2 {
			crowd = nil
		} else {
			evid.Count("chain.gen.crowd")
		}
	}
	for tries := 0; len(items) < want && tries < 8*want; tries++ {
		var pop *opSpec
		if crowd != nil {
			if tries >= len(crowd) {
				break
			}
			if !admit(crowd[tries]) {
				continue
			}
			p.selfPicked = false
			pop = p.tableEntry(c, crowdEntry, crowd[tries])
		} else {
			pop = p.chainStep(c)
		}
		if pop.special == "fund" && pop.target == c && pop.amount != nil {
			if admit(pop.sender) {
				off := offsets[pop.sender.Idx]
				place(pop.sender)
				items = append(items, &prefixItem{tx: p.mkSend(pop.sender, c.addr, pop.amount, off), shape: "same-contract-funding"})
				if scratch != nil {
					scratch.State.AddBalance(c.addr, pop.amount)
				}
			}
			continue
		}
		if pop.special != "" || pop.target != c {
			continue
		}
		if pop.op == "terminate" && !p.chance("chainEarlyTermination", 25) {
			continue
		}
		if crowd == nil && (!admit(pop.sender) || admit(op.sender) && p.chance("chainOwnSender", 30)) {
			// the sender under test submits this step as well
			if !admit(op.sender) {
				continue
			}
			pop.sender = op.sender
		}
		pop.nonceOffset = offsets[pop.sender.Idx]
		tx, _ := p.build(pop)
		if scratch != nil {
			dr, err := dryRun(p.A, scratch, tx, hdr, gasLimitOf(netSize, fpg, tx))
			if err != nil || !dr.success {
				if err == nil && tx.Type == types.CallContractTx && tx.AmountOrZero().Sign() > 0 {
					// undo the escrow the dry run made on the scratch state
					scratch.State.AddBalance(pop.sender.Addr, tx.AmountOrZero())
					scratch.State.SubBalance(c.addr, tx.AmountOrZero())
				}
				evid.Count("chain.gen.candidate-would-fail")
				continue
			}
		}
		place(pop.sender)
		items = append(items, &prefixItem{tx: tx, op: pop, shape: "same-contract"})
	}
	return items
}

// drainPrefix: the sender under test first sends away nearly everything, leaving what the (already built) contract tx
// needs by size - amount + tips + intrinsic fee + `little` - but not the gas its max fee promises. The block builder
// must then leave the contract tx out (it validates the maximal cost against the balance at that point of the block).
func (p *prog) drainPrefix(op *opSpec, tx *types.Transaction) *prefixItem {
	s := p.A.ReadState()
	fpg, netSize := nz(s.State.FeePerGas()), s.ValidatorsCache.NetworkSize()
	keep := fee.CalculateFee(netSize, fpg, tx)
	keep.Add(keep, tx.AmountOrZero()).Add(keep, tx.TipsOrZero())
	switch p.draw("drainLittle", 3) {
	case 1:
		keep.Add(keep, big.NewInt(1))
	case 2:
		keep.Add(keep, new(big.Int).Mul(fpg, big.NewInt(int64(1+p.draw("drainGas", 50)))))
	}
	bal := p.balance(op.sender.Addr)
	var others []*sim.Actor
	for _, a := range p.senders {
		if a.Idx != op.sender.Idx {
			others = append(others, a)
		}
	}
	to := others[p.draw("drainTo", len(others))].Addr
	d := &types.Transaction{Type: types.SendTx, To: &to, Epoch: tx.Epoch, AccountNonce: tx.AccountNonce - 1, Amount: big.NewInt(0)}
	for i := 0; i < 4; i++ {
		d.MaxFee = fee.CalculateFee(netSize, fpg, d)
		d.Amount = new(big.Int).Sub(new(big.Int).Sub(bal, d.MaxFee), keep)
		if d.Amount.Sign() <= 0 {
			return nil
		}
	}
	stx, err := types.SignTx(d, op.sender.Key)
	if err != nil {
		p.t.Fatalf("sign: %v", err)
	}
	return &prefixItem{tx: stx, shape: "drain"}
}

// futureAddr: the address a deployment will create (embedded: hash(sender, epoch, nonce); WASM: hash(code hash, args,
// attachment nonce)); false if the payload is no deployment attachment.
func futureAddr(tx *types.Transaction, sender common.Address) (common.Address, bool) {
	att := attachments.ParseDeployContractAttachment(tx)
	if att == nil {
		return common.Address{}, false
	}
	if len(att.Code) > 0 {
		return wasm.CreateContractAddr(tx), true
	}
	return env.ComputeContractAddr(tx, sender), true
}

// namedAddrs: the 20-byte arguments of a contract tx (destinations it may pay, addresses it may store).
func namedAddrs(tx *types.Transaction) []common.Address {
	var args [][]byte
	switch tx.Type {
	case types.DeployContractTx:
		if att := attachments.ParseDeployContractAttachment(tx); att != nil {
			args = att.Args
		}
	case types.CallContractTx:
		if att := attachments.ParseCallContractAttachment(tx); att != nil {
			args = att.Args
		}
	case types.TerminateContractTx:
		if att := attachments.ParseTerminateContractAttachment(tx); att != nil {
			args = att.Args
		}
	}
	var res []common.Address
	for _, a := range args {
		if len(a) == common.AddressLength {
			var x common.Address
			x.SetBytes(a)
			res = append(res, x)
		}
	}
	return res
}

// closing: steps that close a life cycle - payout, burn of the remainder, drop of the contract. What comes after them in
// the same block meets a contract that has just paid out / burnt its balance / gone, so they get followers more often.
func closing(op *opSpec) bool {
	return op.op == "terminate" || op.method == "finishVoting" || op.method == "refund" || op.method == "push"
}

// drawPrefund: PRE-FUNDED FUTURE CONTRACT ADDRESS, same block. The address of a deployment is known in advance, so
// anybody can pay to it before the contract exists. A SendTx crediting the address the deployment under test will create
// is put in front of it: sent by another sender whose nonce lies below, or by the deployer himself right before the
// deployment (the deployment then carries the next nonce). Call it after the prefix was drawn and before the tx is built.
func (p *prog) drawPrefund(op *opSpec, prefix []*prefixItem) *prefixItem {
	s := p.A.ReadState()
	busy := map[common.Address]bool{}
	used := map[uint32]bool{}
	for _, it := range prefix {
		from, _ := types.Sender(it.tx)
		busy[from] = true
		used[it.tx.AccountNonce] = true
	}
	top := p.nextNonce(op.sender) + uint32(op.nonceOffset)
	var others []*sim.Actor
	for _, a := range p.senders {
		if n := p.nextNonce(a); a.Idx != op.sender.Idx && !busy[a.Addr] && n < top && !used[n] {
			others = append(others, a)
		}
	}
	amount := sim.Dna(int64(1 + p.draw("prefundDna", 800)))
	if p.chance("prefundTiny", 15) {
		amount = big.NewInt(int64(1 + p.draw("prefundWei", 1000)))
	}
	dummy := func(nonce uint32) *types.Transaction {
		return &types.Transaction{Type: op.typ, Epoch: s.State.Epoch(), AccountNonce: nonce, Payload: op.payload}
	}
	if len(others) > 0 && (op.pinNonce || p.chance("prefundByAnother", 50)) {
		addr, ok := futureAddr(dummy(top), op.sender.Addr)
		if !ok {
			return nil
		}
		a := others[p.draw("prefundFrom", len(others))]
		return &prefixItem{tx: p.mkSend(a, addr, amount, 0), shape: "prefund-future-address"}
	}
	if op.pinNonce {
		return nil
	}
	addr, ok := futureAddr(dummy(top+1), op.sender.Addr)
	if !ok {
		return nil
	}
	it := &prefixItem{tx: p.mkSend(op.sender, addr, amount, op.nonceOffset), shape: "prefund-future-address-by-the-deployer"}
	op.nonceOffset++
	return it
}

// prefundEarlier: PRE-FUNDED FUTURE CONTRACT ADDRESS, earlier block. Another sender pays to the address the deployment
// will create; the block is inserted, then the experiment runs as usual (the deployment keeps its nonce: no txs of the
// deployer are put in front of it).
func (p *prog) prefundEarlier(op *opSpec) {
	s := p.A.ReadState()
	addr, ok := futureAddr(&types.Transaction{Type: op.typ, Epoch: s.State.Epoch(), AccountNonce: p.nextNonce(op.sender), Payload: op.payload}, op.sender.Addr)
	if !ok {
		return
	}
	var others []*sim.Actor
	for _, a := range p.senders {
		if a.Idx != op.sender.Idx {
			others = append(others, a)
		}
	}
	a := others[p.draw("prefundEarlierFrom", len(others))]
	c := p.copyOf("prefund")
	if err := c.Pool.AddExternalTxs(validation.MempoolTx, p.mkSend(a, addr, sim.Dna(int64(1+p.draw("prefundEarlierDna", 800))), 0)); err != nil {
		return
	}
	b := p.propose(c)
	if err := p.addBlock(p.A, b); err != nil {
		p.t.Fatalf("block with a SendTx to a future contract address refused: %v", err)
	}
	op.pinNonce = true
	p.w.Advance(time.Duration(10+p.draw("prefundEarlierDt", 20)) * time.Second)
	evid.Count("step.prefund-future-address-in-an-earlier-block")
}

// drawFollowers: FOLLOWERS. 1-3 transactions that come AFTER the tx under test in its block: SendTxs crediting the
// contract it ran on (for a deployment: the address it creates) / an address named in its arguments / its sender / an
// actor, further steps on the same contract (its table, state-aware, wild - calls carrying an amount credit the contract
// before the VM runs), steps on other live contracts (a lock watching the voting that has just been finished, a wallet
// paying to the contract that has just been dropped). The builder orders by nonce: followers are sent by the sender under
// test itself (consecutive nonces) or by senders whose nonce lies above, pairwise different. Steps that close a life
// cycle (termination, finishVoting, refund, push) get followers in 70% of the cases, the others in 20%.
func (p *prog) drawFollowers(op *opSpec, tx *types.Transaction, prefix []*prefixItem) []*prefixItem {
	odds := 20
	if closing(op) {
		odds = 70
	}
	if !p.chance("followers", odds) {
		return nil
	}
	want := 1 + p.draw("followerCount", 3)
	savedLast, savedCtx, savedSelf := p.last, p.ctxAddrs, p.selfPicked
	defer func() { p.last, p.ctxAddrs, p.selfPicked = savedLast, savedCtx, savedSelf }()
	busy := map[common.Address]bool{}
	for _, it := range prefix {
		from, _ := types.Sender(it.tx)
		busy[from] = true
	}
	top := tx.AccountNonce
	used := map[uint32]bool{}
	offsets := map[int]int{}
	nonceOf := func(a *sim.Actor) (uint32, bool) {
		if a.Idx == op.sender.Idx {
			n := top + 1 + uint32(offsets[a.Idx])
			return n, !used[n]
		}
		n := p.nextNonce(a) + uint32(offsets[a.Idx])
		return n, !busy[a.Addr] && n > top && !used[n]
	}
	place := func(a *sim.Actor) int {
		n, _ := nonceOf(a)
		used[n] = true
		offsets[a.Idx]++
		return int(n - p.nextNonce(a))
	}
	admitted := func() []*sim.Actor {
		var res []*sim.Actor
		for _, a := range p.senders {
			if _, ok := nonceOf(a); ok {
				res = append(res, a)
			}
		}
		return res
	}
	var caddr *common.Address
	if op.target != nil {
		caddr = &op.target.addr
	} else if a, ok := futureAddr(tx, op.sender.Addr); ok {
		caddr = &a
	}
	named := namedAddrs(tx)
	credit := func(from *sim.Actor, to common.Address, amount *big.Int, role string) *prefixItem {
		off := place(from)
		return &prefixItem{tx: p.mkSend(from, to, amount, off), shape: "follower-send-to-" + role}
	}
	var items []*prefixItem
	for tries := 0; len(items) < want && tries < 6*want; tries++ {
		k := p.draw("followerShape", 20)
		if k >= 8 && k < 15 && op.target == nil {
			k = 0 // a deployment: its contract is not known to the harness yet, pay to its address instead
		}
		switch {
		case k < 8:
			cand := admitted()
			if len(cand) == 0 {
				continue
			}
			from := cand[p.draw("followerSendFrom", len(cand))]
			to, role := p.actorAddr("followerSendToActor"), "an-actor"
			switch j := p.draw("followerSendTo", 10); {
			case j < 6 && caddr != nil:
				to, role = *caddr, "the-contract"
			case j < 8 && len(named) > 0:
				to, role = named[p.draw("followerSendToNamed", len(named))], "a-named-address"
			case j < 9:
				to, role = op.sender.Addr, "the-sender"
			}
			amount := sim.Dna(int64(1 + p.draw("followerSendDna", 50)))
			if p.chance("followerSendTiny", 20) {
				amount = []*big.Int{big.NewInt(1), p.dust(), new(big.Int).Add(p.dust(), big.NewInt(1))}[p.draw("followerSendTinyAmount", 3)]
			}
			items = append(items, credit(from, to, amount, role))
		default:
			var pop *opSpec
			shape := "follower-same-contract"
			if k < 15 {
				p.selfPicked = false
				if op.target.dead {
					pop = p.wildStep(op.target)
				} else {
					pop = p.chainStep(op.target)
				}
			} else {
				var others []*contract
				for _, c := range p.contracts {
					if !c.dead && c != op.target {
						others = append(others, c)
					}
				}
				if len(others) == 0 {
					continue
				}
				c := others[p.draw("followerContract", len(others))]
				p.selfPicked = false
				if p.chance("followerSmart", 85) {
					pop = p.smartStep(c)
				} else {
					pop = p.wildStep(c)
				}
			}
			if pop.special == "fund" && pop.target != nil && pop.amount != nil {
				if _, ok := nonceOf(pop.sender); ok {
					role := "another-contract"
					if pop.target == op.target {
						role = "the-contract"
					}
					items = append(items, credit(pop.sender, pop.target.addr, pop.amount, role))
				}
				continue
			}
			if pop.special != "" || pop.target == nil {
				continue
			}
			if pop.target != op.target {
				shape = "follower-other-contract"
			}
			if _, ok := nonceOf(pop.sender); !ok {
				cand := admitted()
				if len(cand) == 0 {
					continue
				}
				pop.sender = cand[p.draw("followerSender", len(cand))]
			}
			pop.nonceOffset = place(pop.sender)
			ftx, _ := p.build(pop)
			items = append(items, &prefixItem{tx: ftx, op: pop, shape: shape})
		}
	}
	return items
}

// noteSuccess updates the harness' notes after a successful contract tx (steering only).
func (p *prog) noteSuccess(op *opSpec, rec *types.TxReceipt, makeLast bool) {
	if op.created != nil {
		op.created.addr = rec.ContractAddress
		known := false
		for _, x := range p.contracts {
			if x.addr == rec.ContractAddress {
				known = true
			}
		}
		if !known {
			p.contracts = append(p.contracts, op.created)
			if makeLast {
				p.last = op.created
			}
		}
	}
	if op.onSuccess != nil {
		op.onSuccess()
	}
}

// experiment puts the tx under test LAST into a block - alone, or behind a drawn prefix of 1-3 other txs - through the
// normal proposer path on a copy of the state, lets the same proposer build the block with the prefix only on a second
// copy at the same instant, inserts the block with the tx into the main replica as well (validator path), and evaluates
// the oracle on the difference between the two blocks.
func (p *prog) experiment(op *opSpec) {
	t := p.t
	pre := p.A.ReadState()
	fpg, netSize := nz(pre.State.FeePerGas()), pre.ValidatorsCache.NetworkSize()
	var prefix []*prefixItem
	drain := op.presetPrefix == nil && !op.pinNonce && fpg.Sign() > 0 && !p.chance("noDrainShape", 96)
	// pre-funded future contract address: 30% of the ordinary deployments are preceded by a SendTx that credits the address
	// they will create - in an earlier block (1 in 3) or earlier in the same block
	prefund := ""
	if op.op == "deploy" && op.presetPrefix == nil && !drain && p.chance("prefundFutureAddress", 30) {
		prefund = []string{"same-block", "same-block", "earlier-block"}[p.draw("prefundWhen", 3)]
		if prefund == "earlier-block" {
			p.prefundEarlier(op)
			pre = p.A.ReadState()
			fpg, netSize = nz(pre.State.FeePerGas()), pre.ValidatorsCache.NetworkSize()
		}
	}
	if op.presetPrefix != nil {
		prefix = op.presetPrefix
	} else if drain {
		op.nonceOffset = 1
	} else {
		prefix = p.drawPrefix(op)
		if prefund == "same-block" {
			if it := p.drawPrefund(op, prefix); it != nil {
				prefix = append(prefix, it)
			}
		}
	}
	tx, gasClass := p.build(op)
	if drain {
		if it := p.drainPrefix(op, tx); it != nil {
			prefix = []*prefixItem{it}
		} else {
			return
		}
	}
	// followers: txs that come after the tx under test in its block (see drawFollowers)
	var followers []*prefixItem
	if op.presetPrefix == nil && !drain {
		followers = p.drawFollowers(op, tx, prefix)
	}
	evid.Eval()
	pc := payClass(op, p.minStake(), p.balance(op.sender.Addr))
	kindLabel := op.kind
	if p.profile == "v9" {
		kindLabel += "@v9" // pre-upgrade code paths (old OracleVoting / RefundableOracleLock versions, pre-upgrade-11 pay-amount rules)
	}
	key := fmt.Sprintf("%s|%s|%s", kindLabel, op.op, op.method)
	evid.Count("gen.gas." + gasClass)
	evid.Count("gen.pay." + pc)
	evid.Count("gen.args." + op.argClass)
	if op.selfArg {
		evid.Count("gen.self-destination." + op.kind + "." + op.op + "." + op.method)
	}
	shape := "single"
	if drain {
		shape = "drain"
	} else if op.shape != "" {
		shape = op.shape
	} else if len(prefix) > 0 {
		shape = "prefixed"
	}

	with := p.copyOf("with")
	var accepted []*prefixItem
	for _, it := range prefix {
		if err := with.Pool.AddExternalTxs(validation.MempoolTx, it.tx); err == nil {
			accepted = append(accepted, it)
		} else {
			evid.Count("block.prefix-tx-refused-by-pool." + it.shape)
		}
	}
	if err := with.Pool.AddExternalTxs(validation.MempoolTx, tx); err != nil {
		evid.Count("m|" + key + "|refused-by-pool")
		evid.Count("refused." + err.Error()[:min(len(err.Error()), 40)] + ".gas=" + gasClass)
		return
	}
	b1 := p.propose(with)
	n1 := len(b1.Body.Transactions)
	if n1 == 0 || b1.Body.Transactions[n1-1].Hash() != tx.Hash() {
		included := false
		for _, x := range b1.Body.Transactions {
			included = included || x.Hash() == tx.Hash()
		}
		if included {
			evid.Count("block." + shape + ".tx-under-test-not-last") // nothing applied, nothing checked
			return
		}
		// the builder left it out (fee below the current price, pre-upgrade-12 skipped tx, balance at that point of the
		// block cannot cover the maximal cost, ...): nothing happened, nothing to check
		evid.Count("m|" + key + "|left-out-by-builder")
		evid.Count("block." + shape + ".tx-left-out-by-builder")
		return
	}
	without := p.copyOf("without")
	for _, it := range accepted {
		if err := without.Pool.AddExternalTxs(validation.MempoolTx, it.tx); err != nil {
			t.Fatalf("HARNESS: the second pool refuses a prefix tx the first accepted: %v", err)
		}
	}
	b0 := p.propose(without)
	if len(b0.Body.Transactions) != n1-1 {
		evid.Count("block." + shape + ".reference-differs")
		return
	}
	for i, x := range b0.Body.Transactions {
		if x.Hash() != b1.Body.Transactions[i].Hash() {
			evid.Count("block." + shape + ".reference-differs")
			return
		}
	}
	prefixTxs := b0.Body.Transactions
	// FOLLOWERS: the same proposer builds, at the same instant, the block in which further txs come after the tx under test;
	// it must start with the very txs of the block that ends with the tx under test. That block is what the chain adopts.
	final, full := b1, (*sim.Replica)(nil)
	var acceptedF []*prefixItem
	if len(followers) > 0 {
		full = p.copyOf("full")
		for _, it := range accepted {
			if err := full.Pool.AddExternalTxs(validation.MempoolTx, it.tx); err != nil {
				t.Fatalf("HARNESS: the third pool refuses a prefix tx the first accepted: %v", err)
			}
		}
		if err := full.Pool.AddExternalTxs(validation.MempoolTx, tx); err != nil {
			t.Fatalf("HARNESS: the third pool refuses the tx under test the first accepted: %v", err)
		}
		for _, it := range followers {
			if err := full.Pool.AddExternalTxs(validation.MempoolTx, it.tx); err == nil {
				acceptedF = append(acceptedF, it)
			} else {
				evid.Count("block.follower-tx-refused-by-pool." + it.shape)
			}
		}
		extends := false
		if len(acceptedF) > 0 {
			b2 := p.propose(full)
			extends = len(b2.Body.Transactions) > n1
			for i := 0; extends && i < n1; i++ {
				extends = b2.Body.Transactions[i].Hash() == b1.Body.Transactions[i].Hash()
			}
			if extends {
				final = b2
			} else {
				evid.Count("block.followers.none-included-or-other-order")
			}
		}
		if !extends {
			full = nil
		}
	}
	followerTxs := final.Body.Transactions[n1:]
	itemOf := func(x *types.Transaction) *prefixItem {
		for _, it := range accepted {
			if it.tx.Hash() == x.Hash() {
				return it
			}
		}
		for _, it := range acceptedF {
			if it.tx.Hash() == x.Hash() {
				return it
			}
		}
		return nil
	}
	gasLimit := gasLimitOf(netSize, fpg, tx)
	mid, err := checkStateAfter(with, prefixTxs, b1.Header)
	if err != nil {
		t.Fatalf("HARNESS: %v", err)
	}
	runState, err := checkStateAfter(with, prefixTxs, b1.Header)
	if err != nil {
		t.Fatalf("HARNESS: %v", err)
	}
	dry, err := dryRun(with, runState, tx, b1.Header, gasLimit)
	if err != nil {
		t.Fatalf("HARNESS: replay failed: %v", err)
	}
	blockDesc := func() string {
		d := p.describe(op, tx, gasClass)
		for i, x := range prefixTxs {
			from, _ := types.Sender(x)
			to, what := "-", ""
			if x.To != nil {
				to = p.w.Name(*x.To)
			}
			for _, it := range accepted {
				if it.tx.Hash() == x.Hash() {
					what = it.shape
					if it.op != nil {
						what += fmt.Sprintf(" %s %s method=%q args=%s", it.op.kind, it.op.op, it.op.method, it.op.argClass)
					}
				}
			}
			d += fmt.Sprintf("\n  preceded in the block by #%d: %s %s -> %s amount=%v nonce=%d (%s)", i, sim.TxTypeNames[x.Type], p.w.Name(from), to, x.Amount, x.AccountNonce, what)
		}
		for i, x := range followerTxs {
			from, _ := types.Sender(x)
			to, what := "-", ""
			if x.To != nil {
				to = p.w.Name(*x.To)
			}
			if it := itemOf(x); it != nil {
				what = it.shape
				if it.op != nil {
					what += fmt.Sprintf(" %s %s method=%q args=%s", it.op.kind, it.op.op, it.op.method, it.op.argClass)
				}
			}
			d += fmt.Sprintf("\n  followed in the block by #%d: %s %s -> %s amount=%v nonce=%d (%s)", n1+i, sim.TxTypeNames[x.Type], p.w.Name(from), to, x.Amount, x.AccountNonce, what)
		}
		d += fmt.Sprintf("\n  host time zones: builder %s, second replica %s", p.buildLoc, p.A.Loc)
		return d
	}
	// A refusal "invalid receipt cid" of a block whose transactions do not execute to the same receipts every time is the
	// recorded finding c15.same-block-store-writes-iterated-in-map-order (decided by re-executing the block's txs on fresh
	// check states of the parent, which the main replica still holds at both refusal sites); any other refusal fails the case.
	knownRefusal := func(who string, blk *types.Block, err error) bool {
		if !strings.Contains(err.Error(), "invalid receipt cid") {
			return false
		}
		seen := map[string]bool{}
		for i := 0; i < 16; i++ {
			cs, e := p.A.AppState.ForCheck(p.A.Chain.Head.Height())
			if e != nil {
				return false
			}
			recs, e := p.A.Chain.VerifProcessTxs(cs, blk.Body.Transactions, blk.Header)
			if e != nil {
				return false
			}
			var all []byte
			for _, r := range recs {
				rb, _ := r.ToBytes()
				all = append(append(all, rb...), 0xff)
			}
			seen[string(all)] = true
		}
		if len(seen) < 2 {
			return false
		}
		if kf.Report(t, "C15", "c15.same-block-store-writes-iterated-in-map-order", "block refused by %s (%v): 16 executions of its transactions on the same parent state gave %d different receipt lists\n  tx: %s", who, err, len(seen), blockDesc()) {
			evid.Count("block.known-finding.receipts-differ-between-executions")
			return true
		}
		return false
	}
	if err := p.addBlock(with, b1); err != nil {
		if knownRefusal("its own builder", b1, err) {
			return
		}
		t.Fatalf("block with the contract tx refused by its own builder: %v\n  tx: %s", err, blockDesc())
	}
	if err := p.addBlock(without, b0); err != nil {
		t.Fatalf("block without the tx refused: %v", err)
	}
	if full != nil {
		if err := p.addBlock(full, final); err != nil {
			if knownRefusal("its own builder", final, err) {
				return
			}
			t.Fatalf("block in which %d txs follow the contract tx refused by its own builder: %v\n  tx: %s", len(followerTxs), err, blockDesc())
		}
	}
	if err := p.addBlock(p.A, final); err != nil {
		if knownRefusal("a second replica", final, err) {
			return
		}
		if strings.Contains(err.Error(), "invalid receipt cid") {
			if msg := p.zoneDependence(final); msg != "" {
				t.Fatalf("block with the contract tx refused by a second replica that runs under another host time zone: %v\n  %s\n  tx: %s", err, msg, blockDesc())
			}
		}
		t.Fatalf("block with the contract tx refused by a second replica: %v\n  tx: %s", err, blockDesc())
	}
	// the second node accepted the block under its own host time zone: receipts (incl. failure texts) agree
	if p.buildLoc != p.A.Loc {
		evid.Count("zone.block-accepted-under-another-host-zone")
		failed := 0
		for _, x := range final.Body.Transactions {
			if r := p.A.Chain.GetReceipt(x.Hash()); r != nil && !r.Success {
				failed++
			}
		}
		if failed > 0 {
			evid.Count("zone.block-with-failed-contract-tx-accepted-under-another-host-zone")
		}
	}
	rec := with.Chain.GetReceipt(tx.Hash())
	if rec == nil {
		t.Fatalf("no receipt for an included contract tx\n  tx: %s", p.describe(op, tx, gasClass))
	}
	if recA := p.A.Chain.GetReceipt(tx.Hash()); recA == nil || recA.Success != rec.Success || recA.GasUsed != rec.GasUsed {
		t.Fatalf("second replica has a different receipt: %+v vs %+v", recA, rec)
	}
	// fees of the preceding txs (the burnt share is computed on the block total) and notes about them
	prefixFee := new(big.Int)
	desc := p.describe(op, tx, gasClass)
	okEmbeddedBefore := false
	for i, x := range prefixTxs {
		prefixFee.Add(prefixFee, fee.CalculateFee(netSize, fpg, x))
		var it *prefixItem
		for _, cand := range accepted {
			if cand.tx.Hash() == x.Hash() {
				it = cand
			}
		}
		out := "-"
		if r := without.Chain.GetReceipt(x.Hash()); r != nil {
			prefixFee.Add(prefixFee, nz(r.GasCost))
			out = fmt.Sprintf("success=%v", r.Success)
			if it != nil && it.op != nil && r.Success {
				p.noteSuccess(it.op, r, false)
				if !strings.HasPrefix(it.op.kind, "wasm:") {
					okEmbeddedBefore = true
				}
			}
		}
		from, _ := types.Sender(x)
		to := "-"
		if x.To != nil {
			to = p.w.Name(*x.To)
		}
		shp := "?"
		if it != nil {
			shp = it.shape
		}
		desc += fmt.Sprintf("\n  preceded in the block by #%d: %s %s -> %s amount=%v nonce=%d (%s) %s", i, sim.TxTypeNames[x.Type], p.w.Name(from), to, x.Amount, x.AccountNonce, shp, out)
		evid.Count("block.prefix-tx." + shp)
	}
	// new distinct WASM codes this block stores (successful deployments of a code no earlier deployment stored)
	newCodes := 0
	noteCode := func(o *opSpec, r *types.TxReceipt) {
		if o != nil && o.codeHash != nil && r != nil && r.Success && !p.knownCodes[*o.codeHash] {
			p.knownCodes[*o.codeHash] = true
			newCodes++
		}
	}
	for _, it := range accepted {
		noteCode(it.op, without.Chain.GetReceipt(it.tx.Hash()))
	}
	noteCode(op, rec)
	if newCodes > 0 {
		evid.Count(fmt.Sprintf("block.new-distinct-wasm-codes=%d", newCodes))
	}
	evid.Count(fmt.Sprintf("block.txs=%d", len(final.Body.Transactions)))
	// same-contract chains: which (earlier step, step under test) pairs on one contract shared a block, with outcomes
	chainLen := 0
	crowdOf := map[string]map[int]bool{} // method -> senders whose earlier step with it succeeded
	for _, x := range prefixTxs {
		for _, it := range accepted {
			if it.tx.Hash() != x.Hash() || it.shape != "same-contract" || it.op == nil {
				continue
			}
			r := without.Chain.GetReceipt(x.Hash())
			if r == nil {
				continue
			}
			chainLen++
			outc := func(ok bool) string {
				if ok {
					return "ok"
				}
				return "fail"
			}
			evid.Count(fmt.Sprintf("chain|%s|%s:%s>%s:%s", kindLabel, it.op.method, outc(r.Success), op.method, outc(rec.Success)))
			if r.Success {
				if crowdOf[it.op.method] == nil {
					crowdOf[it.op.method] = map[int]bool{}
				}
				crowdOf[it.op.method][it.op.sender.Idx] = true
			}
			if r.Success && rec.Success {
				if op.op == "terminate" {
					evid.Count("chain.successful-step-then-successful-termination-of-the-same-contract")
				} else {
					evid.Count("chain.successful-step-then-successful-step-on-the-same-contract")
				}
			}
		}
	}
	for _, m := range []string{"deposit", "sendVoteProof", "sendVote", "addStake", "send", "add", "transfer", "push"} {
		if n := len(crowdOf[m]); n >= 2 {
			evid.Count(fmt.Sprintf("chain.crowd|%s|%s by %d senders>%s:success=%v", kindLabel, m, n, op.method, rec.Success))
			evid.Count("chain.crowd.blocks")
		}
	}
	if chainLen > 0 {
		evid.Count(fmt.Sprintf("chain.earlier-steps-on-the-same-contract=%d", chainLen))
		evid.Count("chain.blocks")
	}
	// what the declared maximum fee holds above the intrinsic fee: whole gas units, or a remainder inside one unit; and
	// whether the execution used up everything the fee buys
	if fpg.Sign() > 0 {
		if diff := new(big.Int).Sub(tx.MaxFeeOrZero(), fee.CalculateFee(netSize, fpg, tx)); diff.Sign() >= 0 {
			rem := new(big.Int).Mod(diff, fpg)
			part := "upper-half"
			switch {
			case rem.Sign() == 0:
				part = "none"
			case new(big.Int).Mul(rem, big.NewInt(2)).Cmp(fpg) < 0:
				part = "lower-half"
			}
			used := "gas-left"
			if gasLimit < 0 || rec.GasUsed >= uint64(gasLimit) {
				used = "gas-exhausted"
			}
			evid.Count("fee.partial-gas-unit." + part + "." + used)
		}
	}
	if drain {
		evid.Count("block.drain.tx-included")
	}
	if okEmbeddedBefore && rec.Success && !dry.isWasm {
		evid.Count("block.successful-embedded-tx-after-successful-embedded-tx")
	}
	c := &txCase{w: p.w, cfgUp11: with.Cfg.Consensus.EnableUpgrade11, burnRate: with.Cfg.Consensus.FeeBurnRate, tx: tx, sender: op.sender.Addr, proposer: p.A.Addr,
		mid: mid, prefixFee: prefixFee, with: takeSnap(with.ReadState()), without: takeSnap(without.ReadState()), rec: rec, dry: dry, fpg: fpg, netSize: netSize,
		kind: op.kind, op: op.op, method: op.method, desc: desc}
	c.check(t)
	if rec.Success && op.post != nil {
		if msg := op.post(c); msg != "" {
			c.failf(t, "successful execution did not apply what the method promises: %s", msg)
		}
		evid.Count("post-condition.checked." + op.kind + "." + op.method)
	}
	if op.selfArg {
		evid.Count(fmt.Sprintf("self-destination.%s.%s.%s.success=%v", op.kind, op.op, op.method, rec.Success))
	}
	// the contract address of the tx under test; did its execution set the contract's balance to zero (burn of the remainder)?
	caddr := rec.ContractAddress
	if tx.To != nil {
		caddr = *tx.To
	} else if a, ok := futureAddr(tx, op.sender.Addr); ok {
		caddr = a
	}
	zeroed := false
	if rec.Success {
		had := new(big.Int).Set(c.midBal(caddr))
		if tx.Type == types.CallContractTx {
			had.Add(had, tx.AmountOrZero())
		}
		cls := "nothing"
		if had.Sign() > 0 {
			cls = "coins"
			if op.op == "terminate" && (op.kind == "TimeLock" || op.kind == "Multisig") {
				cls = "dust"
			}
		}
		if b, ok := dry.w.balances[caddr]; ok && b.Sign() == 0 {
			zeroed = true
			evid.Count(fmt.Sprintf("burn.contract-balance-zeroed|%s|%s|held-%s", kindLabel, op.method, cls))
		}
		if op.op == "terminate" && had.Sign() > 0 {
			// the termination met a contract that still held something (a wallet: dust, which it burns); refund-to-itself = the
			// refunded half of the stake goes to the very address whose balance has just been burnt in the same execution
			toItself := false
			for _, a := range namedAddrs(tx) {
				toItself = toItself || a == caddr
			}
			evid.Count(fmt.Sprintf("burn.termination-of-a-contract-holding-%s.refund-to-itself=%v", cls, toItself))
		}
	}
	if op.op == "deploy" && c.midBal(caddr).Sign() > 0 {
		// PRE-FUNDED ADDRESS: the deployment ran on an address that already held coins (the oracle above demands that they stay)
		lang := "embedded"
		if dry.isWasm {
			lang = "wasm"
		}
		when := "earlier-block"
		for _, x := range prefixTxs {
			if x.To != nil && *x.To == caddr {
				when = "same-block"
			}
		}
		evid.Count(fmt.Sprintf("deploy.address-already-holds-coins.%s.%s.success=%v", lang, when, rec.Success))
	}
	if full != nil {
		p.checkFollowers(c, op, final, n1, with, full, itemOf, prefixFee, caddr, zeroed, blockDesc)
	}

	// --- bookkeeping and evidence ---
	outcome := ""
	nontrivial := false
	if rec.Success {
		moved := dry.w.events > 0
		escrowed := tx.AmountOrZero().Sign() > 0 && (tx.Type == types.CallContractTx || dry.isWasm)
		for a, b := range dry.w.balances {
			base := new(big.Int).Set(c.midBal(a))
			if escrowed && op.target != nil && a == op.target.addr {
				base.Add(base, tx.AmountOrZero())
			}
			if escrowed && a == op.sender.Addr {
				base.Sub(base, tx.AmountOrZero())
			}
			if b.Cmp(base) != 0 {
				moved = true
			}
		}
		if len(dry.w.dropped) > 0 {
			moved = true
		}
		if moved {
			outcome, nontrivial = "ok+transfer", true
		} else {
			outcome = "ok"
		}
		p.noteSuccess(op, rec, true)
	} else {
		n := dry.w.stateWrites()
		switch {
		case n > 0:
			outcome, nontrivial = "fail-after-writes", true
		default:
			outcome = "fail-clean"
		}
		if errClass(rec.Error) == "out-of-gas" {
			outcome += "(gas)"
		} else {
			msg := rec.Error.Error()
			if i := strings.Index(msg, ", filename"); i > 0 {
				msg = msg[:i]
			}
			if strings.Contains(msg, "unreachable") || strings.Contains(msg, "<module>") {
				msg = "wasm trap"
			}
			if i := strings.LastIndex(msg, "Error"); i > 0 {
				msg = msg[i:]
			}
			if len(msg) > 70 {
				msg = msg[:70]
			}
			evid.Count("err|" + key + "|" + msg)
		}
	}
	evid.Count("m|" + key + "|" + outcome)
	if os.Getenv("C15_TRACE") != "" {
		fmt.Fprintf(os.Stderr, "TRACE h=%d %s %s %s args=%s gas=%s pay=%s smart=%v -> %s %v\n", p.A.Head().Height(), op.kind, op.op, op.method, op.argClass, gasClass, pc, op.smart, outcome, rec.Error)
	}
	if dry.isWasm {
		if n := decodeActionResult(rec.ActionResult); n != nil {
			subs, okSubs := 0, 0
			n.walk(func(x *actionNode, d int) {
				if d > 0 {
					subs++
					if x.Success {
						okSubs++
					}
				}
			}, 0)
			if subs > 0 {
				evid.Count(fmt.Sprintf("wasm.%s.%s.subactions(ok=%v,failed=%v)", strings.TrimPrefix(op.kind, "wasm:"), op.method, okSubs > 0, subs > okSubs))
				if rec.Success {
					nontrivial = true
				}
			}
		}
	}
	if nontrivial {
		d := fmt.Sprintf("%s|%s|%s|gas=%s|pay=%s|args=%s", p.profile, key, outcome, gasClass, pc, op.argClass)
		if chainLen > 0 {
			d += "|after-steps-on-the-same-contract"
		}
		evid.NonTrivial(d)
		evid.Sample(outcome, d)
		evid.Count("nontrivial." + outcome)
	}
}

// checkFollowers judges the block in which further txs FOLLOW the tx under test (built by the same proposer at the same
// instant, accepted by its builder and by the second node) against the block that ends with the tx under test:
// (a) what comes after a transaction cannot change its outcome: the receipts of the tx under test and of everything before
// it are byte-identical in both blocks; (b) value: the followers move coins, pay fees (partly burnt) and may burn
// explicitly, they never create any - ledger total after the block with followers = total after the block without them
// - burnt share of the followers' fees, exactly, unless a follower is a successful burning method (then: not more);
// (c) no negative balance / stake.
func (p *prog) checkFollowers(c *txCase, op *opSpec, final *types.Block, n1 int, with, full *sim.Replica, itemOf func(*types.Transaction) *prefixItem,
	prefixFee *big.Int, caddr common.Address, zeroed bool, blockDesc func() string) {
	t := p.t
	for i, x := range final.Body.Transactions[:n1] {
		r1, r2 := with.Chain.GetReceipt(x.Hash()), full.Chain.GetReceipt(x.Hash())
		if (r1 == nil) != (r2 == nil) {
			t.Fatalf("tx #%d has a receipt in one of the two blocks only\n  tx: %s", i, blockDesc())
		}
		if r1 == nil {
			continue
		}
		b1, _ := r1.ToBytes()
		b2, _ := r2.ToBytes()
		if !bytes.Equal(b1, b2) {
			t.Fatalf("the receipt of tx #%d changes when further txs follow it in the block: success=%v gasUsed=%d error=%v events=%d vs success=%v gasUsed=%d error=%v events=%d\n  tx: %s",
				i, r1.Success, r1.GasUsed, r1.Error, len(r1.Events), r2.Success, r2.GasUsed, r2.Error, len(r2.Events), blockDesc())
		}
	}
	txFee := new(big.Int).Add(fee.CalculateFee(c.netSize, c.fpg, c.tx), nz(c.rec.GasCost))
	before := new(big.Int).Add(nz(prefixFee), txFee)
	after := new(big.Int).Set(before)
	burning, credited, dead := false, false, false
	pairOut := func(ok bool) string {
		if ok {
			return "ok"
		}
		return "fail"
	}
	for _, x := range final.Body.Transactions[n1:] {
		after.Add(after, fee.CalculateFee(c.netSize, c.fpg, x))
		it := itemOf(x)
		shape, out := "?", "sent"
		if it != nil {
			shape = it.shape
		}
		if r := full.Chain.GetReceipt(x.Hash()); r != nil {
			after.Add(after, nz(r.GasCost))
			out = pairOut(r.Success)
			if it != nil && it.op != nil && r.Success {
				p.noteSuccess(it.op, r, false)
				if mayBurn(it.op.kind, it.op.op, it.op.method) && !strings.HasPrefix(it.op.kind, "wasm:") {
					burning = true
				}
			}
		}
		if x.To != nil && *x.To == caddr && x.AmountOrZero().Sign() > 0 && (x.Type == types.SendTx || x.Type == types.CallContractTx) {
			credited = true
		}
		evid.Count("block.follower-tx." + shape)
		evid.Count(fmt.Sprintf("follower|%s|%s:%s>%s:%s", c.kind, op.method, pairOut(c.rec.Success), shape, out))
	}
	if c.rec.Success && op.op == "terminate" {
		dead = true
	}
	burnOf := func(f *big.Int) *big.Int {
		return math.ToInt(decimal.NewFromBigInt(f, 0).Mul(decimal.NewFromFloat32(c.burnRate)))
	}
	burn := new(big.Int).Sub(burnOf(after), burnOf(before))
	sf := takeSnap(full.ReadState())
	missing := new(big.Int).Sub(c.with.total(), sf.total())
	missing.Sub(missing, burn)
	if missing.Sign() < 0 || !burning && missing.Sign() != 0 {
		diffs := sim.DiffImages(sf.img, c.with.img, c.w.Name)
		sort.Strings(diffs)
		if len(diffs) > 40 {
			diffs = diffs[:40]
		}
		t.Fatalf("ledger total after the block with the followers - after the block that ends with the tx under test = %v, expected -%v (burnt share of the followers' fees)%s; unexplained %v\n  tx: %s\n  state with the followers vs without them:\n    %s",
			new(big.Int).Sub(sf.total(), c.with.total()), burn, map[bool]string{true: " or less (a follower burns explicitly)", false: " exactly"}[burning], new(big.Int).Neg(missing), blockDesc(), strings.Join(diffs, "\n    "))
	}
	for a := range sf.img.Accounts {
		if sf.bal(a).Sign() < 0 || sf.cStake(a).Sign() < 0 {
			t.Fatalf("negative balance / contract stake of %s after the block with the followers\n  tx: %s", c.w.Name(a), blockDesc())
		}
	}
	for a := range sf.img.Identities {
		if sf.idStake(a).Sign() < 0 {
			t.Fatalf("negative stake of %s after the block with the followers\n  tx: %s", c.w.Name(a), blockDesc())
		}
	}
	evid.Count("follower.blocks")
	evid.Count(fmt.Sprintf("follower.txs=%d", len(final.Body.Transactions)-n1))
	if credited {
		evid.Count("follower.credit-to-the-contract")
		if zeroed {
			evid.Count("follower.credit-to-the-contract-whose-balance-the-tx-under-test-zeroed")
		}
		if dead {
			evid.Count("follower.credit-to-the-contract-the-tx-under-test-dropped")
		}
	}
}

func (p *prog) describe(op *opSpec, tx *types.Transaction, gasClass string) string {
	to := "-"
	if tx.To != nil {
		to = tx.To.Hex()
	}
	return fmt.Sprintf("profile=%s %s %s method=%q args=%s by %s (state %s) to=%s amount=%v maxFee=%v (gas class %s) tips=%v nonce=%d payload=%d bytes smart=%v",
		p.profile, op.kind, op.op, op.method, op.argClass, op.sender, stateName(p.A.ReadState().State.GetIdentityState(op.sender.Addr)), to, tx.Amount, tx.MaxFee, gasClass, tx.Tips, tx.AccountNonce, len(tx.Payload), op.smart)
}

func runProgram(t *rapid.T, profile string) { runProgramMode(t, profile, false) }

// runProgramMode: chains = a program in which most steps on a live contract share their block with earlier steps on the
// same contract (drawChain), and month-long clock jumps (time locks expire, pending votings go stale) are more frequent.
func runProgramMode(t *rapid.T, profile string, chains bool) {
	params := sim.GenParams(t, 6, 8)
	params.Profile = profile
	params.CeremonyIn = 600000000 // no validation ceremony within reach of the program (incl. its 31-day jumps)
	idStates := []state.IdentityState{state.Verified, state.Human, state.Newbie, state.Verified, state.Candidate, state.Undefined}
	for i := range params.States {
		switch {
		case i == 0:
			params.States[i] = state.Verified
		case i <= 3:
			params.States[i] = idStates[rapid.IntRange(0, 2).Draw(t, "validatedState")]
		default:
			params.States[i] = idStates[rapid.IntRange(0, len(idStates)-1).Draw(t, "actorState")]
		}
		params.Balances[i] = sim.Dna(int64(rapid.IntRange(400000, 3000000).Draw(t, "richBalance")))
		if params.States[i] == state.Undefined {
			params.Stakes[i] = big.NewInt(0)
		} else {
			params.Stakes[i] = sim.Dna(int64(rapid.IntRange(1, 3000).Draw(t, "idStake")))
		}
	}
	w := sim.NewWorld(params)
	A, err := w.AddReplica("A", w.God.Key, nil)
	if err != nil {
		t.Fatalf("replica: %v", err)
	}
	A.Cfg.IsDebug = true
	if !A.CanPropose() {
		t.Fatalf("HARNESS: god cannot propose")
	}
	p := &prog{t: t, w: w, A: A, profile: profile, senders: w.Actors[1:params.NActors], knownCodes: map[common.Hash]bool{}, chainOdds: 8}
	p.constantsIntact(func() string { return "an earlier case (before this program started)" })
	// host time zones: the copies that build the blocks and the main replica that validates and inserts them
	p.buildLoc, A.Loc = p.drawZones()
	if p.buildLoc == A.Loc {
		evid.Count("zone.program.second-node-in-the-builder's-zone")
	} else {
		evid.Count(fmt.Sprintf("zone.program.builder-%s.second-node-elsewhere", p.buildLoc))
	}
	monthJumpOdds := 1
	if chains {
		p.chainOdds, monthJumpOdds = 70, 5
	}
	focuses := []string{"mix", "voting", "wallets", "voting", "voting"}
	if profile == "v12" {
		focuses = append(focuses, "wasm", "wasm", "mix")
	}
	p.focus = focuses[rapid.IntRange(0, len(focuses)-1).Draw(t, "focus")]
	p.calm = rapid.IntRange(0, 9).Draw(t, "calm") < 4
	evid.Count(fmt.Sprintf("case.profile.%s.focus.%s.calm=%v", profile, p.focus, p.calm))
	if chains {
		evid.Count("case.same-contract-chains-program")
	}
	if os.Getenv("C15_TRACE") != "" {
		fmt.Fprintf(os.Stderr, "TRACE ==== case profile=%s focus=%s calm=%v actors=%d\n", profile, p.focus, p.calm, params.NActors)
	}
	// the genesis state has gas price 0 (no gas can be bought, every execution fails); mostly start after one block
	if rapid.IntRange(0, 9).Draw(t, "startAtZeroGasPrice") != 9 {
		w.Advance(15 * time.Second)
		p.plainBlocks(1)
		w.Advance(15 * time.Second)
		p.spreadNonces()
	}
	steps := rapid.IntRange(20, 45).Draw(t, "steps")
	if p.focus == "voting" {
		steps += 15 // a voting needs ~15 steps from deployment to finishVoting, its locks a few more
	}
	for i := 0; i < steps; i++ {
		w.Advance(time.Duration(rapid.IntRange(10, 40).Draw(t, "dt")) * time.Second)
		op := p.next()
		if profile == "v12" && p.A.ReadState().State.FeePerGas().Sign() > 0 && !p.chance("noMultiDeploy", 95) {
			op = p.multiDeploy()
		}
		if os.Getenv("C15_TRACE") != "" && op.special != "" {
			fmt.Fprintf(os.Stderr, "TRACE h=%d special %s n=%d dur=%v\n", p.A.Head().Height(), op.special, op.n, op.dur)
		}
		switch op.special {
		case "blocks":
			n := op.n
			if n < 1 {
				n = 1
			}
			if n > 12 {
				n = 12
			}
			p.plainBlocks(n)
			evid.Count("step.blocks")
		case "time":
			if op.dur > 0 && op.dur < 40*24*time.Hour {
				w.Advance(op.dur)
			}
			p.plainBlocks(1)
			evid.Count("step.time")
		case "fund":
			p.fund(op)
		default:
			p.experiment(op)
		}
		step := i
		p.constantsIntact(func() string {
			return fmt.Sprintf("step %d of the program (%s %s %s)", step, op.kind, op.op, op.method)
		})
		evid.Count("constants.intact-after-step")
		if j := rapid.IntRange(0, 99).Draw(t, "monthJump"); j >= 57 && j < 57+monthJumpOdds {
			w.Advance(31 * 24 * time.Hour) // lets a pending voting go stale
			evid.Count("step.month-jump")
		}
	}
	_ = common.Address{}
}

func TestContractProgramsV12(t *testing.T) {
	rapid.Check(t, func(t *rapid.T) { runProgram(t, "v12") })
}

func TestContractProgramsV9(t *testing.T) {
	rapid.Check(t, func(t *rapid.T) { runProgram(t, "v9") })
}

// Same-contract chains: programs in which most blocks hold several steps on one contract (see drawChain).
func TestSameContractChainsV12(t *testing.T) {
	rapid.Check(t, func(t *rapid.T) { runProgramMode(t, "v12", true) })
}

func TestSameContractChainsV9(t *testing.T) {
	rapid.Check(t, func(t *rapid.T) { runProgramMode(t, "v9", true) })
}

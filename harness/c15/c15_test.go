package c15

import (
	"fmt"
	"math/big"
	"os"
	"strings"
	"syscall"
	"testing"
	"time"

	"github.com/idena-network/idena-go/blockchain/fee"
	"github.com/idena-network/idena-go/blockchain/types"
	"github.com/idena-network/idena-go/blockchain/validation"
	"github.com/idena-network/idena-go/common"
	"github.com/idena-network/idena-go/core/state"
	"pgregory.net/rapid"

	"verifharness/internal/evid"
	"verifharness/internal/sim"
)

func TestMain(m *testing.M) {
	// The bundled WASM binaries import env.debug and instantiate only when the node runs with cfg.IsDebug; in that mode
	// the prebuilt runtime prints traces straight to fd 1. Keep the test's own output on the real stdout and send
	// fd 1 to /dev/null.
	if fd, err := syscall.Dup(1); err == nil {
		if null, err := os.OpenFile(os.DevNull, os.O_WRONLY, 0); err == nil {
			if syscall.Dup2(int(null.Fd()), 1) == nil {
				os.Stdout = os.NewFile(uintptr(fd), "stdout")
			}
		}
	}
	evid.Main(m)
}

func (p *prog) copyOf(name string) *sim.Replica {
	r := &sim.Replica{W: p.w, Name: name, Key: p.A.Key, Addr: p.A.Addr, DB: sim.CopyDB(p.A.DB), Ipfs: p.A.Ipfs, Loc: time.UTC}
	if err := r.Start(); err != nil {
		p.t.Fatalf("start copy: %v", err)
	}
	r.Cfg.IsDebug = true
	return r
}

// plainBlocks lets the proposer build n blocks without transactions (moves the height).
func (p *prog) plainBlocks(n int) {
	for i := 0; i < n; i++ {
		if i > 0 {
			p.w.Advance(10 * time.Second)
		}
		b := p.A.Propose().Block
		if err := p.A.AddBlock(b); err != nil {
			p.t.Fatalf("plain block refused: %v", err)
		}
	}
}

// fund sends coins to a contract with an ordinary SendTx (how voting / lock contracts are funded).
func (p *prog) fund(op *opSpec) {
	s := p.A.ReadState()
	a := op.target.addr
	tx := &types.Transaction{Type: types.SendTx, To: &a, Epoch: s.State.Epoch(), AccountNonce: s.State.GetNonce(op.sender.Addr) + 1, Amount: op.amount}
	fpg := nz(s.State.FeePerGas())
	if min := fee.GetFeePerGasForNetwork(s.ValidatorsCache.NetworkSize()); fpg.Cmp(min) < 0 {
		fpg = min
	}
	feeFor(tx, s.ValidatorsCache.NetworkSize(), fpg, 100, nil)
	stx, _ := types.SignTx(tx, op.sender.Key)
	c := p.copyOf("fund")
	if err := c.Pool.AddExternalTxs(validation.MempoolTx, stx); err != nil {
		evid.Count("step.fund.refused")
		p.plainBlocks(1)
		return
	}
	b := c.Propose().Block
	if err := p.A.AddBlock(b); err != nil {
		p.t.Fatalf("block with a SendTx refused: %v", err)
	}
	evid.Count("step.fund")
}

func payClass(op *opSpec, minStake, bal *big.Int) string {
	a := op.amount
	switch {
	case a == nil:
		return "nil"
	case a.Sign() == 0:
		return "0"
	case a.Cmp(big.NewInt(1)) == 0:
		return "1"
	case a.Cmp(bal) > 0:
		return ">balance"
	case a.Cmp(bal) == 0:
		return "=balance"
	case op.op == "deploy" && a.Cmp(minStake) == 0:
		return "=minStake"
	case op.op == "deploy" && a.Cmp(new(big.Int).Sub(minStake, big.NewInt(1))) == 0:
		return "minStake-1"
	case new(big.Int).Mul(a, big.NewInt(2)).Cmp(bal) > 0:
		return "most-of-balance"
	}
	return "some"
}

func errClass(err error) string {
	if err == nil {
		return ""
	}
	s := err.Error()
	if strings.Contains(strings.ToLower(s), "gas") {
		return "out-of-gas"
	}
	return "error"
}

// experiment puts the tx alone into a block through the normal proposer path on a copy of the state, lets the same
// proposer build a block without it on a second copy at the same instant, inserts the block with the tx into the
// main replica as well (validator path), and evaluates the oracle.
func (p *prog) experiment(op *opSpec) {
	t := p.t
	tx, gasClass := p.build(op)
	evid.Eval()
	pre := p.A.ReadState()
	fpg, netSize := nz(pre.State.FeePerGas()), pre.ValidatorsCache.NetworkSize()
	pc := payClass(op, p.minStake(), p.balance(op.sender.Addr))
	kindLabel := op.kind
	if p.profile == "v9" {
		kindLabel += "@v9" // pre-upgrade code paths (old OracleVoting / RefundableOracleLock versions, pre-upgrade-11 pay-amount rules)
	}
	key := fmt.Sprintf("%s|%s|%s", kindLabel, op.op, op.method)
	evid.Count("gen.gas." + gasClass)
	evid.Count("gen.pay." + pc)
	evid.Count("gen.args." + op.argClass)

	with := p.copyOf("with")
	if err := with.Pool.AddExternalTxs(validation.MempoolTx, tx); err != nil {
		evid.Count("m|" + key + "|refused-by-pool")
		evid.Count("refused." + err.Error()[:min(len(err.Error()), 40)] + ".gas=" + gasClass)
		return
	}
	b1 := with.Propose().Block
	if len(b1.Body.Transactions) != 1 {
		// the builder left it out (fee below the current price, pre-upgrade-12 skipped tx, ...): nothing happened, nothing to check
		evid.Count("m|" + key + "|left-out-by-builder")
		return
	}
	without := p.copyOf("without")
	b0 := without.Propose().Block
	if len(b0.Body.Transactions) != 0 {
		t.Fatalf("HARNESS: reference block is not empty")
	}
	preSnap := takeSnap(pre)
	gasLimit := gasLimitOf(netSize, fpg, tx)
	dry, err := dryRun(with, tx, b1.Header, gasLimit)
	if err != nil {
		t.Fatalf("HARNESS: replay failed: %v", err)
	}
	if err := with.AddBlock(b1); err != nil {
		t.Fatalf("block with the contract tx refused by its own builder: %v\n  tx: %s", err, p.describe(op, tx, gasClass))
	}
	if err := without.AddBlock(b0); err != nil {
		t.Fatalf("block without the tx refused: %v", err)
	}
	if err := p.A.AddBlock(b1); err != nil {
		t.Fatalf("block with the contract tx refused by a second replica: %v\n  tx: %s", err, p.describe(op, tx, gasClass))
	}
	rec := with.Chain.GetReceipt(tx.Hash())
	if rec == nil {
		t.Fatalf("no receipt for an included contract tx\n  tx: %s", p.describe(op, tx, gasClass))
	}
	if recA := p.A.Chain.GetReceipt(tx.Hash()); recA == nil || recA.Success != rec.Success || recA.GasUsed != rec.GasUsed {
		t.Fatalf("second replica has a different receipt: %+v vs %+v", recA, rec)
	}
	c := &txCase{w: p.w, cfgUp11: with.Cfg.Consensus.EnableUpgrade11, burnRate: with.Cfg.Consensus.FeeBurnRate, tx: tx, sender: op.sender.Addr, proposer: p.A.Addr,
		pre: preSnap, with: takeSnap(with.ReadState()), without: takeSnap(without.ReadState()), rec: rec, dry: dry, fpg: fpg, netSize: netSize,
		kind: op.kind, op: op.op, method: op.method, desc: p.describe(op, tx, gasClass)}
	c.check(t)
	if rec.Success && op.post != nil {
		if msg := op.post(c); msg != "" {
			c.failf(t, "successful execution did not apply what the method promises: %s", msg)
		}
		evid.Count("post-condition.checked." + op.kind + "." + op.method)
	}

	// --- bookkeeping and evidence ---
	outcome := ""
	nontrivial := false
	if rec.Success {
		moved := dry.w.events > 0
		escrowed := tx.AmountOrZero().Sign() > 0 && (tx.Type == types.CallContractTx || dry.isWasm)
		for a, b := range dry.w.balances {
			base := new(big.Int).Set(preSnap.bal(a))
			if escrowed && op.target != nil && a == op.target.addr {
				base.Add(base, tx.AmountOrZero())
			}
			if escrowed && a == op.sender.Addr {
				base.Sub(base, tx.AmountOrZero())
			}
			if b.Cmp(base) != 0 {
				moved = true
			}
		}
		if len(dry.w.dropped) > 0 {
			moved = true
		}
		if moved {
			outcome, nontrivial = "ok+transfer", true
		} else {
			outcome = "ok"
		}
		if op.created != nil {
			op.created.addr = rec.ContractAddress
			known := false
			for _, x := range p.contracts {
				if x.addr == rec.ContractAddress {
					known = true
				}
			}
			if !known {
				p.contracts = append(p.contracts, op.created)
				p.last = op.created
			}
		}
		if op.onSuccess != nil {
			op.onSuccess()
		}
	} else {
		n := dry.w.stateWrites()
		switch {
		case n > 0:
			outcome, nontrivial = "fail-after-writes", true
		default:
			outcome = "fail-clean"
		}
		if errClass(rec.Error) == "out-of-gas" {
			outcome += "(gas)"
		} else {
			msg := rec.Error.Error()
			if i := strings.Index(msg, ", filename"); i > 0 {
				msg = msg[:i]
			}
			if strings.Contains(msg, "unreachable") || strings.Contains(msg, "<module>") {
				msg = "wasm trap"
			}
			if i := strings.LastIndex(msg, "Error"); i > 0 {
				msg = msg[i:]
			}
			if len(msg) > 70 {
				msg = msg[:70]
			}
			evid.Count("err|" + key + "|" + msg)
		}
	}
	evid.Count("m|" + key + "|" + outcome)
	if os.Getenv("C15_TRACE") != "" {
		fmt.Fprintf(os.Stderr, "TRACE h=%d %s %s %s args=%s gas=%s pay=%s smart=%v -> %s %v\n", p.A.Head().Height(), op.kind, op.op, op.method, op.argClass, gasClass, pc, op.smart, outcome, rec.Error)
	}
	if dry.isWasm {
		if n := decodeActionResult(rec.ActionResult); n != nil {
			subs, okSubs := 0, 0
			n.walk(func(x *actionNode, d int) {
				if d > 0 {
					subs++
					if x.Success {
						okSubs++
					}
				}
			}, 0)
			if subs > 0 {
				evid.Count(fmt.Sprintf("wasm.%s.%s.subactions(ok=%v,failed=%v)", strings.TrimPrefix(op.kind, "wasm:"), op.method, okSubs > 0, subs > okSubs))
				if rec.Success {
					nontrivial = true
				}
			}
		}
	}
	if nontrivial {
		d := fmt.Sprintf("%s|%s|%s|gas=%s|pay=%s|args=%s", p.profile, key, outcome, gasClass, pc, op.argClass)
		evid.NonTrivial(d)
		evid.Sample(outcome, d)
		evid.Count("nontrivial." + outcome)
	}
}

func (p *prog) describe(op *opSpec, tx *types.Transaction, gasClass string) string {
	to := "-"
	if tx.To != nil {
		to = tx.To.Hex()
	}
	return fmt.Sprintf("profile=%s %s %s method=%q args=%s by %s (state %s) to=%s amount=%v maxFee=%v (gas class %s) tips=%v nonce=%d payload=%d bytes smart=%v",
		p.profile, op.kind, op.op, op.method, op.argClass, op.sender, stateName(p.A.ReadState().State.GetIdentityState(op.sender.Addr)), to, tx.Amount, tx.MaxFee, gasClass, tx.Tips, tx.AccountNonce, len(tx.Payload), op.smart)
}

func runProgram(t *rapid.T, profile string) {
	params := sim.GenParams(t, 6, 8)
	params.Profile = profile
	params.CeremonyIn = 600000000 // no validation ceremony within reach of the program (incl. its 31-day jumps)
	idStates := []state.IdentityState{state.Verified, state.Human, state.Newbie, state.Verified, state.Candidate, state.Undefined}
	for i := range params.States {
		switch {
		case i == 0:
			params.States[i] = state.Verified
		case i <= 3:
			params.States[i] = idStates[rapid.IntRange(0, 2).Draw(t, "validatedState")]
		default:
			params.States[i] = idStates[rapid.IntRange(0, len(idStates)-1).Draw(t, "actorState")]
		}
		params.Balances[i] = sim.Dna(int64(rapid.IntRange(400000, 3000000).Draw(t, "richBalance")))
		if params.States[i] == state.Undefined {
			params.Stakes[i] = big.NewInt(0)
		} else {
			params.Stakes[i] = sim.Dna(int64(rapid.IntRange(1, 3000).Draw(t, "idStake")))
		}
	}
	w := sim.NewWorld(params)
	A, err := w.AddReplica("A", w.God.Key, nil)
	if err != nil {
		t.Fatalf("replica: %v", err)
	}
	A.Cfg.IsDebug = true
	if !A.CanPropose() {
		t.Fatalf("HARNESS: god cannot propose")
	}
	p := &prog{t: t, w: w, A: A, profile: profile, senders: w.Actors[1:params.NActors]}
	focuses := []string{"mix", "voting", "wallets", "voting", "voting"}
	if profile == "v12" {
		focuses = append(focuses, "wasm", "wasm", "mix")
	}
	p.focus = focuses[rapid.IntRange(0, len(focuses)-1).Draw(t, "focus")]
	p.calm = rapid.IntRange(0, 9).Draw(t, "calm") < 4
	evid.Count(fmt.Sprintf("case.profile.%s.focus.%s.calm=%v", profile, p.focus, p.calm))
	if os.Getenv("C15_TRACE") != "" {
		fmt.Fprintf(os.Stderr, "TRACE ==== case profile=%s focus=%s calm=%v actors=%d\n", profile, p.focus, p.calm, params.NActors)
	}
	// the genesis state has gas price 0 (no gas can be bought, every execution fails); mostly start after one block
	if rapid.IntRange(0, 9).Draw(t, "startAtZeroGasPrice") != 9 {
		w.Advance(15 * time.Second)
		p.plainBlocks(1)
	}
	steps := rapid.IntRange(20, 45).Draw(t, "steps")
	if p.focus == "voting" {
		steps += 15 // a voting needs ~15 steps from deployment to finishVoting, its locks a few more
	}
	for i := 0; i < steps; i++ {
		w.Advance(time.Duration(rapid.IntRange(10, 40).Draw(t, "dt")) * time.Second)
		op := p.next()
		if os.Getenv("C15_TRACE") != "" && op.special != "" {
			fmt.Fprintf(os.Stderr, "TRACE h=%d special %s n=%d dur=%v\n", p.A.Head().Height(), op.special, op.n, op.dur)
		}
		switch op.special {
		case "blocks":
			n := op.n
			if n < 1 {
				n = 1
			}
			if n > 12 {
				n = 12
			}
			p.plainBlocks(n)
			evid.Count("step.blocks")
		case "time":
			if op.dur > 0 && op.dur < 40*24*time.Hour {
				w.Advance(op.dur)
			}
			p.plainBlocks(1)
			evid.Count("step.time")
		case "fund":
			p.fund(op)
		default:
			p.experiment(op)
		}
		if rapid.IntRange(0, 99).Draw(t, "monthJump") == 57 {
			w.Advance(31 * 24 * time.Hour) // lets a pending voting go stale
			evid.Count("step.month-jump")
		}
	}
	_ = common.Address{}
}

func TestContractProgramsV12(t *testing.T) {
	rapid.Check(t, func(t *rapid.T) { runProgram(t, "v12") })
}

func TestContractProgramsV9(t *testing.T) {
	rapid.Check(t, func(t *rapid.T) { runProgram(t, "v9") })
}

package c15

import (
	"bytes"
	"fmt"
	"math/big"
	"sort"
	"strings"

	"github.com/idena-network/idena-go/blockchain"
	"github.com/idena-network/idena-go/blockchain/attachments"
	"github.com/idena-network/idena-go/blockchain/fee"
	"github.com/idena-network/idena-go/blockchain/types"
	"github.com/idena-network/idena-go/common"
	"github.com/idena-network/idena-go/common/math"
	"github.com/idena-network/idena-go/core/appstate"
	"github.com/idena-network/idena-go/core/state"
	"github.com/idena-network/idena-go/crypto"
	"github.com/idena-network/idena-go/vm"
	"github.com/idena-network/idena-go/vm/costs"
	"github.com/idena-network/idena-go/vm/embedded"
	"github.com/idena-network/idena-go/vm/wasm"
	"github.com/shopspring/decimal"
	"pgregory.net/rapid"

	"verifharness/internal/evid"
	"verifharness/internal/sim"
)

func nz(x *big.Int) *big.Int {
	if x == nil {
		return new(big.Int)
	}
	return x
}

// snap is a full image of the ledger plus the contract store and contract code.
type snap struct {
	img   *sim.StateImage
	store map[string][]byte         // raw state key (0x05 | contract | key) -> value
	code  map[common.Address][]byte // code of every account that carries a contract record
}

func takeSnap(s *appstate.AppState) *snap {
	sn := &snap{img: sim.Image(s), store: map[string][]byte{}, code: map[common.Address][]byte{}}
	s.State.IterateContractValues(func(key []byte, value []byte) bool {
		sn.store[string(key)] = append([]byte{}, value...)
		return false
	})
	for a, acc := range sn.img.Accounts {
		if acc.Contract != nil {
			sn.code[a] = s.State.GetContractCode(a)
		}
	}
	return sn
}

func (s *snap) bal(a common.Address) *big.Int { return nz(s.img.Accounts[a].Balance) }
func (s *snap) idStake(a common.Address) *big.Int {
	if id, ok := s.img.Identities[a]; ok {
		return nz(id.Stake)
	}
	return new(big.Int)
}
func (s *snap) cStake(a common.Address) *big.Int {
	if c := s.img.Accounts[a].Contract; c != nil {
		return nz(c.Stake)
	}
	return new(big.Int)
}
func (s *snap) holdings(a common.Address) *big.Int {
	r := new(big.Int).Add(s.bal(a), s.idStake(a))
	return r.Add(r, s.cStake(a))
}
func (s *snap) total() *big.Int {
	t := new(big.Int)
	for a := range s.img.Accounts {
		t.Add(t, s.bal(a))
		t.Add(t, s.cStake(a))
	}
	for a := range s.img.Identities {
		t.Add(t, s.idStake(a))
	}
	return t
}

func storeKey(contract common.Address, key string) string {
	return string(append(append([]byte{0x5}, contract[:]...), key...))
}

// subStats counts what the sub-action clause met (evidence).
func subStats(label string) { evid.Count("subaction." + label) }

type storeWrite struct {
	value   []byte
	removed bool
}

// writes is the buffered write-set of one contract execution, as held by the
// VM environment at the moment the method returned (read through hooks).
type writes struct {
	store        map[string]storeWrite
	balances     map[common.Address]*big.Int
	deployedEmb  map[common.Address]state.ContractData
	deployedWasm map[common.Address][]byte
	dropped      map[common.Address]bool
	stakes       map[common.Address]*big.Int
	events       int
}

func newWrites() *writes {
	return &writes{store: map[string]storeWrite{}, balances: map[common.Address]*big.Int{}, deployedEmb: map[common.Address]state.ContractData{},
		deployedWasm: map[common.Address][]byte{}, dropped: map[common.Address]bool{}, stakes: map[common.Address]*big.Int{}}
}

// stateWrites counts buffered writes other than the bare deployment record.
func (w *writes) stateWrites() int {
	return len(w.store) + len(w.balances) + len(w.dropped) + len(w.stakes)
}

type dryResult struct {
	success bool
	gasUsed uint64
	err     error
	w       *writes
	isWasm  bool
	action  *actionNode
}

// gasLimitOf mirrors Blockchain.getGasLimit: the gas the declared maximum fee buys on top of the intrinsic fee.
func gasLimitOf(netSize int, fpg *big.Int, tx *types.Transaction) int64 {
	if common.ZeroOrNil(fpg) {
		return 0
	}
	txFee := fee.CalculateFee(netSize, fpg, tx)
	diff := new(big.Int).Sub(tx.MaxFeeOrZero(), txFee)
	return new(big.Int).Quo(diff, fpg).Int64()
}

func isWasmTx(s *appstate.AppState, tx *types.Transaction) bool {
	switch tx.Type {
	case types.DeployContractTx:
		att := attachments.ParseDeployContractAttachment(tx)
		return att != nil && len(att.Code) > 0
	case types.CallContractTx:
		if tx.To == nil {
			return false
		}
		h := s.State.GetCodeHash(*tx.To)
		if h == nil {
			return false
		}
		_, ok := embedded.AvailableContracts[*h]
		return !ok
	}
	return false
}

func attachmentParses(tx *types.Transaction) bool {
	switch tx.Type {
	case types.DeployContractTx:
		return attachments.ParseDeployContractAttachment(tx) != nil
	case types.CallContractTx:
		return attachments.ParseCallContractAttachment(tx) != nil
	case types.TerminateContractTx:
		return attachments.ParseTerminateContractAttachment(tx) != nil
	}
	return false
}

// checkStateAfter returns a throw-away state: r's head state on which the given transactions (the part of the block
// that precedes the tx under test) were processed with the validator's strict processing.
func checkStateAfter(r *sim.Replica, prefix []*types.Transaction, header *types.Header) (*appstate.AppState, error) {
	cs, err := r.AppState.ForCheck(r.Chain.Head.Height())
	if err != nil {
		return nil, err
	}
	if len(prefix) > 0 {
		if _, err := r.Chain.VerifProcessTxs(cs, prefix, header); err != nil {
			return nil, fmt.Errorf("processing the preceding txs: %v", err)
		}
	}
	return cs, nil
}

// dryRun executes the transaction against the throw-away state cs (r's head
// state + the txs preceding it in the block) with commits disabled and returns
// the outcome together with the write buffers of the environment. The pay
// amount is escrowed the way applyTxOnState does it before calling the VM.
func dryRun(r *sim.Replica, cs *appstate.AppState, tx *types.Transaction, header *types.Header, gasLimit int64) (res *dryResult, err error) {
	defer func() {
		if rec := recover(); rec != nil {
			err = fmt.Errorf("dry run panicked: %v", rec)
		}
	}()
	sender, _ := types.Sender(tx)
	if tx.To != nil && tx.Type != types.DeployContractTx && cs.State.GetCodeHash(*tx.To) == nil {
		return nil, fmt.Errorf("target is not a contract")
	}
	if !attachmentParses(tx) {
		return nil, fmt.Errorf("attachment does not parse")
	}
	v := vm.NewVmImpl(cs, r.Chain, header, nil, r.Cfg)
	isWasm := isWasmTx(cs, tx)
	amount := tx.AmountOrZero()
	caddr := v.ContractAddr(tx, &sender)
	if amount.Sign() > 0 && (tx.Type == types.CallContractTx || isWasm) {
		cs.State.SubBalance(sender, amount)
		cs.State.AddBalance(caddr, amount)
	}
	res = &dryResult{isWasm: isWasm, w: newWrites()}
	if isWasm {
		wvm := wasm.NewWasmVM(cs, r.Chain, header, r.Cfg, false, nil)
		limit := costs.GasToWasmGas(uint64(gasLimit))
		var env *wasm.WasmEnv
		var used uint64
		var ar []byte
		var e error
		if tx.Type == types.DeployContractTx {
			env, used, ar, e = wvm.VerifC15Deploy(tx, limit)
		} else {
			env, used, ar, e = wvm.VerifC15Call(tx, limit)
		}
		if used > limit {
			used = limit
		}
		res.success, res.err, res.gasUsed = e == nil, e, costs.WasmGasToGas(used)
		res.action = decodeActionResult(ar)
		hw := env.VerifC15Writes()
		for c, m := range hw.Store {
			for k, sv := range m {
				res.w.store[storeKey(c, k)] = storeWrite{sv.Value, sv.Removed}
			}
		}
		for a, b := range hw.Balances {
			res.w.balances[a] = b
		}
		for a, code := range hw.Deployed {
			res.w.deployedWasm[a] = code
		}
		res.w.events = hw.Events
		return res, nil
	}
	// commit = true: the writes land in the throw-away state cs and the buffers are read afterwards (they are kept until
	// the VM's next Run whether or not the execution succeeded)
	rec := v.Run(tx, nil, gasLimit, true)
	res.success, res.err, res.gasUsed = rec.Success, rec.Error, rec.GasUsed
	hw := v.(*vm.VmImpl).VerifC15Writes()
	for c, m := range hw.Store {
		for k, sv := range m {
			res.w.store[storeKey(c, k)] = storeWrite{sv.Value, sv.Removed}
		}
	}
	for a, b := range hw.Balances {
		res.w.balances[a] = b
	}
	for a, d := range hw.Deployed {
		res.w.deployedEmb[a] = state.ContractData{CodeHash: d.CodeHash, Stake: d.Stake}
	}
	for _, a := range hw.Dropped {
		res.w.dropped[a] = true
	}
	for a, s := range hw.Stakes {
		res.w.stakes[a] = s
	}
	res.w.events = hw.Events
	return res, nil
}

// burner methods may destroy coins explicitly (BurnAll / termination burns half of the stake).
func mayBurn(kind, op, method string) bool {
	if op == "terminate" {
		return true
	}
	switch kind {
	case "OracleVoting":
		return method == "finishVoting"
	case "RefundableOracleLock":
		return method == "refund"
	}
	return false
}

type txCase struct {
	w        *sim.World
	cfgUp11  bool
	burnRate float32
	tx       *types.Transaction
	sender   common.Address
	proposer common.Address
	mid       *appstate.AppState // throw-away state right before the tx: parent state + the txs preceding it in the block
	prefixFee *big.Int           // total fee of the preceding txs (the fee burn is computed on the block's total)
	with      *snap
	without  *snap
	rec      *types.TxReceipt
	dry      *dryResult
	fpg      *big.Int
	netSize  int
	kind     string // contract type of the target (registry), "" if unknown
	op       string // deploy | call | terminate
	method   string
	desc     string
}

func (c *txCase) midBal(a common.Address) *big.Int { return nz(c.mid.State.GetBalance(a)) }
func (c *txCase) midCStake(a common.Address) *big.Int {
	return nz(c.mid.State.GetContractStake(a))
}

func (c *txCase) failf(t *rapid.T, format string, args ...interface{}) {
	msg := fmt.Sprintf(format, args...)
	var diffs []string
	diffs = sim.DiffImages(c.with.img, c.without.img, c.w.Name)
	sort.Strings(diffs)
	if len(diffs) > 40 {
		diffs = diffs[:40]
	}
	t.Fatalf("%s\n  tx: %s\n  receipt: success=%v gasUsed=%d gasCost=%v contract=%s method=%q error=%v events=%d\n  replay: success=%v err=%v buffered writes: store=%d balances=%d deployed=%d dropped=%d stakes=%d events=%d\n  state with the tx vs without it:\n    %s",
		msg, c.desc, c.rec.Success, c.rec.GasUsed, c.rec.GasCost, c.rec.ContractAddress.Hex(), c.rec.Method, c.rec.Error, len(c.rec.Events),
		c.dry.success, c.dry.err, len(c.dry.w.store), len(c.dry.w.balances), len(c.dry.w.deployedEmb)+len(c.dry.w.deployedWasm), len(c.dry.w.dropped), len(c.dry.w.stakes), c.dry.w.events,
		strings.Join(diffs, "\n    "))
}

// check is the C15 oracle for one contract transaction that was included in a block.
func (c *txCase) check(t *rapid.T) {
	tx, rec, S, P := c.tx, c.rec, c.sender, c.proposer
	amount := tx.AmountOrZero()
	tips := tx.TipsOrZero()

	// --- fee and gas (ALWAYS) ---
	txFee := fee.CalculateFee(c.netSize, c.fpg, tx)
	gasCost := blockchain.GetGasCost(c.fpg, rec.GasUsed)
	if nz(rec.GasCost).Cmp(gasCost) != 0 {
		c.failf(t, "receipt gas cost %v is not gasUsed x feePerGas = %v", rec.GasCost, gasCost)
	}
	feeCharged := new(big.Int).Add(txFee, gasCost)
	if feeCharged.Cmp(tx.MaxFeeOrZero()) > 0 {
		c.failf(t, "fee charged %v (intrinsic %v + gas %v) exceeds the declared maximum fee %v", feeCharged, txFee, gasCost, tx.MaxFee)
	}
	gasLimit := gasLimitOf(c.netSize, c.fpg, tx)
	if gasLimit < 0 {
		gasLimit = 0
	}
	if rec.GasUsed > uint64(gasLimit) {
		c.failf(t, "gas used %d exceeds the gas the fee buys %d", rec.GasUsed, gasLimit)
	}
	if c.dry.isWasm && rec.Success && c.fpg.Sign() > 0 {
		if n := decodeActionResult(rec.ActionResult); n != nil && n.GasUsed > costs.GasToWasmGas(uint64(gasLimit)) {
			c.failf(t, "successful WASM execution reports %d units of gas used, the fee buys %d", n.GasUsed, costs.GasToWasmGas(uint64(gasLimit)))
		}
	}
	if rec.Success != c.dry.success {
		c.failf(t, "HARNESS: replay of the transaction on the same state disagrees with the receipt")
	}

	// --- expected state: the block without the tx + (on success) the buffered write-set + sender's charges + proposer's fee share ---
	applied := newWrites()
	if rec.Success {
		applied = c.dry.w
	}
	isWasm := c.dry.isWasm
	escrowed := amount.Sign() > 0 && (tx.Type == types.CallContractTx || isWasm)
	C := rec.ContractAddress
	if tx.To != nil {
		C = *tx.To
	}
	senderPays := new(big.Int).Add(feeCharged, tips)
	if rec.Success && !escrowed && (tx.Type != types.TerminateContractTx || c.cfgUp11) {
		// embedded deployment: the amount becomes the contract's stake and is taken from the sender after the execution
		// (a pre-upgrade-11 termination carrying an amount leaves it with the sender)
		senderPays.Add(senderPays, amount)
	}
	// the burnt share is computed on the block's total fee: this tx's part = burn(preceding + this) - burn(preceding)
	burnOf := func(f *big.Int) *big.Int {
		return math.ToInt(decimal.NewFromBigInt(f, 0).Mul(decimal.NewFromFloat32(c.burnRate)))
	}
	burn := new(big.Int).Sub(burnOf(new(big.Int).Add(nz(c.prefixFee), feeCharged)), burnOf(nz(c.prefixFee)))
	proposerShare := new(big.Int).Sub(feeCharged, burn)
	proposerShare.Add(proposerShare, tips)

	addrs := map[common.Address]bool{S: true, P: true, C: true}
	for _, m := range []map[common.Address]state.Account{c.with.img.Accounts, c.without.img.Accounts} {
		for a := range m {
			addrs[a] = true
		}
	}
	for a := range applied.balances {
		addrs[a] = true
	}
	for a := range c.with.img.Identities {
		addrs[a] = true
	}
	for a := range c.without.img.Identities {
		addrs[a] = true
	}
	var list []common.Address
	for a := range addrs {
		list = append(list, a)
	}
	sort.Slice(list, func(i, j int) bool { return bytes.Compare(list[i][:], list[j][:]) < 0 })

	for _, a := range list {
		// balance right after execution
		exec := new(big.Int).Set(c.midBal(a))
		if rec.Success && escrowed && a == C {
			exec.Add(exec, amount)
		}
		if rec.Success && escrowed && a == S {
			exec.Sub(exec, amount)
		}
		if b, ok := applied.balances[a]; ok {
			if b.Sign() < 0 {
				c.failf(t, "execution left %s with a negative balance %v (overspend)", c.w.Name(a), b)
			}
			exec = new(big.Int).Set(b)
		}
		if a == S {
			exec.Sub(exec, senderPays)
		}
		// everything else the block does to the address (block reward), taken from the block without the tx
		exec.Add(exec, new(big.Int).Sub(c.without.bal(a), c.midBal(a)))
		got := c.with.bal(a)
		if a == P {
			exec.Add(exec, c.without.idStake(a)).Add(exec, proposerShare)
			got = new(big.Int).Add(got, c.with.idStake(a))
			if got.Cmp(exec) != 0 {
				c.failf(t, "proposer %s: balance+stake with the tx %v, expected %v (without the tx + share %v of the fee %v and tips %v)", c.w.Name(a), got, exec, proposerShare, feeCharged, tips)
			}
		} else if got.Cmp(exec) != 0 {
			role := "address"
			switch a {
			case S:
				role = "sender"
			case C:
				role = "contract"
			}
			c.failf(t, "%s %s: balance with the tx %v, expected %v (without the tx %v, success=%v, fee charged %v, tips %v, pay amount %v)", role, c.w.Name(a), got, exec, c.without.bal(a), rec.Success, feeCharged, tips, amount)
		}
		// nonce / epoch
		aw, ao := c.with.img.Accounts[a], c.without.img.Accounts[a]
		if a == S {
			if aw.Nonce != tx.AccountNonce || aw.Epoch != tx.Epoch {
				c.failf(t, "sender nonce/epoch after the tx %d/%d, tx has %d/%d", aw.Nonce, aw.Epoch, tx.AccountNonce, tx.Epoch)
			}
		} else if aw.Nonce != ao.Nonce || aw.Epoch != ao.Epoch {
			c.failf(t, "nonce/epoch of %s changed: %d/%d vs %d/%d", c.w.Name(a), aw.Nonce, aw.Epoch, ao.Nonce, ao.Epoch)
		}
		// contract record
		var want *state.ContractData
		if ao.Contract != nil {
			cp := *ao.Contract
			want = &cp
		}
		if d, ok := applied.deployedEmb[a]; ok {
			cp := d
			want = &cp
		}
		if code, ok := applied.deployedWasm[a]; ok {
			if want == nil {
				want = &state.ContractData{}
			}
			want.CodeHash = crypto.Hash(code)
		}
		if st, ok := applied.stakes[a]; ok && want != nil {
			want.Stake = st
		}
		if applied.dropped[a] {
			want = nil
		}
		have := aw.Contract
		if (want == nil) != (have == nil) {
			c.failf(t, "contract record of %s: present with the tx = %v, expected present = %v", c.w.Name(a), have != nil, want != nil)
		}
		if want != nil {
			if want.CodeHash != have.CodeHash || nz(want.Stake).Cmp(nz(have.Stake)) != 0 {
				c.failf(t, "contract record of %s: code hash %x stake %v, expected code hash %x stake %v", c.w.Name(a), have.CodeHash[:4], have.Stake, want.CodeHash[:4], want.Stake)
			}
			if nz(have.Stake).Sign() < 0 {
				c.failf(t, "negative contract stake %v of %s", have.Stake, c.w.Name(a))
			}
			wantCode := c.without.code[a]
			if code, ok := applied.deployedWasm[a]; ok {
				wantCode = code
			}
			if !bytes.Equal(wantCode, c.with.code[a]) {
				c.failf(t, "contract code of %s: %d bytes with the tx, expected %d bytes", c.w.Name(a), len(c.with.code[a]), len(wantCode))
			}
		}
		// identity record
		if a != P {
			if !bytes.Equal(c.with.img.RawIds[a], c.without.img.RawIds[a]) {
				c.failf(t, "identity record of %s differs from the block without the tx", c.w.Name(a))
			}
		} else {
			iw, io := c.with.img.Identities[a], c.without.img.Identities[a]
			iw.Stake, io.Stake = nil, nil
			bw, _ := iw.ToBytes()
			bo, _ := io.ToBytes()
			if !bytes.Equal(bw, bo) {
				c.failf(t, "identity record of the proposer differs in more than the stake")
			}
		}
		if c.with.bal(a).Sign() < 0 || c.with.idStake(a).Sign() < 0 {
			c.failf(t, "negative balance/stake of %s", c.w.Name(a))
		}
	}

	// --- contract store: exactly the buffered writes on success, nothing on failure ---
	keys := map[string]bool{}
	for k := range c.with.store {
		keys[k] = true
	}
	for k := range c.without.store {
		keys[k] = true
	}
	for k := range applied.store {
		keys[k] = true
	}
	var klist []string
	for k := range keys {
		klist = append(klist, k)
	}
	sort.Strings(klist)
	for _, k := range klist {
		want, wantOk := c.without.store[k]
		if sw, ok := applied.store[k]; ok {
			want, wantOk = sw.value, !sw.removed
		}
		have, haveOk := c.with.store[k]
		if wantOk != haveOk || !bytes.Equal(want, have) {
			var ca common.Address
			if len(k) >= 21 {
				ca.SetBytes([]byte(k[1:21]))
			}
			_, buffered := applied.store[k]
			c.failf(t, "contract store key %q of %s: with the tx present=%v value=%x, expected present=%v value=%x (written by the successful execution: %v)", k[min(21, len(k)):], c.w.Name(ca), haveOk, have, wantOk, want, buffered)
		}
	}

	// --- the rest of the state ---
	var gw, gO state.Global
	if err := gw.FromBytes(c.with.img.Global); err == nil {
		if err := gO.FromBytes(c.without.img.Global); err == nil {
			gw.FeePerGas, gO.FeePerGas = nil, nil // next block's gas price follows the gas used in the block
			bw, _ := gw.ToBytes()
			bo, _ := gO.ToBytes()
			if !bytes.Equal(bw, bo) {
				c.failf(t, "global record differs in more than the gas price: %+v vs %+v", gw, gO)
			}
		}
	}
	for k, v := range c.with.img.Misc {
		if !strings.HasPrefix(k, "contract:") && c.without.img.Misc[k] != v {
			c.failf(t, "state section %s differs: %s vs %s", k, v, c.without.img.Misc[k])
		}
	}
	for k, v := range c.without.img.Misc {
		if _, ok := c.with.img.Misc[k]; !ok && !strings.HasPrefix(k, "contract:") {
			c.failf(t, "state section %s (%s) missing with the tx", k, v)
		}
	}

	// --- sender never pays more than maximum fee + tips + the amount it explicitly moved (ALWAYS) ---
	lost := new(big.Int).Sub(c.without.bal(S), c.with.bal(S))
	bound := new(big.Int).Add(tx.MaxFeeOrZero(), tips)
	if rec.Success {
		bound.Add(bound, amount)
	}
	if lost.Cmp(bound) > 0 {
		c.failf(t, "sender lost %v, more than max fee %v + tips %v + moved amount", lost, tx.MaxFee, tips)
	}

	// --- nobody but the sender and executing contracts loses value (ALWAYS) ---
	executing := map[common.Address]bool{C: true, rec.ContractAddress: true}
	if isWasm {
		decodeActionResult(rec.ActionResult).walk(func(n *actionNode, _ int) { executing[n.Contract] = true }, 0)
	}
	for _, a := range list {
		if a == S || executing[a] {
			continue
		}
		if d := new(big.Int).Sub(c.with.holdings(a), c.without.holdings(a)); d.Sign() < 0 {
			c.failf(t, "%s is neither the sender nor an executing contract and lost %v", c.w.Name(a), new(big.Int).Neg(d))
		}
	}

	// --- WASM sub-actions that failed (or sit inside a failed one) leave no trace. Decided from the receipt's action tree
	// and the two states only - independent of the environment's write buffers: a contract that only such actions ran on /
	// would have created must look exactly as in the block without the tx (account incl. contract record, code, store). ---
	if isWasm {
		tree := decodeActionResult(rec.ActionResult)
		live := map[common.Address]bool{}
		if rec.Success {
			live[C], live[rec.ContractAddress] = true, true
		}
		tree.walkEff(func(x *actionNode, _ int, eff bool) {
			if eff {
				live[x.target()] = true
			}
		}, 0, true)
		failedSubs := 0
		tree.walkEff(func(x *actionNode, depth int, eff bool) {
			if depth == 0 || eff {
				return
			}
			failedSubs++
			switch x.Type {
			case actionDeploy:
				subStats("failed-sub-deployment")
				if x.Type == actionDeploy && len(x.Code) > 0 && !x.Contract.IsEmpty() && x.Contract != wasm.ComputeContractAddr(x.Code, x.Args, x.Nonce) {
					c.failf(t, "failed sub-deployment reports address %s, the VM's rule gives %s", x.Contract.Hex(), wasm.ComputeContractAddr(x.Code, x.Args, x.Nonce).Hex())
				}
			case actionCall:
				subStats("failed-sub-call")
			default:
				subStats(fmt.Sprintf("failed-sub-action-type-%d", x.Type))
			}
			a := x.target()
			if a.IsEmpty() || live[a] || a == S || a == P {
				return // also the target of an action that took effect (e.g. a failed callback on the calling contract): nothing to say
			}
			what := "sub-call"
			if x.Type == actionDeploy {
				what = "sub-deployment"
			}
			aw, inW := c.with.img.Accounts[a]
			ao, inO := c.without.img.Accounts[a]
			if inW != inO {
				c.failf(t, "failed %s (%q on %s: %s) left a trace: account exists with the tx = %v, without = %v (contract record %v)", what, x.Method, a.Hex(), x.Error, inW, inO, aw.Contract != nil)
			}
			bw, _ := aw.ToBytes()
			bo, _ := ao.ToBytes()
			if !bytes.Equal(bw, bo) {
				c.failf(t, "failed %s (%q on %s: %s) left a trace: account record differs from the block without the tx (balance %v vs %v, contract record %v vs %v)", what, x.Method, a.Hex(), x.Error, aw.Balance, ao.Balance, aw.Contract != nil, ao.Contract != nil)
			}
			if !bytes.Equal(c.with.code[a], c.without.code[a]) {
				c.failf(t, "failed %s (%q on %s: %s) left a trace: %d bytes of code with the tx, %d without", what, x.Method, a.Hex(), x.Error, len(c.with.code[a]), len(c.without.code[a]))
			}
			prefix := storeKey(a, "")
			for _, k := range klist {
				if strings.HasPrefix(k, prefix) {
					vw, okW := c.with.store[k]
					vo, okO := c.without.store[k]
					if okW != okO || !bytes.Equal(vw, vo) {
						c.failf(t, "failed %s (%q on %s: %s) left a trace: store key %q differs from the block without the tx", what, x.Method, a.Hex(), x.Error, k[len(prefix):])
					}
				}
			}
			subStats("failed-sub-action-target-compared-with-reference")
		}, 0, true)
		if failedSubs > 0 && rec.Success {
			subStats("successful-tx-with-failed-sub-action")
		}
	}

	// --- conservation (ALWAYS): ledger total changes by the burnt part of the fee and explicit burns only ---
	delta := new(big.Int).Sub(c.with.total(), c.without.total())
	missing := new(big.Int).Neg(delta)
	missing.Sub(missing, burn) // value that disappeared beyond the fee burn
	if !rec.Success || !mayBurn(c.kind, c.op, c.method) || isWasm {
		if missing.Sign() != 0 {
			c.failf(t, "ledger total with the tx - without = %v, expected exactly -%v (burnt part of the fee %v); unexplained %v", delta, burn, feeCharged, missing)
		}
	} else {
		// explicit burns: at most what the contract held (incl. the pay amount), plus for a termination exactly the
		// half of the stake that is not refunded
		lo, hi := new(big.Int), new(big.Int).Set(c.midBal(C))
		if escrowed {
			hi.Add(hi, amount)
		}
		if c.op == "terminate" {
			if _, gone := applied.dropped[C]; gone {
				st := c.midCStake(C)
				half := new(big.Int).Sub(st, new(big.Int).Quo(st, big.NewInt(2)))
				lo.Add(lo, half)
				hi.Add(hi, half)
			}
		}
		if missing.Cmp(lo) < 0 || missing.Cmp(hi) > 0 {
			c.failf(t, "ledger total with the tx - without = %v: beyond the fee burn %v, %v disappeared; explicit burns allowed in [%v, %v]", delta, burn, missing, lo, hi)
		}
	}

	// --- success: named contracts exist ---
	if rec.Success {
		if c.op != "terminate" {
			if c.with.img.Accounts[rec.ContractAddress].Contract == nil {
				c.failf(t, "successful %s but %s carries no contract", c.op, rec.ContractAddress.Hex())
			}
		}
		for _, e := range rec.Events {
			if !e.Contract.IsEmpty() && c.with.img.Accounts[e.Contract].Contract == nil {
				c.failf(t, "event %s names %s which carries no contract", e.EventName, e.Contract.Hex())
			}
		}
		if c.op == "deploy" && !isWasm {
			att := attachments.ParseDeployContractAttachment(tx)
			cd := c.with.img.Accounts[rec.ContractAddress].Contract
			if cd.CodeHash != att.CodeHash || nz(cd.Stake).Cmp(amount) != 0 {
				c.failf(t, "deployed embedded contract has code hash %x stake %v, tx says %x / %v", cd.CodeHash[:4], cd.Stake, att.CodeHash[:4], amount)
			}
		}
		if c.op == "terminate" && c.midCStake(C).Sign() > 0 && c.with.img.Accounts[C].Contract != nil {
			c.failf(t, "successful termination but the contract record is still there")
		}
	}
}

package c15

import (
	"math/big"
	"strings"
	"testing"
	"time"

	"github.com/idena-network/idena-go/blockchain/attachments"
	"github.com/idena-network/idena-go/blockchain/fee"
	"github.com/idena-network/idena-go/blockchain/types"
	"github.com/idena-network/idena-go/blockchain/validation"
	"github.com/idena-network/idena-go/common"
	"github.com/idena-network/idena-go/core/state"
	"github.com/idena-network/idena-go/vm/embedded"
	"github.com/idena-network/idena-go/vm/env"

	"verifharness/internal/evid"
	"verifharness/internal/sim"
)

// fixedWorld: scaffolding of a fixed history (no drawn values): blocks are built by copies of the main replica that run
// under the host time zone buildLoc, then inserted by their builder and by the main replica A (second node, own zone).
type fixedWorld struct {
	t        *testing.T
	w        *sim.World
	A        *sim.Replica
	buildLoc *time.Location
	nonces   map[int]uint32
}

func newFixedWorld(t *testing.T, keySeed uint64, n int, buildLoc, secondLoc *time.Location) *fixedWorld {
	params := sim.Params{KeySeed: keySeed, NActors: n, Profile: "v12", SwitchRng: 2, DelegRng: 2, DiscrRng: 3, SnapRng: 1000,
		Start: time.Date(2030, 1, 5, 12, 0, 0, 0, time.UTC).Unix(), CeremonyIn: 600000000, Interval: 3600, LotteryDur: 30, ShortDur: 30, LongDur: 30}
	for i := 0; i < n; i++ {
		params.States = append(params.States, state.Verified)
		params.Balances = append(params.Balances, sim.Dna(500000))
		params.Stakes = append(params.Stakes, sim.Dna(10))
	}
	w := sim.NewWorld(params)
	A, err := w.AddReplica("A", w.God.Key, nil)
	if err != nil {
		t.Fatalf("replica: %v", err)
	}
	A.Loc = secondLoc
	return &fixedWorld{t: t, w: w, A: A, buildLoc: buildLoc, nonces: map[int]uint32{}}
}

func (f *fixedWorld) mk(a *sim.Actor, typ types.TxType, to *common.Address, amount *big.Int, payload []byte) *types.Transaction {
	s := f.A.ReadState()
	f.nonces[a.Idx]++
	tx := &types.Transaction{Type: typ, To: to, Epoch: s.State.Epoch(), AccountNonce: f.nonces[a.Idx], Amount: amount, Payload: payload}
	fpg, netSize := nz(s.State.FeePerGas()), s.ValidatorsCache.NetworkSize()
	if min := fee.GetFeePerGasForNetwork(netSize); fpg.Cmp(min) < 0 {
		fpg = min
	}
	feeFor(tx, netSize, fpg, 60000, nil)
	stx, err := types.SignTx(tx, a.Key)
	if err != nil {
		f.t.Fatalf("sign: %v", err)
	}
	return stx
}

func (f *fixedWorld) send(a *sim.Actor, to common.Address, amount *big.Int) *types.Transaction {
	return f.mk(a, types.SendTx, &to, amount, nil)
}

func (f *fixedWorld) call(a *sim.Actor, c common.Address, method string, amount *big.Int, args ...[]byte) *types.Transaction {
	payload, _ := attachments.CreateCallContractAttachment(method, args...).ToBytes()
	return f.mk(a, types.CallContractTx, &c, amount, payload)
}

func (f *fixedWorld) terminate(a *sim.Actor, c common.Address, args ...[]byte) *types.Transaction {
	payload, _ := attachments.CreateTerminateContractAttachment(args...).ToBytes()
	return f.mk(a, types.TerminateContractTx, &c, big.NewInt(0), payload)
}

func (f *fixedWorld) deployTimeLock(a *sim.Actor, unlock uint64) *types.Transaction {
	payload, _ := attachments.CreateDeployContractAttachment(embedded.TimeLockContract, nil, nil, u64b(unlock)).ToBytes()
	minStake := new(big.Int).Mul(nz(f.A.ReadState().State.FeePerGas()), big.NewInt(3000000))
	return f.mk(a, types.DeployContractTx, nil, minStake, payload)
}

func (f *fixedWorld) intact(what string) {
	if bad := poisonedConstants(); len(bad) > 0 {
		f.t.Fatalf("a process-wide constant was written into: %s after %s", strings.Join(bad, ", "), what)
	}
}

// mine: the txs in one block (in the given order - the caller chooses nonces accordingly), built under the builder's
// zone, inserted by the builder and by the second node.
func (f *fixedWorld) mine(what string, txs ...*types.Transaction) {
	t := f.t
	f.w.Advance(20 * time.Second)
	c := &sim.Replica{W: f.w, Name: "builder", Key: f.A.Key, Addr: f.A.Addr, DB: sim.CopyDB(f.A.DB), Ipfs: f.A.Ipfs, Loc: f.buildLoc}
	if err := c.Start(); err != nil {
		t.Fatalf("start copy: %v", err)
	}
	for _, tx := range txs {
		if err := c.Pool.AddExternalTxs(validation.MempoolTx, tx); err != nil {
			t.Fatalf("HARNESS: pool refuses a tx of the fixed history (%s): %v", what, err)
		}
	}
	b := c.Propose().Block
	f.intact("building the block: " + what)
	if len(b.Body.Transactions) != len(txs) {
		t.Fatalf("HARNESS: the builder took %d of %d txs (%s)", len(b.Body.Transactions), len(txs), what)
	}
	for i, tx := range txs {
		if b.Body.Transactions[i].Hash() != tx.Hash() {
			t.Fatalf("HARNESS: the builder changed the order of the txs (%s)", what)
		}
	}
	err := c.AddBlock(b)
	f.intact("its builder executed the block: " + what)
	if err != nil {
		t.Fatalf("%s: block refused by its own builder: %v", what, err)
	}
	err = f.A.AddBlock(b)
	f.intact("the second node executed the block: " + what)
	if err != nil {
		t.Fatalf("%s: block built under host time zone %s refused by a second replica under %s: %v", what, f.buildLoc, f.A.Loc, err)
	}
}

func (f *fixedWorld) receipt(tx *types.Transaction, wantSuccess bool, what string) *types.TxReceipt {
	r := f.A.Chain.GetReceipt(tx.Hash())
	if r == nil || r.Success != wantSuccess {
		f.t.Fatalf("HARNESS: %s: receipt %+v, expected success=%v", what, r, wantSuccess)
	}
	return r
}

func (f *fixedWorld) bal(a common.Address) *big.Int { return nz(f.A.ReadState().State.GetBalance(a)) }

// Fixed history with the shapes the generated programs gained in round 5 (each is also reached by the generators):
// (1) a failing call whose failure text could carry node-local data (TimeLock.transfer before the unlock time) in a block
// built under UTC and validated under UTC+9; (2) an embedded deployment to an address that already holds coins (paid to the
// future address hash(deployer, epoch, nonce) earlier in the same block): the coins stay; (3) a TimeLock that holds dust is
// terminated and a SendTx to its address FOLLOWS in the same block: both nodes accept, the address holds exactly what was
// sent; (4) a TimeLock that holds dust is terminated with ITSELF as the destination of the refunded half of its stake.
// After every block the process-wide constants (common.Big0, ...) must hold their values, and an address nobody ever used
// must read as empty.
func TestKnownContractBlockShapes(t *testing.T) {
	evid.Eval()
	f := newFixedWorld(t, 1516, 6, time.UTC, time.FixedZone("UTC+9", 9*3600))
	a := f.w.Actors
	f.mine("empty block (the genesis state has gas price 0)")
	now := uint64(f.w.Now().Unix())

	// (1) locked time lock: the owner's transfer fails; the failure text is part of the receipt
	d1 := f.deployTimeLock(a[1], now+1000000)
	f.mine("deployment of a locked TimeLock", d1)
	lock1 := f.receipt(d1, true, "deployment").ContractAddress
	tr := f.call(a[1], lock1, "transfer", big.NewInt(0), a[2].Addr.Bytes(), big.NewInt(1).Bytes())
	tm := f.terminate(a[1], lock1, a[1].Addr.Bytes())
	f.mine("transfer and termination of a locked TimeLock (both fail), built under UTC and validated under UTC+9", tr, tm)
	f.receipt(tr, false, "transfer before the unlock time")
	f.receipt(tm, false, "termination before the unlock time")
	evid.Count("known.shapes.failed-call-validated-under-another-host-zone")

	// (2) deployment to a pre-funded address, same block
	s := f.A.ReadState()
	future := env.ComputeContractAddr(&types.Transaction{Epoch: s.State.Epoch(), AccountNonce: f.nonces[a[2].Idx] + 2}, a[2].Addr)
	pre := f.send(a[2], future, sim.Dna(777))
	d2 := f.deployTimeLock(a[2], now-1)
	f.mine("SendTx to the future contract address, then the deployment", pre, d2)
	lock2 := f.receipt(d2, true, "deployment to a pre-funded address").ContractAddress
	if lock2 != future {
		t.Fatalf("HARNESS: contract address %s, computed %s", lock2.Hex(), future.Hex())
	}
	if got := f.bal(lock2); got.Cmp(sim.Dna(777)) != 0 {
		t.Fatalf("777 DNA sat at the address before the contract was deployed to it; a successful deployment only adds code hash and stake, but the address now holds %v", got)
	}
	evid.Count("known.shapes.deployment-to-a-prefunded-address")

	// (3) dust, termination, then a credit to the dropped contract in the same block
	rest := new(big.Int).Mul(nz(f.A.ReadState().State.FeePerGas()), big.NewInt(50)) // half the dust limit (100 x gas price)
	out := f.call(a[2], lock2, "transfer", big.NewInt(0), a[3].Addr.Bytes(), new(big.Int).Sub(sim.Dna(777), rest).Bytes())
	f.mine("payout that leaves dust", out)
	f.receipt(out, true, "transfer of everything but some dust")
	if got, limit := f.bal(lock2), new(big.Int).Mul(nz(f.A.ReadState().State.FeePerGas()), big.NewInt(100)); got.Sign() <= 0 || got.Cmp(limit) > 0 {
		t.Fatalf("HARNESS: the time lock holds %v, expected dust (limit %v)", got, limit)
	}
	term := f.terminate(a[2], lock2, a[2].Addr.Bytes())
	late := f.send(a[2], lock2, sim.Dna(5))
	f.mine("termination of a TimeLock holding dust, followed by a SendTx to its address", term, late)
	f.receipt(term, true, "termination with dust")
	if got := f.bal(lock2); got.Cmp(sim.Dna(5)) != 0 {
		t.Fatalf("the dust was burnt, then 5 DNA were sent to the address of the dropped contract: it holds %v", got)
	}
	evid.Count("known.shapes.credit-follows-the-burn-in-the-same-block")

	// (4) dust, termination with the contract itself as the refund destination
	d4 := f.deployTimeLock(a[3], now-1)
	f.mine("deployment of an unlocked TimeLock", d4)
	lock4 := f.receipt(d4, true, "deployment").ContractAddress
	stake := nz(f.A.ReadState().State.GetContractStake(lock4))
	f.mine("one wei for the time lock", f.send(a[3], lock4, big.NewInt(1)))
	self := f.terminate(a[3], lock4, lock4.Bytes())
	f.mine("termination of a TimeLock holding dust with itself as the refund destination", self)
	f.receipt(self, true, "termination with refund to itself")
	if got, want := f.bal(lock4), new(big.Int).Quo(stake, big.NewInt(2)); got.Cmp(want) != 0 {
		t.Fatalf("the dropped contract was named as the destination of the refunded half of its stake %v, it holds %v", want, got)
	}
	evid.Count("known.shapes.termination-with-dust-refunds-to-itself")

	// nothing appeared from nowhere: an address nobody ever used is empty, a first stake credit is exact
	st := f.A.ReadState().State
	if b := st.GetBalance(common.Address{0xc1, 0x5}); b.Sign() != 0 {
		t.Fatalf("an address that never appeared on the chain holds %v", b)
	}
	if s := st.GetStakeBalance(common.Address{0xc1, 0x5}); s.Sign() != 0 {
		t.Fatalf("an address that never appeared on the chain has stake %v", s)
	}
	evid.NonTrivial("known|zone + prefunded deployment + late credit + refund to itself")
}

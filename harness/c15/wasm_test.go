package c15

import (
	"fmt"
	"math/big"

	"github.com/golang/protobuf/proto"
	"github.com/idena-network/idena-go/common"
	"github.com/idena-network/idena-go/vm/wasm"
	"github.com/idena-network/idena-go/vm/wasm/testdata"
	models "github.com/idena-network/idena-wasm-binding/lib/protobuf"
)

// wasmBin is one of the WASM binaries bundled with the repository
// (vm/wasm/testdata). Its method table is read from the binary's export section.
type wasmBin struct {
	name    string
	code    []byte
	methods []string
}

var wasmBins []*wasmBin

func init() {
	for _, b := range []struct {
		name string
		load func() ([]byte, error)
	}{
		{"inc_func", testdata.IncFunc}, {"sum_func", testdata.SumFunc}, {"erc20", testdata.Erc20},
		{"shared-fungible-token-wallet", testdata.SharedFungibleToken}, {"test-cases", testdata.TestCases},
	} {
		code, err := b.load()
		if err != nil {
			panic(err)
		}
		wb := &wasmBin{name: b.name, code: code}
		for _, e := range wasmExports(code) {
			if e != "memory" && e != "allocate" {
				wb.methods = append(wb.methods, e)
			}
		}
		wasmBins = append(wasmBins, wb)
	}
}

func leb(b []byte, i int) (uint64, int) {
	var r uint64
	var s uint
	for i < len(b) {
		x := b[i]
		i++
		r |= uint64(x&0x7f) << s
		s += 7
		if x < 0x80 {
			break
		}
	}
	return r, i
}

// wasmExports lists the names of exported functions of a WASM module.
func wasmExports(b []byte) []string {
	var out []string
	i := 8
	for i < len(b) {
		id := b[i]
		i++
		sz, j := leb(b, i)
		end := j + int(sz)
		if id == 7 {
			n, k := leb(b, j)
			for x := uint64(0); x < n && k < end; x++ {
				l, k2 := leb(b, k)
				name := string(b[k2 : k2+int(l)])
				k = k2 + int(l)
				kind := b[k]
				k++
				_, k = leb(b, k)
				if kind == 0 {
					out = append(out, name)
				}
			}
		}
		i = end
	}
	return out
}

// actionNode is the decoded execution tree a WASM receipt carries.
type actionNode struct {
	Type     uint32
	Method   string
	Amount   *big.Int
	Success  bool
	Error    string
	GasUsed  uint64
	GasLimit uint64
	Contract common.Address
	Code     []byte // deployment actions: what the VM derives the new contract's address from
	Args     []byte
	Nonce    []byte
	Subs     []*actionNode
}

const (
	actionCall   = 1
	actionDeploy = 3
)

// target is the contract the action runs on; for a deployment the address it creates, computed the way the VM does
// (hash of code hash, packed arguments, nonce) when the result does not name it.
func (n *actionNode) target() common.Address {
	if n.Type == actionDeploy && len(n.Code) > 0 {
		a := wasm.ComputeContractAddr(n.Code, n.Args, n.Nonce)
		if n.Contract.IsEmpty() {
			return a
		}
	}
	return n.Contract
}

// walkEff visits every node with the information whether it took effect: an action's writes survive only if the action
// and all the actions that enclose it succeeded.
func (n *actionNode) walkEff(f func(x *actionNode, depth int, effective bool), depth int, parentEff bool) {
	if n == nil {
		return
	}
	eff := parentEff && n.Success
	f(n, depth, eff)
	for _, s := range n.Subs {
		s.walkEff(f, depth+1, eff)
	}
}

func decodeActionResult(data []byte) *actionNode {
	if len(data) == 0 {
		return nil
	}
	var ar models.ActionResult
	if err := proto.Unmarshal(data, &ar); err != nil {
		return nil
	}
	return toNode(&ar)
}

func toNode(a *models.ActionResult) *actionNode {
	n := &actionNode{Success: a.Success, Error: a.Error, GasUsed: a.GasUsed, Amount: new(big.Int)}
	n.Contract.SetBytes(a.Contract)
	if a.InputAction != nil {
		n.Type = a.InputAction.ActionType
		n.Method = a.InputAction.Method
		n.Amount.SetBytes(a.InputAction.Amount)
		n.GasLimit = a.InputAction.GasLimit
		n.Code, n.Args, n.Nonce = a.InputAction.Code, a.InputAction.Args, a.InputAction.Nonce
	}
	for _, s := range a.SubActionResults {
		n.Subs = append(n.Subs, toNode(s))
	}
	return n
}

func (n *actionNode) walk(f func(*actionNode, int), depth int) {
	if n == nil {
		return
	}
	f(n, depth)
	for _, s := range n.Subs {
		s.walk(f, depth+1)
	}
}

func (n *actionNode) String() string {
	s := ""
	n.walk(func(x *actionNode, d int) {
		for i := 0; i < d; i++ {
			s += "  "
		}
		s += fmt.Sprintf("[type=%d %q on %s amount=%v limit=%d used=%d ok=%v %s]\n", x.Type, x.Method, x.Contract.Hex()[:10], x.Amount, x.GasLimit, x.GasUsed, x.Success, x.Error)
	}, 0)
	return s
}

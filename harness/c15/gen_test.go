package c15

import (
	"fmt"
	"math/big"
	"strings"
	"time"

	"github.com/idena-network/idena-go/blockchain/attachments"
	"github.com/idena-network/idena-go/blockchain/fee"
	"github.com/idena-network/idena-go/blockchain/types"
	"github.com/idena-network/idena-go/common"
	"github.com/idena-network/idena-go/core/state"
	"github.com/idena-network/idena-go/crypto"
	"github.com/idena-network/idena-go/vm/embedded"
	"github.com/idena-network/idena-go/vm/env"
	"pgregory.net/rapid"

	"verifharness/internal/sim"
)

type embType struct {
	name    string
	hash    common.Hash
	methods []string // the contract's own method table (Call switch)
}

var embTypes = []*embType{
	{"TimeLock", embedded.TimeLockContract, []string{"transfer"}},
	{"OracleVoting", embedded.OracleVotingContract, []string{"startVoting", "sendVoteProof", "sendVote", "finishVoting", "prolongVoting", "addStake"}},
	{"OracleLock", embedded.OracleLockContract, []string{"push", "checkOracleVoting"}},
	{"RefundableOracleLock", embedded.RefundableOracleLockContract, []string{"deposit", "push", "refund"}},
	{"Multisig", embedded.MultisigContract, []string{"add", "send", "push"}},
}

func embByName(n string) *embType {
	for _, e := range embTypes {
		if e.name == n {
			return e
		}
	}
	return nil
}

type voteHint struct {
	vote         byte
	salt         []byte
	proof, voted bool
}

type msVote struct {
	dest   common.Address
	amount []byte
}

// contract is the harness' note about a deployed contract (steering only, never used as an oracle).
type contract struct {
	addr   common.Address
	kind   string // embedded type name or "wasm:<binary>"
	emb    *embType
	bin    *wasmBin
	owner  *sim.Actor
	dead   bool
	votes  map[int]*voteHint // oracle voting, by actor index
	voters map[int]bool      // multisig
	sent   map[int]msVote    // multisig
	ov     *contract         // locks: the voting contract they watch (nil = not a known voting contract)
}

func (c *contract) methods() []string {
	if c.emb != nil {
		return c.emb.methods
	}
	return c.bin.methods
}

// opSpec describes one step of a program.
type opSpec struct {
	special string // "", "blocks", "time", "fund"

	forceAmple   bool          // no hostile gas budget (used for the members of a multi-deployment block)
	codeHash     *common.Hash  // WASM deployment: hash of the deployed code
	presetPrefix []*prefixItem // the block prefix is given (multi-deployment block) instead of drawn
	shape        string        // label of a preset block shape
	nonceOffset  int           // txs of the same sender that precede this one in the block
	pinNonce    bool // the payload depends on the tx nonce (a deployment that names its own future address)
	selfArg     bool // an address argument is the target contract itself
	n       int
	dur     time.Duration

	sender    *sim.Actor
	typ       types.TxType
	target    *contract
	payload   []byte
	amount    *big.Int
	kind      string
	op        string
	method    string
	argClass  string
	smart     bool
	created   *contract
	onSuccess func()
	post      func(c *txCase) string
}

type prog struct {
	t         *rapid.T
	w         *sim.World
	A         *sim.Replica
	profile   string
	focus     string
	calm      bool // a program that mostly plays by the rules (deep life-cycle states); hostile draws are rarer
	contracts []*contract
	senders   []*sim.Actor
	last      *contract

	codeSeq    int                  // distinct WASM codes made so far (see uniqueCode)
	knownCodes map[common.Hash]bool // code hashes already stored by a successful deployment

	chainOdds int // per cent of the steps on a live contract whose block is a same-contract chain (see drawChain)

	buildLoc *time.Location // host time zone of the node that builds the blocks (the copies); the main replica = second node has its own

	ctxAddrs   []common.Address // addresses with a role in the step being generated: the target contract itself (for a deployment: its future address)
	selfPicked bool             // an address argument of the step being generated is the target contract itself
}

// nextNonce is the nonce the actor's next transaction must carry on the main replica's head state.
func (p *prog) nextNonce(a *sim.Actor) uint32 {
	s := p.A.ReadState()
	if s.State.GetEpoch(a.Addr) < s.State.Epoch() {
		return 1
	}
	return s.State.GetNonce(a.Addr) + 1
}

// rapid's integer draws favour small and boundary values; both helpers scramble the drawn number so that the
// alternatives are roughly equally likely (the minimal draw 0 still maps to alternative 0 / "yes").
func scramble(v int) uint64 { return (uint64(v) * 2654435761) >> 9 }
func (p *prog) draw(label string, n int) int {
	return int(scramble(rapid.IntRange(0, 1<<20).Draw(p.t, label)) % uint64(n))
}
func (p *prog) chance(label string, pct int) bool {
	return int(scramble(rapid.IntRange(0, 1<<20).Draw(p.t, label))%100) < pct
}

func (p *prog) now() int64    { return p.w.Now().Unix() }
func (p *prog) fpg() *big.Int { return nz(p.A.ReadState().State.FeePerGas()) }
func (p *prog) netSize() int  { return p.A.ReadState().ValidatorsCache.NetworkSize() }
func (p *prog) balance(a common.Address) *big.Int {
	return nz(p.A.ReadState().State.GetBalance(a))
}
func (p *prog) cval(c *contract, key string) []byte {
	return p.A.ReadState().State.GetContractValue(c.addr, []byte(key))
}
func (p *prog) cbyte(c *contract, key string) byte {
	v := p.cval(c, key)
	if len(v) == 0 {
		return 0
	}
	return v[0]
}
func (p *prog) cu64(c *contract, key string) uint64 {
	v := p.cval(c, key)
	if len(v) < 8 {
		return 0
	}
	var r uint64
	for i := 7; i >= 0; i-- {
		r = r<<8 | uint64(v[i])
	}
	return r
}
func (p *prog) minStake() *big.Int { return new(big.Int).Mul(p.fpg(), big.NewInt(3000000)) }

func (p *prog) anySender(label string) *sim.Actor {
	return p.senders[p.draw(label, len(p.senders))]
}

// ownerOr picks the owner most of the time.
func (p *prog) ownerOr(c *contract, label string) *sim.Actor {
	if c.owner != nil && rapid.IntRange(0, 9).Draw(p.t, label+"NotOwner") < 8 {
		return c.owner
	}
	return p.anySender(label)
}

func (p *prog) identitySenders() []*sim.Actor {
	var res []*sim.Actor
	st := p.A.ReadState().State
	for _, a := range p.senders {
		if st.GetIdentityState(a.Addr).NewbieOrBetter() {
			res = append(res, a)
		}
	}
	return res
}

// ---- typed argument generators ----

func u64b(v uint64) []byte { return common.ToBytes(v) }

func (p *prog) actorAddr(label string) common.Address {
	return p.w.Actors[p.draw(label, len(p.w.Actors))].Addr
}

// destAddr: an actor, or (1 time in 6) the contract the step runs on.
func (p *prog) destAddr(label string) common.Address {
	if len(p.ctxAddrs) > 0 && p.chance(label+"Self", 16) {
		p.selfPicked = true
		return p.ctxAddrs[0]
	}
	return p.actorAddr(label)
}

func (p *prog) anyAddr(label string) []byte {
	switch rapid.IntRange(0, 13).Draw(p.t, label+"Class") {
	case 12, 13:
		// the contract the step runs on names ITSELF (self-transfer, lock whose success / fail address is the lock, ...)
		if len(p.ctxAddrs) > 0 {
			p.selfPicked = true
			return p.ctxAddrs[p.draw(label+"Self", len(p.ctxAddrs))].Bytes()
		}
		return p.actorAddr(label).Bytes()
	case 0, 1, 2, 3:
		return p.actorAddr(label).Bytes()
	case 4:
		if len(p.contracts) > 0 {
			return p.contracts[p.draw(label+"Contract", len(p.contracts))].addr.Bytes()
		}
		return p.actorAddr(label).Bytes()
	case 5:
		return common.Address{}.Bytes()
	case 6:
		return nil
	case 7:
		return []byte{}
	case 8:
		return []byte{1, 2, 3, 4, 5}
	case 9:
		return append(p.actorAddr(label).Bytes(), make([]byte, 12)...)
	case 10:
		return p.w.NewActor().Addr.Bytes()
	default:
		return p.w.God.Addr.Bytes()
	}
}

func (p *prog) anyU64(label string, hints ...uint64) []byte {
	k := rapid.IntRange(0, 19).Draw(p.t, label+"Class")
	if k < 15 && len(hints) > 0 {
		return u64b(hints[p.draw(label+"Hint", len(hints))])
	}
	switch k % 5 {
	case 0:
		return u64b(0)
	case 1:
		return u64b(1)
	case 2:
		return u64b(1 << 63)
	case 3:
		return u64b(^uint64(0))
	default:
		switch p.draw(label+"Odd", 4) {
		case 0:
			return nil
		case 1:
			return []byte{7, 0, 0}
		case 2:
			return append(u64b(3), 9, 9, 9)
		default:
			return u64b(uint64(rapid.Uint32().Draw(p.t, label+"Rnd")))
		}
	}
}

func (p *prog) anyBig(label string, hints ...*big.Int) []byte {
	k := rapid.IntRange(0, 19).Draw(p.t, label+"Class")
	if k < 15 && len(hints) > 0 {
		return hints[p.draw(label+"Hint", len(hints))].Bytes()
	}
	switch k % 5 {
	case 0:
		return big.NewInt(0).Bytes()
	case 1:
		return big.NewInt(1).Bytes()
	case 2:
		return new(big.Int).Lsh(big.NewInt(1), 200).Bytes()
	case 3:
		return nil
	default:
		return sim.Dna(int64(rapid.IntRange(1, 5000).Draw(p.t, label+"Dna"))).Bytes()
	}
}

func (p *prog) anyByte(label string, hints ...byte) []byte {
	k := rapid.IntRange(0, 19).Draw(p.t, label+"Class")
	if k < 16 && len(hints) > 0 {
		return []byte{hints[p.draw(label+"Hint", len(hints))]}
	}
	switch k % 4 {
	case 0:
		return []byte{0}
	case 1:
		return []byte{255}
	case 2:
		return []byte{}
	default:
		return []byte{byte(rapid.IntRange(0, 255).Draw(p.t, label+"Rnd")), 9}
	}
}

func (p *prog) anyBlob(label string) []byte {
	switch rapid.IntRange(0, 5).Draw(p.t, label+"Class") {
	case 0, 1:
		return []byte("fact-" + fmt.Sprint(p.draw(label+"N", 5)))
	case 2:
		return []byte{}
	case 3:
		return nil
	case 4:
		return make([]byte, 300)
	default:
		return rapid.SliceOfN(rapid.Byte(), 1, 40).Draw(p.t, label+"Bytes")
	}
}

func (p *prog) wildArg(label string) []byte {
	switch p.draw(label+"Type", 5) {
	case 0:
		return p.anyAddr(label + "A")
	case 1:
		return p.anyU64(label + "U")
	case 2:
		return p.anyBig(label + "B")
	case 3:
		return p.anyByte(label + "Y")
	default:
		return p.anyBlob(label + "L")
	}
}

func (p *prog) wildArgs(label string) [][]byte {
	n := rapid.IntRange(0, 12).Draw(p.t, label+"Arity")
	var res [][]byte
	for i := 0; i < n; i++ {
		res = append(res, p.wildArg(label))
	}
	return res
}

// mangle turns a well-typed argument vector into one of: as is, wrong arity, one wild argument, all wild.
func (p *prog) mangle(args [][]byte, label string) ([][]byte, string) {
	m := rapid.IntRange(0, 11).Draw(p.t, label+"Mangle")
	if p.calm && m >= 8 && !p.chance(label+"MangleAnyway", 25) {
		m = 0
	}
	switch m {
	case 8:
		if len(args) > 0 {
			return args[:p.draw(label+"Keep", len(args))], "arity-"
		}
	case 9:
		return append(append([][]byte{}, args...), p.wildArgs(label+"Extra")...), "arity+"
	case 10:
		if len(args) > 0 {
			cp := append([][]byte{}, args...)
			cp[p.draw(label+"Idx", len(cp))] = p.wildArg(label + "Repl")
			return cp, "onewild"
		}
	case 11:
		return p.wildArgs(label + "All"), "wild"
	}
	return args, "typed"
}

var oddMethods = []string{"", "Transfer", "deploy", "terminate", "nosuch", "transfer ", strings.Repeat("m", 300), "üñî", "_sum", "allocate", "memory", "finishVoting\x00"}

// ---- pay amounts ----

// payNeeded is payAmount for methods that insist on a payment: the hinted amounts 6 times in 7.
func (p *prog) payNeeded(label string, sender *sim.Actor, hints ...*big.Int) *big.Int {
	if rapid.IntRange(0, 6).Draw(p.t, label+"Hinted") < 6 {
		return new(big.Int).Set(hints[p.draw(label+"Hint", len(hints))])
	}
	return p.payAmount(label, sender, hints...)
}

func (p *prog) payAmount(label string, sender *sim.Actor, hints ...*big.Int) *big.Int {
	k := rapid.IntRange(0, 13).Draw(p.t, label+"Class")
	if p.calm && k >= 7 && !p.chance(label+"OddAnyway", 30) {
		k = 0
	}
	if k < 7 {
		if len(hints) > 0 {
			return new(big.Int).Set(hints[p.draw(label+"Hint", len(hints))])
		}
		return big.NewInt(0)
	}
	switch k {
	case 7:
		return big.NewInt(0)
	case 8:
		return big.NewInt(1)
	case 9:
		return nil
	case 10:
		return sim.Dna(int64(rapid.IntRange(1, 3000).Draw(p.t, label+"Dna")))
	case 11:
		return new(big.Int).Add(p.balance(sender.Addr), big.NewInt(1)) // balance + 1: cannot be covered
	case 12:
		return new(big.Int).Set(p.balance(sender.Addr)) // whole balance: fee cannot be covered on top
	default:
		// "balance" class: everything the sender can move next to a generous fee reserve
		b := new(big.Int).Sub(p.balance(sender.Addr), sim.Dna(20000))
		if b.Sign() < 0 {
			b = big.NewInt(0)
		}
		return b
	}
}

// ---- op constructors ----

func (p *prog) mkCall(c *contract, sender *sim.Actor, method string, amount *big.Int, args [][]byte, argClass string, smart bool) *opSpec {
	att := attachments.CreateCallContractAttachment(method, args...)
	payload, _ := att.ToBytes()
	label := "<other>"
	for _, m := range c.methods() {
		if m == method {
			label = m
		}
	}
	return &opSpec{sender: sender, typ: types.CallContractTx, target: c, payload: payload, amount: amount, kind: c.kind, op: "call", method: label, argClass: argClass, smart: smart, selfArg: p.selfPicked}
}

func (p *prog) mkTerminate(c *contract, sender *sim.Actor, amount *big.Int, args [][]byte, argClass string, smart bool) *opSpec {
	att := attachments.CreateTerminateContractAttachment(args...)
	payload, _ := att.ToBytes()
	return &opSpec{sender: sender, typ: types.TerminateContractTx, target: c, payload: payload, amount: amount, kind: c.kind, op: "terminate", method: "terminate", argClass: argClass, smart: smart, selfArg: p.selfPicked,
		onSuccess: func() { c.dead = true }}
}

func (p *prog) mkFund(c *contract, amount *big.Int) *opSpec {
	return &opSpec{special: "fund", sender: p.anySender("funder"), target: c, amount: amount}
}

// ---- deployments ----

func (p *prog) deployAmount(sender *sim.Actor) *big.Int {
	min := p.minStake()
	switch rapid.IntRange(0, 11).Draw(p.t, "deployAmountClass") {
	case 7:
		return new(big.Int).Sub(min, big.NewInt(1)) // one below the minimum stake
	case 8:
		return new(big.Int).Add(min, sim.Dna(int64(rapid.IntRange(1, 500).Draw(p.t, "deployExtraDna"))))
	case 9:
		return new(big.Int).Add(min, big.NewInt(1))
	case 10:
		return p.payAmount("deployPay", sender)
	case 11:
		return new(big.Int).Mul(min, big.NewInt(2))
	default:
		return min // exactly the minimum stake
	}
}

func (p *prog) findKind(kind string) []*contract {
	var res []*contract
	for _, c := range p.contracts {
		if c.kind == kind && !c.dead {
			res = append(res, c)
		}
	}
	return res
}

func (p *prog) deployEmbedded(e *embType) *opSpec {
	sender := p.anySender("deployer")
	now := uint64(p.now())
	// the address the contract will get (hash of deployer, epoch, nonce): lets the deployment name itself
	p.ctxAddrs = []common.Address{env.ComputeContractAddr(&types.Transaction{Epoch: p.A.ReadState().State.Epoch(), AccountNonce: p.nextNonce(sender)}, sender.Addr)}
	p.selfPicked = false
	c := &contract{kind: e.name, emb: e, owner: sender, votes: map[int]*voteHint{}, voters: map[int]bool{}, sent: map[int]msVote{}}
	var args [][]byte
	switch e.name {
	case "TimeLock":
		delta := rapid.IntRange(-200, 400).Draw(p.t, "lockDelta")
		args = [][]byte{p.anyU64("lockTs", uint64(int64(now)+int64(delta)), now, now+60)}
	case "Multisig":
		max := byte(rapid.IntRange(1, 3).Draw(p.t, "msMax"))
		min := byte(rapid.IntRange(1, int(max)).Draw(p.t, "msMin"))
		args = [][]byte{p.anyByte("msMaxArg", max, max, max, max, max, 32, 33, 0), p.anyByte("msMinArg", min, min, min, min, min, max+1, 0)}
	case "OracleVoting":
		n := uint64(p.netSize())
		start := []uint64{now - 50, now - 50, now - 50, now, now + 45, now - 31*24*3600 - 100}
		args = [][]byte{
			p.anyBlob("ovFact"),
			p.anyU64("ovStart", start...),
			p.anyU64("ovDuration", 4, 6, 8, 12),
			p.anyU64("ovPublic", 1, 100, 200),
			p.anyByte("ovThreshold", 51, 66, 100),
			p.anyByte("ovQuorum", 1, 1, 1, 20, 20, 20, 50, 100),
			p.anyU64("ovCommittee", n, n, n, 1, 2, 100),
			p.anyBig("ovMinPay", big.NewInt(0), sim.Dna(1), sim.Dna(50)),
			p.anyByte("ovOwnerFee", 0, 0, 10, 100),
			p.anyBig("ovRewardFund", big.NewInt(0), sim.Dna(100)),
			p.anyAddr("ovRefundRecipient"),
		}
		if keep := rapid.IntRange(0, 9).Draw(p.t, "ovArity"); keep < 9 {
			args = args[:2+keep]
		}
	case "OracleLock", "RefundableOracleLock":
		var ovArg []byte
		if ovs := p.findKind("OracleVoting"); len(ovs) > 0 && rapid.IntRange(0, 9).Draw(p.t, "lockUsesVoting") < 8 {
			c.ov = ovs[p.draw("lockVoting", len(ovs))]
			for _, ov := range ovs {
				if p.votingFinished(ov) {
					c.ov = ov
				}
			}
			ovArg = c.ov.addr.Bytes()
		} else {
			ovArg = p.anyAddr("lockVotingAddr")
		}
		if e.name == "OracleLock" {
			args = [][]byte{ovArg, p.anyByte("lockValue", 0, 1, 2), p.anyAddr("lockSuccess"), p.anyAddr("lockFail")}
		} else {
			args = [][]byte{ovArg, p.anyByte("lockValue", 0, 1, 2), p.anyAddr("lockSuccess"), p.anyAddr("lockFail"),
				p.anyU64("lockRefundDelay", 0, 1, 3), p.anyU64("lockDeadline", now+3600, now+3600, now+100000, now-1), p.anyU64("lockFee", 0, 1000, 50000, 100000)}
		}
	}
	args, cls := p.mangle(args, "deployArgs")
	att := attachments.CreateDeployContractAttachment(e.hash, nil, nil, args...)
	payload, _ := att.ToBytes()
	return &opSpec{sender: sender, typ: types.DeployContractTx, payload: payload, amount: p.deployAmount(sender), kind: e.name, op: "deploy", method: "deploy", argClass: cls, smart: cls == "typed", created: c,
		post: postOwnerIs(sender.Addr), pinNonce: p.selfPicked, selfArg: p.selfPicked}
}

// uniqueCode returns a valid WASM module that differs from every other code of this program only by a trailing custom
// section (section id 0, ignored by the runtime): a new, not yet stored code with the behaviour of the bundled binary.
func (p *prog) uniqueCode(base []byte) []byte {
	p.codeSeq++
	name := fmt.Sprintf("c15-%d", p.codeSeq)
	payload := []byte{byte(p.codeSeq), byte(p.codeSeq >> 8), 0xC1, 0x5}
	section := append([]byte{0x0, byte(1 + len(name) + len(payload)), byte(len(name))}, name...)
	section = append(section, payload...)
	return append(append([]byte{}, base...), section...)
}

// deployUnique: a plain, well-formed deployment of a new distinct code (bundled binary without constructor arguments +
// unique custom section) with an ample gas budget.
func (p *prog) deployUnique(sender *sim.Actor, nonceOffset int) *opSpec {
	b := wasmBins[[]int{0, 0, 0, 0, 2, 4}[p.draw("uniqueBase", 6)]] // inc_func mostly, erc20, test-cases
	code := p.uniqueCode(b.code)
	h := common.Hash(crypto.Hash(code))
	att := attachments.CreateDeployContractAttachment(common.Hash{}, code, []byte{byte(p.codeSeq)})
	payload, _ := att.ToBytes()
	return &opSpec{sender: sender, typ: types.DeployContractTx, payload: payload, amount: big.NewInt(0), kind: "wasm:" + b.name, op: "deploy", method: "deploy", argClass: "typed+unique",
		smart: true, created: &contract{kind: "wasm:" + b.name, bin: b, owner: sender}, forceAmple: true, codeHash: &h, nonceOffset: nonceOffset}
}

// multiDeploy builds a block of 2-12 deployments of DIFFERENT new codes: the tx under test (last) and a prefix made of the
// same sender's earlier deployments (consecutive nonces) and deployments of senders whose nonce lies below. All new codes
// of a block are flushed to the state tree together, so its root must not depend on the order they were met in.
func (p *prog) multiDeploy() *opSpec {
	s := p.senders[p.draw("multiSender", len(p.senders))]
	// prefer the sender with the highest nonce half of the time: more other senders qualify
	if p.chance("multiTopSender", 50) {
		for _, a := range p.senders {
			if p.nextNonce(a) > p.nextNonce(s) {
				s = a
			}
		}
	}
	want := 1 + p.draw("multiCodes", 11) // prefix length 1..11
	top := p.nextNonce(s)
	var items []*prefixItem
	used := map[uint32]bool{}
	for _, a := range p.senders {
		if len(items) >= want || a.Idx == s.Idx {
			continue
		}
		if n := p.nextNonce(a); n < top && !used[n] && p.chance("multiOtherSender", 70) {
			used[n] = true
			pop := p.deployUnique(a, 0)
			tx, _ := p.build(pop)
			items = append(items, &prefixItem{tx: tx, op: pop, shape: "new-code-deploy"})
		}
	}
	own := 0
	for len(items) < want {
		pop := p.deployUnique(s, own)
		own++
		tx, _ := p.build(pop)
		items = append(items, &prefixItem{tx: tx, op: pop, shape: "new-code-deploy"})
	}
	op := p.deployUnique(s, own)
	op.presetPrefix, op.shape = items, "multi-deploy"
	return op
}

func (p *prog) deployWasm(b *wasmBin) *opSpec {
	sender := p.anySender("deployer")
	c := &contract{kind: "wasm:" + b.name, bin: b, owner: sender}
	var args [][]byte
	switch b.name {
	case "sum_func":
		if incs := p.findKind("wasm:inc_func"); len(incs) > 0 && rapid.IntRange(0, 9).Draw(p.t, "sumUsesInc") < 8 {
			args = [][]byte{incs[p.draw("sumInc", len(incs))].addr.Bytes()}
		} else {
			args = [][]byte{p.anyAddr("sumFuncAddr")}
		}
	case "shared-fungible-token-wallet":
		args = [][]byte{sender.Addr.Bytes(), p.anyAddr("sftRoot")}
	}
	args, cls := p.mangle(args, "wasmDeployArgs")
	var nonce []byte
	switch rapid.IntRange(0, 4).Draw(p.t, "wasmNonce") {
	case 0:
		nonce = []byte{byte(len(p.contracts))}
	case 1:
		nonce = nil
	case 2:
		nonce = []byte{1}
	default:
		nonce = []byte{byte(len(p.contracts)), byte(p.draw("wasmNonceRnd", 250))}
	}
	code := b.code
	hash := common.Hash{}
	switch rapid.IntRange(0, 19).Draw(p.t, "wasmCodeClass") {
	case 14, 15, 16:
		code = p.uniqueCode(b.code) // a new distinct code with the same behaviour
		cls += "+unique"
	case 17:
		code = append([]byte{}, b.code[:len(b.code)/2]...) // truncated module
		cls += "+truncated"
	case 18:
		code = []byte{0, 0x61, 0x73, 0x6d, 1, 0, 0, 0} // empty module
		cls += "+emptymodule"
	case 19:
		hash = embedded.TimeLockContract // an embedded code hash next to code
		cls += "+embhash"
	}
	att := attachments.CreateDeployContractAttachment(hash, code, nonce, args...)
	payload, _ := att.ToBytes()
	amount := p.payAmount("wasmDeployPay", sender, big.NewInt(0), big.NewInt(0), sim.Dna(5))
	h := common.Hash(crypto.Hash(code))
	return &opSpec{sender: sender, typ: types.DeployContractTx, payload: payload, amount: amount, kind: c.kind, op: "deploy", method: "deploy", argClass: cls, smart: strings.HasPrefix(cls, "typed") && !strings.Contains(cls, "+t") && !strings.Contains(cls, "+e"), created: c, codeHash: &h}
}

func (p *prog) deploy() *opSpec {
	var embNames []string
	wasmOK := p.profile == "v12"
	switch p.focus {
	case "voting":
		embNames = []string{"OracleVoting", "OracleVoting", "OracleLock", "RefundableOracleLock"}
		if len(p.findKind("OracleVoting")) == 0 {
			embNames = []string{"OracleVoting"}
		}
		wasmOK = false
	case "wallets":
		embNames = []string{"Multisig", "TimeLock"}
		wasmOK = false
	case "wasm":
		embNames = nil
	default:
		embNames = []string{"TimeLock", "OracleVoting", "OracleLock", "RefundableOracleLock", "Multisig"}
	}
	if p.focus == "voting" || p.focus == "mix" {
		// a finished voting nobody watches yet: deploy a lock for it
		for _, ov := range p.findKind("OracleVoting") {
			watched := false
			for _, c := range p.contracts {
				watched = watched || c.ov == ov
			}
			if !watched && p.votingFinished(ov) && p.chance("lockForFinishedVoting", 80) {
				if p.chance("lockKind", 60) {
					return p.deployEmbedded(embByName("OracleLock"))
				}
				return p.deployEmbedded(embByName("RefundableOracleLock"))
			}
		}
	}
	if wasmOK && (len(embNames) == 0 || rapid.IntRange(0, 9).Draw(p.t, "deployWasm") < 4) {
		// inc before sum so that sum can point at it
		if len(p.findKind("wasm:inc_func")) == 0 && rapid.IntRange(0, 9).Draw(p.t, "incFirst") < 5 {
			return p.deployWasm(wasmBins[0])
		}
		return p.deployWasm(wasmBins[p.draw("wasmBin", len(wasmBins))])
	}
	return p.deployEmbedded(embByName(embNames[p.draw("embKind", len(embNames))]))
}

// ---- smart steps per contract type ----

// dust: what a TimeLock / Multisig may still hold when it is terminated (100 x gas price; the termination burns it).
func (p *prog) dust() *big.Int { return new(big.Int).Mul(p.fpg(), big.NewInt(100)) }

// holdsDust: 0 < balance <= dust.
func (p *prog) holdsDust(c *contract) bool {
	bal := p.balance(c.addr)
	return bal.Sign() > 0 && bal.Cmp(p.dust()) <= 0
}

// transferAmounts: amounts a wallet contract is asked to pay out - everything, half, 1, 0, one more than it holds, and
// the boundary of the termination rule: everything but the dust limit / but one wei (the wallet then still holds dust).
func (p *prog) transferAmounts(c *contract) []*big.Int {
	bal := p.balance(c.addr)
	res := []*big.Int{bal, new(big.Int).Quo(bal, big.NewInt(2)), big.NewInt(1), big.NewInt(0), new(big.Int).Add(bal, big.NewInt(1))}
	if d := p.dust(); bal.Cmp(d) > 0 && d.Sign() > 0 {
		res = append(res, new(big.Int).Sub(bal, d), new(big.Int).Sub(bal, big.NewInt(1)))
	}
	return res
}

// leaveDust: a payout that leaves the wallet with 0 < rest <= dust (exactly the limit, one wei, or in between).
func (p *prog) leaveDust(c *contract, label string) *big.Int {
	bal, d := p.balance(c.addr), p.dust()
	if d.Sign() == 0 || bal.Cmp(d) <= 0 {
		return bal
	}
	rest := new(big.Int).Set(d)
	switch p.draw(label, 3) {
	case 1:
		rest = big.NewInt(1)
	case 2:
		rest = new(big.Int).Mul(d, big.NewInt(int64(1+p.draw(label+"Part", 4095))))
		if rest.Quo(rest, big.NewInt(4096)).Sign() == 0 {
			rest = big.NewInt(1)
		}
	}
	return new(big.Int).Sub(bal, rest)
}

func (p *prog) smartTimeLock(c *contract) *opSpec {
	ts := p.cu64(c, "timestamp")
	bal := p.balance(c.addr)
	if int64(ts) > p.now() && ts < uint64(p.now())+100000 && p.chance("tlWait", 40) {
		return &opSpec{special: "time", dur: time.Duration(int64(ts)-p.now()+1) * time.Second}
	}
	step := rapid.IntRange(0, 9).Draw(p.t, "tlStep")
	if p.holdsDust(c) && step < 7 && p.chance("tlTerminateDust", 60) {
		step = 7 // the wallet holds nothing but dust: time to close it (the termination burns the dust)
	}
	switch step {
	case 0, 1:
		if bal.Sign() == 0 || p.chance("tlFund", 30) {
			return p.mkFund(c, sim.Dna(int64(rapid.IntRange(1, 100).Draw(p.t, "tlFundDna"))))
		}
		fallthrough
	case 2, 3, 4, 5:
		dest := p.anyAddr("tlDest")
		if p.chance("tlDestSelf", 20) {
			dest, p.selfPicked = c.addr.Bytes(), true // the time lock pays itself
		}
		args := [][]byte{dest, p.anyBig("tlAmount", p.transferAmounts(c)...)}
		args, cls := p.mangle(args, "tlArgs")
		op := p.mkCall(c, p.ownerOr(c, "tlSender"), "transfer", p.payAmount("tlPay", c.owner), args, cls, true)
		if len(args) >= 2 {
			op.post = postReceived(args[0], args[1])
		}
		return op
	case 6:
		// drain everything - or everything but some dust - so that a termination can pass the dust check
		amount := bal
		if p.chance("tlLeaveDust", 50) {
			amount = p.leaveDust(c, "tlDustRest")
		}
		return p.mkCall(c, c.owner, "transfer", big.NewInt(0), [][]byte{c.owner.Addr.Bytes(), amount.Bytes()}, "typed", true)
	default:
		dest := p.anyAddr("tlTermDest")
		if p.chance("tlTermDestSelf", 20) {
			dest, p.selfPicked = c.addr.Bytes(), true // the refunded half of the stake goes to the contract that is being dropped
		}
		args, cls := p.mangle([][]byte{dest}, "tlTermArgs")
		return p.mkTerminate(c, p.ownerOr(c, "tlTermSender"), p.payAmount("tlTermPay", c.owner), args, cls, true)
	}
}

func (p *prog) smartMultisig(c *contract) *opSpec {
	st := p.cbyte(c, "state")
	bal := p.balance(c.addr)
	termOdds := 10
	if p.holdsDust(c) {
		termOdds = 45 // nothing but dust left: time to close it (the termination burns the dust)
	}
	if bal.Cmp(p.dust()) <= 0 && p.chance("msTerminateEmpty", termOdds) {
		dest := p.anyAddr("msTermDest")
		if p.chance("msTermDestSelf", 20) {
			dest, p.selfPicked = c.addr.Bytes(), true
		}
		args, cls := p.mangle([][]byte{dest}, "msTermArgs")
		return p.mkTerminate(c, p.ownerOr(c, "msTermSender"), p.payAmount("msTermPay", c.owner), args, cls, true)
	}
	if st == 1 && p.chance("msAdd", 70) {
		var cand []*sim.Actor
		for _, a := range p.senders {
			if !c.voters[a.Idx] {
				cand = append(cand, a)
			}
		}
		var addr []byte
		var who *sim.Actor
		if len(cand) > 0 && p.chance("msNewVoter", 85) {
			who = cand[p.draw("msVoter", len(cand))]
			addr = who.Addr.Bytes()
		} else {
			addr = p.anyAddr("msVoterAddr")
		}
		args, cls := p.mangle([][]byte{addr}, "msAddArgs")
		op := p.mkCall(c, p.ownerOr(c, "msAddSender"), "add", p.payAmount("msAddPay", c.owner), args, cls, true)
		if who != nil && cls == "typed" {
			op.onSuccess = func() { c.voters[who.Idx] = true }
			op.post = postStoreEquals("addr"+string(who.Addr.Bytes()), who.Addr.Bytes())
		}
		return op
	}
	if bal.Sign() == 0 && p.chance("msFund", 60) {
		return p.mkFund(c, sim.Dna(int64(rapid.IntRange(1, 100).Draw(p.t, "msFundDna"))))
	}
	var voters []*sim.Actor
	for _, a := range p.senders {
		if c.voters[a.Idx] {
			voters = append(voters, a)
		}
	}
	// the proposal (dest, amount) with most recorded votes
	var best msVote
	bestN, haveBest := 0, false
	for _, a := range p.senders {
		v, ok := c.sent[a.Idx]
		if !ok {
			continue
		}
		n := 0
		for _, b := range p.senders {
			if w, ok := c.sent[b.Idx]; ok && w.dest == v.dest && string(w.amount) == string(v.amount) {
				n++
			}
		}
		if n > bestN {
			best, bestN, haveBest = v, n, true
		}
	}
	minVotes := int(p.cbyte(c, "minVotes"))
	step := rapid.IntRange(0, 9).Draw(p.t, "msStep")
	if st == 2 && haveBest && bestN >= minVotes && step < 8 {
		step = 5 // enough votes: push
	} else if st == 2 && step < 8 {
		step = 0 // collect votes
	}
	switch step {
	case 0, 1, 2, 3:
		// vote: prefer agreeing with the leading proposal
		var dest common.Address
		var amount []byte
		if haveBest && p.chance("msAgree", 80) {
			dest, amount = best.dest, best.amount
		} else {
			dest = p.destAddr("msDest")
			amount = p.anyBig("msAmount", p.transferAmounts(c)...)
		}
		sender := p.anySender("msSendSender")
		var undecided []*sim.Actor
		for _, a := range voters {
			if w, ok := c.sent[a.Idx]; !ok || w.dest != dest || string(w.amount) != string(amount) {
				undecided = append(undecided, a)
			}
		}
		if len(undecided) > 0 && p.chance("msVoterSends", 85) {
			sender = undecided[p.draw("msSendVoter", len(undecided))]
		}
		args, cls := p.mangle([][]byte{dest.Bytes(), amount}, "msSendArgs")
		op := p.mkCall(c, sender, "send", p.payAmount("msSendPay", sender), args, cls, true)
		if cls == "typed" && amount != nil {
			op.onSuccess = func() { c.sent[sender.Idx] = msVote{dest, amount} }
		}
		return op
	case 4, 5, 6, 7:
		dest, amount := best.dest, best.amount
		if !haveBest || p.chance("msPushOther", 12) {
			dest = p.destAddr("msPushDest")
			amount = p.anyBig("msPushAmount", p.transferAmounts(c)...)
		}
		args, cls := p.mangle([][]byte{dest.Bytes(), amount}, "msPushArgs")
		op := p.mkCall(c, p.anySender("msPushSender"), "push", p.payAmount("msPushPay", c.owner), args, cls, true)
		op.onSuccess = func() { c.sent = map[int]msVote{} }
		if cls == "typed" {
			op.post = postReceived(dest.Bytes(), amount)
		}
		return op
	default:
		args, cls := p.mangle([][]byte{p.anyAddr("msTermDest")}, "msTermArgs")
		return p.mkTerminate(c, p.ownerOr(c, "msTermSender"), p.payAmount("msTermPay", c.owner), args, cls, true)
	}
}

func voteHash(vote byte, salt []byte) []byte {
	h := crypto.Hash(append(common.ToBytes(vote), salt...))
	return h[:]
}

func (p *prog) smartVoting(c *contract) *opSpec {
	p.ctxAddrs = []common.Address{c.addr}
	st := p.cbyte(c, "state")
	bal := p.balance(c.addr)
	height := p.A.Head().Height() + 1
	sideOdds := 8
	if p.calm {
		sideOdds = 3
	}
	if p.chance("ovSide", sideOdds) {
		op := p.mkCall(c, p.anySender("ovStakeSender"), "addStake", p.payAmount("ovStakePay", c.owner, sim.Dna(3), big.NewInt(1)), nil, "typed", true)
		op.post = postStakeGrewByAmount()
		return op
	}
	switch st {
	case 0: // pending
		need := new(big.Int).SetBytes(p.cval(c, "ownerDeposit"))
		if need.Sign() == 0 {
			need = sim.Dna(5100)
		}
		start := p.cu64(c, "startTime")
		if uint64(p.now()) > start+31*24*3600 && p.chance("ovStaleTerminate", 50) {
			args, cls := p.mangle([][]byte{p.anyAddr("ovTermDest")}, "ovTermArgs")
			return p.mkTerminate(c, p.ownerOr(c, "ovTermSender"), p.payAmount("ovTermPay", c.owner), args, cls, true)
		}
		if bal.Cmp(need) < 0 && p.chance("ovFund", 80) {
			extra := sim.Dna(int64(rapid.IntRange(0, 200).Draw(p.t, "ovFundExtra")))
			return p.mkFund(c, extra.Add(extra, new(big.Int).Sub(need, bal)))
		}
		if int64(start) > p.now() && start < uint64(p.now())+100000 && p.chance("ovWaitStart", 60) {
			return &opSpec{special: "time", dur: time.Duration(int64(start)-p.now()+1) * time.Second}
		}
		return p.mkCall(c, p.anySender("ovStartSender"), "startVoting", p.payAmount("ovStartPay", c.owner), nil, "typed", true)
	case 1: // started
		startBlock, vd := p.cu64(c, "startBlock"), p.cu64(c, "votingDuration")
		dur := height - startBlock
		minPay := new(big.Int).SetBytes(p.cval(c, "votingMinPayment"))
		ids := p.identitySenders()
		if dur < vd {
			var fresh []*sim.Actor
			for _, a := range ids {
				if c.votes[a.Idx] == nil {
					fresh = append(fresh, a)
				}
			}
			proofOdds := 85
			if p.calm {
				proofOdds = 96
			}
			if len(fresh) > 0 && p.chance("ovProof", proofOdds) {
				a := fresh[p.draw("ovProofSender", len(fresh))]
				if p.chance("ovProofNonIdentity", 8) {
					a = p.anySender("ovProofAny")
				}
				h := &voteHint{vote: byte(rapid.IntRange(0, 2).Draw(p.t, "ovVote")), salt: []byte{byte(a.Idx), 7, 7}}
				args, cls := p.mangle([][]byte{voteHash(h.vote, h.salt)}, "ovProofArgs")
				pay := p.payNeeded("ovProofPay", a, minPay, minPay, minPay, minPay, minPay, minPay, new(big.Int).Add(minPay, sim.Dna(1)), new(big.Int).Sub(minPay, big.NewInt(1)))
				if pay != nil && pay.Sign() < 0 {
					pay = big.NewInt(0)
				}
				op := p.mkCall(c, a, "sendVoteProof", pay, args, cls, true)
				if cls == "typed" {
					op.onSuccess = func() { h.proof = true; c.votes[a.Idx] = h }
				}
				return op
			}
			if p.chance("ovEarlyVote", 20) {
				break
			}
			return &opSpec{special: "blocks", n: int(vd - dur)}
		}
		var pending []*sim.Actor
		for _, a := range ids {
			if h := c.votes[a.Idx]; h != nil && h.proof && !h.voted {
				pending = append(pending, a)
			}
		}
		if len(pending) > 0 && p.chance("ovVoteNow", 80) {
			a := pending[p.draw("ovVoter", len(pending))]
			h := c.votes[a.Idx]
			vote := h.vote
			if p.chance("ovWrongVote", 8) {
				vote++
			}
			args, cls := p.mangle([][]byte{{vote}, h.salt}, "ovVoteArgs")
			op := p.mkCall(c, a, "sendVote", p.payAmount("ovVotePay", a), args, cls, true)
			op.onSuccess = func() { h.voted = true }
			return op
		}
		anyVoted := false
		for _, h := range c.votes {
			anyVoted = anyVoted || h.voted
		}
		finishOdds := 75
		if !anyVoted {
			finishOdds = 15
		}
		if p.chance("ovFinish", finishOdds) {
			return p.mkCall(c, p.anySender("ovFinishSender"), "finishVoting", p.payAmount("ovFinishPay", c.owner), nil, "typed", true)
		}
		if p.chance("ovProlong", 60) {
			return p.mkCall(c, p.anySender("ovProlongSender"), "prolongVoting", p.payAmount("ovProlongPay", c.owner), nil, "typed", true)
		}
	}
	// finished, or a side step: anything from the method table, or a termination attempt
	if p.chance("ovTerm", 30) {
		args, cls := p.mangle([][]byte{p.anyAddr("ovTermDest")}, "ovTermArgs")
		return p.mkTerminate(c, p.ownerOr(c, "ovTermSender"), p.payAmount("ovTermPay", c.owner), args, cls, true)
	}
	a := p.anySender("ovAnySender")
	m := c.emb.methods[p.draw("ovAnyMethod", len(c.emb.methods))]
	var args [][]byte
	switch m {
	case "sendVoteProof":
		args = [][]byte{voteHash(1, []byte{1})}
	case "sendVote":
		args = [][]byte{{1}, {1}}
	}
	args, cls := p.mangle(args, "ovAnyArgs")
	return p.mkCall(c, a, m, p.payAmount("ovAnyPay", a), args, cls, true)
}

func (p *prog) votingFinished(ov *contract) bool { return ov != nil && p.cbyte(ov, "state") == 2 }

func (p *prog) smartOracleLock(c *contract) *opSpec {
	if c.ov != nil && !c.ov.dead && !p.votingFinished(c.ov) && p.chance("olDriveVoting", 65) {
		return p.smartVoting(c.ov)
	}
	if p.balance(c.addr).Sign() == 0 && p.chance("olFund", 50) {
		return p.mkFund(c, sim.Dna(int64(rapid.IntRange(1, 100).Draw(p.t, "olFundDna"))))
	}
	step := rapid.IntRange(0, 9).Draw(p.t, "olStep")
	if p.cbyte(c, "isOracleVotingFinished") == 1 && step < 4 {
		step = 4
	}
	switch step {
	case 0, 1, 2, 3:
		args, cls := p.mangle(nil, "olCheckArgs")
		return p.mkCall(c, p.anySender("olCheckSender"), "checkOracleVoting", p.payAmount("olCheckPay", c.owner), args, cls, true)
	case 4, 5, 6, 7:
		args, cls := p.mangle(nil, "olPushArgs")
		return p.mkCall(c, p.anySender("olPushSender"), "push", p.payAmount("olPushPay", c.owner), args, cls, true)
	default:
		args, cls := p.mangle(nil, "olTermArgs")
		return p.mkTerminate(c, p.ownerOr(c, "olTermSender"), p.payAmount("olTermPay", c.owner), args, cls, true)
	}
}

func (p *prog) smartRefundableLock(c *contract) *opSpec {
	st := p.cbyte(c, "state")
	bal := p.balance(c.addr)
	minDeposit := new(big.Int).Mul(p.fpg(), big.NewInt(10000))
	height := p.A.Head().Height() + 1
	switch st {
	case 1:
		depositOdds := 40
		if len(p.cval(c, "sum")) == 0 {
			depositOdds = 75 // nothing deposited yet
		}
		if p.chance("rolDeposit", depositOdds) {
			a := p.anySender("rolDepositor")
			pay := p.payNeeded("rolDepositPay", a, minDeposit, new(big.Int).Add(minDeposit, sim.Dna(10)), new(big.Int).Mul(minDeposit, big.NewInt(3)), minDeposit, new(big.Int).Sub(minDeposit, big.NewInt(1)))
			args, cls := p.mangle(nil, "rolDepositArgs")
			op := p.mkCall(c, a, "deposit", pay, args, cls, true)
			if pay != nil {
				op.post = allOf(postBigCounterMoved("deposits"+string(a.Addr.Bytes()), pay, 1), postBigCounterMoved("sum", pay, 1))
			}
			return op
		}
		if c.ov != nil && !c.ov.dead && !p.votingFinished(c.ov) && p.chance("rolDriveVoting", 55) {
			return p.smartVoting(c.ov)
		}
		args, cls := p.mangle(nil, "rolPushArgs")
		return p.mkCall(c, p.anySender("rolPushSender"), "push", p.payAmount("rolPushPay", c.owner), args, cls, true)
	case 4:
		rb := p.cu64(c, "refundBlock")
		if height < rb && rb-height < 20 && p.chance("rolWait", 70) {
			return &opSpec{special: "blocks", n: int(rb - height)}
		}
		if bal.Sign() > 0 || p.chance("rolRefundAnyway", 30) {
			args, cls := p.mangle(nil, "rolRefundArgs")
			return p.mkCall(c, p.anySender("rolRefundSender"), "refund", p.payAmount("rolRefundPay", c.owner), args, cls, true)
		}
	}
	switch rapid.IntRange(0, 9).Draw(p.t, "rolStep") {
	case 0, 1, 2, 3, 4:
		args, cls := p.mangle([][]byte{p.anyAddr("rolTermDest")}, "rolTermArgs")
		return p.mkTerminate(c, p.ownerOr(c, "rolTermSender"), p.payAmount("rolTermPay", c.owner), args, cls, true)
	default:
		m := c.emb.methods[p.draw("rolAnyMethod", len(c.emb.methods))]
		a := p.anySender("rolAnySender")
		args, cls := p.mangle(nil, "rolAnyArgs")
		return p.mkCall(c, a, m, p.payAmount("rolAnyPay", a, minDeposit), args, cls, true)
	}
}

func (p *prog) smartWasm(c *contract) *opSpec {
	a := p.ownerOr(c, "wasmSender")
	var m string
	var args [][]byte
	tokens := []*big.Int{big.NewInt(777), big.NewInt(1000000000), big.NewInt(1000000001), big.NewInt(0)}
	switch c.bin.name {
	case "inc_func":
		m, args = "inc", [][]byte{p.anyU64("incX", 5, 0)}
	case "sum_func":
		m, args = "invoke", [][]byte{p.anyU64("sumX", 1, 2), p.anyU64("sumY", 5)}
	case "erc20":
		switch rapid.IntRange(0, 5).Draw(p.t, "ercMethod") {
		case 0, 1:
			m, args = "transfer", [][]byte{p.anyAddr("ercTo"), p.anyBig("ercAmount", tokens...)}
		case 2:
			m, args = "approve", [][]byte{p.anyAddr("ercSpender"), p.anyBig("ercAllow", tokens...)}
		case 3:
			m, args = "transferFrom", [][]byte{c.owner.Addr.Bytes(), p.anyAddr("ercTo2"), p.anyBig("ercAmount2", tokens...)}
		case 4:
			m, args = "getBalance", [][]byte{p.anyAddr("ercOf")}
		default:
			m, args = "allowance", [][]byte{p.anyAddr("ercOwner"), p.anyAddr("ercSpender2")}
		}
	case "shared-fungible-token-wallet":
		switch rapid.IntRange(0, 3).Draw(p.t, "sftMethod") {
		case 0, 1:
			m, args = "transferTo", [][]byte{p.anyAddr("sftTo"), p.anyBig("sftAmount", tokens...)}
		case 2:
			m, args = "getBalance", nil
		default:
			m, args = "receive", [][]byte{p.anyBig("sftRecvAmount", tokens...), p.anyAddr("sftSenderOwner")}
		}
	case "test-cases":
		data := []byte{1, 2, 3}
		if p.chance("tcRealCode", 60) {
			data = wasmBins[0].code
		}
		m, args = "test", [][]byte{common.ToBytes([]uint32{1, 1, 1, 1, 0, 2, 3, 1 << 31}[p.draw("tcCase", 8)]), data}
	}
	if p.chance("wasmOtherExport", 15) {
		m = c.bin.methods[p.draw("wasmExport", len(c.bin.methods))]
	}
	args, cls := p.mangle(args, "wasmArgs")
	op := p.mkCall(c, a, m, p.payAmount("wasmPay", a, big.NewInt(0), big.NewInt(0), sim.Dna(2)), args, cls, true)
	if cls == "typed" && len(args) >= 2 {
		switch {
		case c.bin.name == "sum_func" && m == "invoke":
			op.post = postSum(args[0], args[1])
		case c.bin.name == "erc20" && m == "transfer" && len(args[0]) == common.AddressLength && args[1] != nil && string(args[0]) != string(a.Addr.Bytes()):
			amt := new(big.Int).SetBytes(args[1])
			op.post = allOf(postBigCounterMoved("b:"+string(args[0]), amt, 1), postBigCounterMoved("b:"+string(a.Addr.Bytes()), amt, -1))
		}
	}
	return op
}

func (p *prog) smartStep(c *contract) *opSpec {
	p.ctxAddrs = []common.Address{c.addr}
	switch c.kind {
	case "TimeLock":
		return p.smartTimeLock(c)
	case "Multisig":
		return p.smartMultisig(c)
	case "OracleVoting":
		return p.smartVoting(c)
	case "OracleLock":
		return p.smartOracleLock(c)
	case "RefundableOracleLock":
		return p.smartRefundableLock(c)
	}
	return p.smartWasm(c)
}

// wildStep: method from the contract's table or a random string, arbitrary argument vector, any sender, any amount.
func (p *prog) wildStep(c *contract) *opSpec {
	p.ctxAddrs = []common.Address{c.addr}
	a := p.anySender("wildSender")
	if c.emb != nil && p.chance("wildTerminate", 15) {
		return p.mkTerminate(c, a, p.payAmount("wildTermPay", a), p.wildArgs("wildTermArgs"), "wild", false)
	}
	var m string
	ms := c.methods()
	if p.chance("wildKnownMethod", 70) {
		m = ms[p.draw("wildMethod", len(ms))]
	} else if p.chance("wildOddMethod", 70) {
		m = oddMethods[p.draw("wildOdd", len(oddMethods))]
	} else {
		m = rapid.StringN(0, 20, 40).Draw(p.t, "wildMethodName")
	}
	return p.mkCall(c, a, m, p.payAmount("wildPay", a, big.NewInt(0), sim.Dna(1)), p.wildArgs("wildArgs"), "wild", false)
}

// tableStep: one entry of the contract's own interface, every entry equally likely - each method of its call table and
// its termination - with well-typed arguments, a sender the method accepts most of the time and a pay amount the method
// can use (the mangler and the odd pay amounts still apply at their usual rates). Unlike smartStep it does not follow the
// life cycle, so side entries (addStake, prolongVoting, a second push, ...) come up as often as the main path.
func (p *prog) tableStep(c *contract) *opSpec {
	if c.emb == nil {
		p.ctxAddrs = []common.Address{c.addr}
		return p.smartWasm(c)
	}
	return p.tableEntry(c, p.draw("tableEntry", len(c.emb.methods)+1), nil)
}

// tableEntry: entry k of the embedded contract's interface (k = len(methods): termination), sent by `forced` if given.
func (p *prog) tableEntry(c *contract, k int, forced *sim.Actor) *opSpec {
	p.ctxAddrs = []common.Address{c.addr}
	pick := func(a *sim.Actor) *sim.Actor {
		if forced != nil {
			return forced
		}
		return a
	}
	if k >= len(c.emb.methods) {
		args, cls := p.mangle([][]byte{p.anyAddr("tableTermDest")}, "tableTermArgs")
		return p.mkTerminate(c, pick(p.ownerOr(c, "tableTermSender")), p.payAmount("tableTermPay", c.owner), args, cls, true)
	}
	m := c.emb.methods[k]
	sender := pick(p.anySender("tableSender"))
	var args [][]byte
	hints := []*big.Int{big.NewInt(0)}
	var post func(c *txCase) string
	var onSuccess func()
	// a sender's vote and salt: what the harness noted for it, otherwise fixed by the sender (proof and vote then agree)
	voteOf := func(a *sim.Actor) *voteHint {
		if h := c.votes[a.Idx]; h != nil {
			return h
		}
		return &voteHint{vote: byte(a.Idx % 3), salt: []byte{byte(a.Idx), 7, 7}}
	}
	switch c.kind + "." + m {
	case "TimeLock.transfer":
		sender = pick(p.ownerOr(c, "tableOwner"))
		args = [][]byte{p.destAddr("tableDest").Bytes(), p.anyBig("tableAmount", p.transferAmounts(c)...)}
	case "Multisig.add":
		sender = pick(p.ownerOr(c, "tableOwner"))
		args = [][]byte{p.actorAddr("tableVoter").Bytes()}
	case "Multisig.send", "Multisig.push":
		args = [][]byte{p.destAddr("tableDest").Bytes(), p.anyBig("tableAmount", p.transferAmounts(c)...)}
	case "OracleVoting.sendVoteProof":
		if ids := p.identitySenders(); len(ids) > 0 && forced == nil {
			sender = ids[p.draw("tableIdentity", len(ids))]
		}
		h := voteOf(sender)
		args = [][]byte{voteHash(h.vote, h.salt)}
		hints = []*big.Int{new(big.Int).SetBytes(p.cval(c, "votingMinPayment"))}
		who := sender
		onSuccess = func() { h.proof = true; c.votes[who.Idx] = h }
	case "OracleVoting.sendVote":
		if ids := p.identitySenders(); len(ids) > 0 && forced == nil {
			sender = ids[p.draw("tableIdentity", len(ids))]
		}
		h := voteOf(sender)
		args = [][]byte{{h.vote}, h.salt}
		onSuccess = func() { h.voted = true }
	case "OracleVoting.addStake":
		hints = []*big.Int{sim.Dna(int64(1 + p.draw("tableStakeDna", 5))), big.NewInt(1)}
		post = postStakeGrewByAmount()
	case "RefundableOracleLock.deposit":
		min := new(big.Int).Mul(p.fpg(), big.NewInt(10000))
		hints = []*big.Int{min, new(big.Int).Add(min, sim.Dna(int64(1+p.draw("tableDepositDna", 30))))}
	}
	args, cls := p.mangle(args, "tableArgs")
	op := p.mkCall(c, sender, m, p.payAmount("tablePay", sender, hints...), args, cls, true)
	if cls == "typed" {
		op.post = post
		op.onSuccess = onSuccess
	}
	return op
}

// chainStep draws a step on contract c that is meant to share a block with further steps on the same contract.
func (p *prog) chainStep(c *contract) *opSpec {
	p.selfPicked = false
	switch k := p.draw("chainStepKind", 10); {
	case k < 6:
		return p.tableStep(c)
	case k < 9:
		return p.smartStep(c)
	}
	return p.wildStep(c)
}

// votingDriver steers a calm voting-focused program through one complete life cycle at a time: a voting from
// deployment to finishVoting, then the locks that watch it (check / push / deposit / refund / terminate).
func (p *prog) votingDriver(alive []*contract) *opSpec {
	var cur *contract
	for _, c := range alive {
		if c.kind == "OracleVoting" && !p.votingFinished(c) {
			cur = c
		}
	}
	if cur != nil {
		p.last = cur
		return p.smartVoting(cur)
	}
	// every voting is finished (or there is none): work on the locks of finished votings
	for _, ov := range alive {
		if ov.kind != "OracleVoting" {
			continue
		}
		var locks []*contract
		for _, c := range alive {
			if c.ov == ov {
				locks = append(locks, c)
			}
		}
		if len(locks) < 2 && p.chance("driverNewLock", 50) {
			if len(locks) == 0 && p.chance("driverLockKind", 60) || len(locks) == 1 && locks[0].kind != "OracleLock" {
				return p.deployEmbedded(embByName("OracleLock"))
			}
			return p.deployEmbedded(embByName("RefundableOracleLock"))
		}
		if len(locks) > 0 {
			c := locks[p.draw("driverLock", len(locks))]
			p.last = c
			return p.smartStep(c)
		}
	}
	return p.deployEmbedded(embByName("OracleVoting"))
}

func (p *prog) next() *opSpec {
	p.selfPicked, p.ctxAddrs = false, nil
	return p.nextStep()
}

func (p *prog) nextStep() *opSpec {
	var alive []*contract
	for _, c := range p.contracts {
		if !c.dead {
			alive = append(alive, c)
		}
	}
	if p.calm && p.focus == "voting" && p.chance("votingDriver", 88) {
		return p.votingDriver(alive)
	}
	deployOdds := 4
	switch len(alive) {
	case 0:
		deployOdds = 100
	case 1:
		deployOdds = 30
	case 2:
		deployOdds = 12
	}
	if p.focus == "voting" || p.focus == "mix" {
		for _, ov := range alive {
			if ov.kind != "OracleVoting" || !p.votingFinished(ov) {
				continue
			}
			watched := false
			for _, c := range p.contracts {
				watched = watched || c.ov == ov
			}
			if !watched {
				deployOdds = 60 // a finished voting nobody watches yet: time for a lock
			}
		}
	}
	if len(p.contracts) == 0 || p.chance("deployStep", deployOdds) {
		return p.deploy()
	}
	var c *contract
	stick, smart := 82, 75
	if p.calm {
		stick, smart = 92, 90
	}
	if p.last != nil && p.chance("stickToLast", stick) {
		c = p.last
	} else {
		// dead contracts stay addressable: calls to them must fail cleanly / be refused
		c = p.contracts[p.draw("targetContract", len(p.contracts))]
	}
	if c.dead {
		return p.wildStep(c)
	}
	p.last = c
	if p.chance("smartStep", smart) {
		return p.smartStep(c)
	}
	return p.wildStep(c)
}

// ---- building the signed transaction with a drawn gas budget ----

// feeFor sets MaxFee so that it buys exactly `gas` units on top of the intrinsic fee (the fee depends on the tx size,
// which depends on MaxFee: iterate).
func feeFor(tx *types.Transaction, netSize int, fpg *big.Int, gas int64, minus *big.Int) {
	tx.MaxFee = big.NewInt(0)
	for i := 0; i < 4; i++ {
		f := fee.CalculateFee(netSize, fpg, tx)
		f.Add(f, new(big.Int).Mul(fpg, big.NewInt(gas)))
		if minus != nil {
			f.Sub(f, minus)
		}
		if f.Sign() < 0 {
			f = big.NewInt(0)
		}
		tx.MaxFee = f
	}
}

func (p *prog) build(op *opSpec) (*types.Transaction, string) {
	s := p.A.ReadState()
	fpg, netSize := nz(s.State.FeePerGas()), s.ValidatorsCache.NetworkSize()
	if min := fee.GetFeePerGasForNetwork(netSize); fpg.Cmp(min) < 0 {
		fpg = min // the pool prices the minimum fee with the network's minimal gas price (matters on the genesis state, price 0)
	}
	tx := &types.Transaction{Type: op.typ, Epoch: s.State.Epoch(), Payload: op.payload, Amount: op.amount}
	tx.AccountNonce = p.nextNonce(op.sender) + uint32(op.nonceOffset)
	if op.target != nil {
		a := op.target.addr
		tx.To = &a
	}
	if p.chance("tips", 10) {
		tx.Tips = big.NewInt(int64(rapid.IntRange(1, 1000000).Draw(p.t, "tipsWei")))
	}
	isWasm := strings.HasPrefix(op.kind, "wasm:")
	ample := int64(60000)
	if isWasm {
		ample = 400000
	}
	gasClass := "ample"
	budget := ample
	var minus *big.Int
	k := rapid.IntRange(0, 21).Draw(p.t, "gasClass") - 6
	if op.forceAmple {
		k = 0
	}
	if p.calm && k >= 9 && !p.chance("gasOddAnyway", 30) {
		k = 0
	}
	if k >= 9 {
		// learn what the execution needs with an ample budget (steering only)
		var need int64 = -1
		if k <= 12 {
			feeFor(tx, netSize, fpg, ample, nil)
			if stx, err := types.SignTx(tx, op.sender.Key); err == nil {
				hdr := &types.Header{ProposedHeader: &types.ProposedHeader{Height: p.A.Head().Height() + 1, Time: p.now(), ParentHash: p.A.Head().Hash()}}
				if cs, err := checkStateAfter(p.A, nil, hdr); err == nil {
					if dr, err := dryRun(p.A, cs, stx, hdr, gasLimitOf(netSize, fpg, stx)); err == nil && dr.gasUsed > 0 {
						need = int64(dr.gasUsed)
					}
				}
			}
		}
		switch {
		case k == 9 && need > 0:
			gasClass, budget = "exact", need
		case k == 10 && need > 0:
			gasClass, budget = "exact-1", need-1
		case (k == 11 || k == 12) && need > 0:
			gasClass, budget = "interior", int64(rapid.IntRange(0, int(need)).Draw(p.t, "gasInterior"))
		case k == 13:
			gasClass, budget = "zero", 0
		case k == 14:
			gasClass, budget, minus = "short", 0, big.NewInt(1) // one unit short of the intrinsic fee
			if fpg.Sign() > 0 && p.chance("shortByOneGas", 50) {
				minus = new(big.Int).Set(fpg) // one gas short
			}
		case k == 15:
			gasClass, budget = "small", int64(rapid.IntRange(1, 400).Draw(p.t, "gasSmall"))
		}
	}
	// MAX FEE THAT IS NOT A WHOLE NUMBER OF GAS UNITS: a declared maximum fee is an arbitrary amount; what it holds above
	// intrinsic fee + budget x gas price and below one further gas unit buys nothing. Half of the txs carry such a
	// remainder (1 wei, around half a unit, one wei below a whole unit, anywhere in between).
	if minus == nil && fpg.Cmp(big.NewInt(4)) >= 0 && !p.chance("maxFeeWholeGasUnits", 50) {
		half := new(big.Int).Quo(fpg, big.NewInt(2))
		var rem *big.Int
		switch p.draw("maxFeeRemainder", 8) {
		case 0:
			rem = big.NewInt(1)
		case 1:
			rem = new(big.Int).Sub(half, big.NewInt(1))
		case 2:
			rem = half
		case 3:
			rem = new(big.Int).Add(half, big.NewInt(1))
		case 4:
			rem = new(big.Int).Sub(fpg, big.NewInt(1))
		default:
			// anywhere inside the unit: a drawn number of 1/4096ths plus a few wei
			rem = new(big.Int).Mul(fpg, big.NewInt(int64(1+p.draw("maxFeeRemainderPart", 4095))))
			rem.Quo(rem, big.NewInt(4096)).Add(rem, big.NewInt(int64(p.draw("maxFeeRemainderWei", 3))))
		}
		if rem.Sign() > 0 && rem.Cmp(fpg) < 0 {
			minus = new(big.Int).Neg(rem)
		}
	}
	feeFor(tx, netSize, fpg, budget, minus)
	stx, err := types.SignTx(tx, op.sender.Key)
	if err != nil {
		p.t.Fatalf("sign: %v", err)
	}
	return stx, gasClass
}

func stateName(s state.IdentityState) string {
	switch s {
	case state.Verified:
		return "Verified"
	case state.Human:
		return "Human"
	case state.Newbie:
		return "Newbie"
	case state.Candidate:
		return "Candidate"
	case state.Undefined:
		return "Undefined"
	}
	return fmt.Sprint(uint8(s))
}

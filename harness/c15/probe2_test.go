package c15

import (
	"fmt"
	"math/big"
	"testing"
	"time"

	"github.com/golang/protobuf/proto"
	"github.com/idena-network/idena-go/blockchain/attachments"
	"github.com/idena-network/idena-go/blockchain/fee"
	"github.com/idena-network/idena-go/blockchain/types"
	"github.com/idena-network/idena-go/blockchain/validation"
	"github.com/idena-network/idena-go/common"
	"github.com/idena-network/idena-go/core/state"
	"github.com/idena-network/idena-go/vm/wasm/testdata"
	models "github.com/idena-network/idena-wasm-binding/lib/protobuf"
	"pgregory.net/rapid"

	"verifharness/internal/sim"
)

func TestProbe2(t *testing.T) {
	rapid.Check(t, func(t *rapid.T) {
		p := sim.GenParams(t, 4, 4)
		p.Profile = "v12"
		p.CeremonyIn = 100000000
		for i := range p.States {
			p.States[i] = state.Verified
			p.Balances[i] = sim.Dna(1000000)
			p.Stakes[i] = sim.Dna(100)
		}
		w := sim.NewWorld(p)
		r, err := w.AddReplica("A", w.God.Key, nil)
		if err != nil {
			t.Fatalf("replica: %v", err)
		}
		r.Cfg.IsDebug = true
		w.Advance(20 * time.Second)
		r.AddBlock(r.Propose().Block)
		run := func(sender *sim.Actor, typ types.TxType, to *common.Address, payload []byte, amount *big.Int) *types.TxReceipt {
			w.Advance(20 * time.Second)
			s := r.ReadState()
			tx := &types.Transaction{Type: typ, To: to, Epoch: s.State.Epoch(), AccountNonce: s.State.GetNonce(sender.Addr) + 1, Amount: amount, Payload: payload}
			fpg := s.State.FeePerGas()
			intr := fee.CalculateFee(s.ValidatorsCache.NetworkSize(), fpg, tx)
			tx.MaxFee = new(big.Int).Add(intr, new(big.Int).Mul(fpg, big.NewInt(3000000)))
			stx, _ := types.SignTx(tx, sender.Key)
			if err := r.Pool.AddExternalTxs(validation.MempoolTx, stx); err != nil {
				fmt.Printf("pool: %v\n", err)
			}
			b := r.Propose().Block
			if err := r.AddBlock(b); err != nil {
				t.Fatalf("add: %v", err)
			}
			rec := r.Chain.GetReceipt(stx.Hash())
			if rec == nil {
				fmt.Printf("  no receipt\n")
				return nil
			}
			fmt.Printf("  receipt success=%v gasUsed=%d addr=%s err=%v\n", rec.Success, rec.GasUsed, rec.ContractAddress.Hex(), rec.Error)
			var ar models.ActionResult
			if err := proto.Unmarshal(rec.ActionResult, &ar); err == nil {
				printAR(&ar, "      ")
			}
			return rec
		}
		code, _ := testdata.SharedFungibleToken()
		a1, a2, a3 := w.Actors[1], w.Actors[2], w.Actors[3]
		att := attachments.CreateDeployContractAttachment(common.Hash{}, code, nil, a1.Addr.Bytes(), a2.Addr.Bytes())
		pl, _ := att.ToBytes()
		rec := run(a1, types.DeployContractTx, nil, pl, big.NewInt(0))
		ca := rec.ContractAddress
		call := func(sender *sim.Actor, method string, amount *big.Int, args ...[]byte) {
			fmt.Printf("%s by %s\n", method, sender)
			catt := attachments.CreateCallContractAttachment(method, args...)
			pl, _ := catt.ToBytes()
			run(sender, types.CallContractTx, &ca, pl, amount)
		}
		amt := big.NewInt(1000).Bytes()
		call(a2, "receive", big.NewInt(0), amt, a1.Addr.Bytes())
		call(a2, "receive", big.NewInt(0), a1.Addr.Bytes(), amt)
		call(a2, "receive", big.NewInt(0), amt, a2.Addr.Bytes())
		call(a2, "receive", big.NewInt(0), a2.Addr.Bytes(), amt)
		call(a2, "_addBalance", big.NewInt(0), amt)
		call(a1, "_addBalance", big.NewInt(0), amt)
		call(a1, "getBalance", big.NewInt(0))
		call(a1, "transferTo", sim.Dna(5000), a3.Addr.Bytes(), big.NewInt(100).Bytes())
		r.ReadState().State.IterateOverAccounts(func(a common.Address, acc state.Account) {
			if acc.Contract != nil {
				fmt.Printf("     contract %s bal=%v stake=%v\n", a.Hex(), acc.Balance, acc.Contract.Stake)
			}
		})
		r.ReadState().State.IterateContractValues(func(k, v []byte) bool {
			fmt.Printf("     store %x = %x (%q)\n", k, v, v)
			return false
		})
	})
}

package c05

import (
	"fmt"
	"math/big"
	"testing"
	"time"

	"github.com/idena-network/idena-go/blockchain/types"
	"github.com/idena-network/idena-go/blockchain/validation"
	"github.com/idena-network/idena-go/common"
	"github.com/idena-network/idena-go/core/state"
	"pgregory.net/rapid"

	"verifharness/internal/evid"
	"verifharness/internal/sim"
)

// The inviter exception ends with the relation. An inviter (the god identity, the only one that can hold several
// invitations at once without an epoch change) invites 1-6 addresses with real transactions, they activate and put
// coins at stake; the inviter may use its right on some of them (control: allowed, the stake of its own invitee goes);
// then it terminates itself, which releases its invitees. Whatever the former inviter signs afterwards is signed by a
// stranger: a termination transaction aimed at a former invitee is either refused or leaves balance and stake of the
// target as they were. Everything goes through pool -> proposal -> block insertion.
func TestFormerInviterHasNoRights(t *testing.T) {
	rapid.Check(t, func(t *rapid.T) {
		k := rapid.IntRange(1, 6).Draw(t, "invitees")
		opt := sim.Options{MinActors: 3, MaxActors: 3, Replicas: 1, MaxReplicas: 1, Steps: 0, Params: func(p *sim.Params) {
			*p = sim.Params{KeySeed: rapid.Uint64Range(1, 1<<40).Draw(t, "keys"), NActors: 3, Profile: rapid.SampledFrom([]string{"v12", "v9"}).Draw(t, "profile"), SwitchRng: 3, DelegRng: 3, DiscrRng: 4, SnapRng: 1000,
				Start: time.Date(2030, 1, 5, 12, 0, 0, 0, time.UTC).Unix(), CeremonyIn: 1000000, Interval: 3600000, LotteryDur: 30, ShortDur: 30, LongDur: 30,
				States:   []state.IdentityState{rapid.SampledFrom([]state.IdentityState{state.Verified, state.Human}).Draw(t, "inviterState"), state.Verified, state.Verified},
				Balances: []*big.Int{sim.Dna(5000), sim.Dna(1000), sim.Dna(1000)},
				Stakes:   []*big.Int{sim.Dna(100), sim.Dna(10), sim.Dna(10)}}
		}}
		h := sim.RunHistory(t, opt)
		w := h.W
		r := w.Replicas[0]
		inviter := w.God
		nonce := map[*sim.Actor]uint32{}
		mk := func(a *sim.Actor, typ types.TxType, to *common.Address, amount *big.Int, payload []byte) *types.Transaction {
			nonce[a]++
			tx := &types.Transaction{Type: typ, AccountNonce: nonce[a], To: to, Amount: amount, MaxFee: sim.Dna(20), Payload: payload}
			s, err := types.SignTx(tx, a.Key)
			if err != nil {
				t.Fatal(err)
			}
			return s
		}
		// block mines the given transactions (those the pool takes) and returns the ones that were included
		block := func(txs ...*types.Transaction) map[common.Hash]bool {
			w.Advance(20 * time.Second)
			var proposer *sim.Actor
			vc := r.AppState.ValidatorsCache
			for _, a := range w.Actors {
				if vc.IsOnlineIdentity(a.Addr) || r.AppState.State.GodAddress() == a.Addr && vc.OnlineSize() == 0 {
					proposer = a
					break
				}
			}
			included := map[common.Hash]bool{}
			var blk *types.Block
			if proposer == nil {
				blk = r.EmptyBlock()
			} else {
				tmp := &sim.Replica{W: w, Name: "proposer", Key: proposer.Key, Addr: proposer.Addr, Loc: time.UTC, DB: sim.CopyDB(r.DB), Ipfs: r.Ipfs}
				if err := tmp.Start(); err != nil {
					t.Fatal(err)
				}
				for _, tx := range txs {
					if err := tmp.Pool.AddExternalTxs(validation.MempoolTx, sim.WireCopyTx(tx)); err != nil {
						evid.Count("former.refused_by_pool." + sim.TxTypeNames[tx.Type])
					}
				}
				blk = tmp.Propose().Block
				for _, tx := range blk.Body.Transactions {
					included[tx.Hash()] = true
				}
			}
			if err := r.AddBlock(blk); err != nil {
				t.Fatalf("block %s refused: %v", sim.BlockDesc(blk), err)
			}
			h.Blocks = append(h.Blocks, blk)
			w.NoteBlock(r, blk)
			for _, tx := range txs {
				if !included[tx.Hash()] {
					if s, _ := types.Sender(tx); w.ByAddr[s] != nil {
						nonce[w.ByAddr[s]] = r.ReadState().State.GetNonce(s) // not mined: the nonce is free again
					}
				}
			}
			return included
		}
		holdings := func(a common.Address) (*big.Int, *big.Int) {
			s := r.ReadState().State
			return s.GetBalance(a), s.GetStakeBalance(a)
		}
		// invitations, activations, stakes
		var invitees []*sim.Actor
		var txs []*types.Transaction
		for i := 0; i < k; i++ {
			f := w.NewActor()
			invitees = append(invitees, f)
			to := f.Addr
			txs = append(txs, mk(inviter, types.InviteTx, &to, sim.Dna(60), nil))
		}
		block(txs...)
		txs = nil
		for _, f := range invitees {
			to := f.Addr
			txs = append(txs, mk(f, types.ActivationTx, &to, nil, f.Pub))
		}
		block(txs...)
		txs = nil
		for _, f := range invitees {
			if rapid.IntRange(0, 4).Draw(t, "staked") != 0 {
				to := f.Addr
				txs = append(txs, mk(f, types.ReplenishStakeTx, &to, sim.Dna(int64(rapid.IntRange(1, 30).Draw(t, "stake"))), nil))
			}
		}
		block(txs...)
		linked := 0
		for _, f := range invitees {
			if id := r.ReadState().State.GetIdentity(f.Addr); id.State == state.Candidate && id.Inviter != nil && id.Inviter.Address == inviter.Addr {
				linked++
			}
		}
		if linked != k {
			t.Fatalf("scenario: %d of %d invitees are linked candidates", linked, k)
		}
		evid.Count(fmt.Sprintf("former.invitees=%d", k))
		// control: while the relation lasts the inviter may terminate its own invitees (drawn subset, drawn order)
		order := rapid.Permutation(invitees).Draw(t, "order")
		gone := map[*sim.Actor]bool{}
		for _, f := range order {
			if rapid.IntRange(0, 3).Draw(t, "usedWhileInviter") == 0 {
				to := f.Addr
				tx := mk(inviter, types.KillInviteeTx, &to, nil, nil)
				if !block(tx)[tx.Hash()] {
					t.Fatalf("control: the termination of its own invitee by the inviter was not mined")
				}
				if st := r.ReadState().State.GetIdentityState(f.Addr); st == state.Candidate {
					t.Fatalf("control: own invitee still a candidate after the inviter terminated it")
				}
				gone[f] = true
				evid.Count("former.control.own_invitee_terminated")
			}
		}
		// the relation ends: the inviter terminates itself
		exit := mk(inviter, types.KillTx, nil, nil, nil)
		if !block(exit)[exit.Hash()] {
			t.Fatalf("scenario: the inviter's own termination was not mined")
		}
		if r.ReadState().State.GetIdentityState(inviter.Addr).NewbieOrBetter() {
			t.Fatalf("scenario: inviter still validated after its termination")
		}
		for i := rapid.IntRange(0, 2).Draw(t, "blocksBetween"); i > 0; i-- {
			block()
		}
		// the former inviter aims at every former invitee
		remaining := 0
		for _, f := range rapid.Permutation(invitees).Draw(t, "aimOrder") {
			if gone[f] {
				continue
			}
			remaining++
			evid.Eval()
			to := f.Addr
			b0, s0 := holdings(f.Addr)
			st0 := r.ReadState().State.GetIdentityState(f.Addr)
			tx := mk(inviter, types.KillInviteeTx, &to, nil, nil)
			inc := block(tx)[tx.Hash()]
			b1, s1 := holdings(f.Addr)
			if b1.Cmp(b0) < 0 || s1.Cmp(s0) < 0 {
				t.Fatalf("the former inviter %s (terminated; %d invitees at the time, %d terminated before) terminated former invitee %s (was %v): balance %v -> %v, stake %v -> %v (tx mined: %v)",
					inviter, k, len(gone), f, st0, b0, b1, s0, s1, inc)
			}
			if st1 := r.ReadState().State.GetIdentityState(f.Addr); st1 != st0 {
				t.Fatalf("the former inviter %s changed the status of former invitee %s: %v -> %v", inviter, f, st0, st1)
			}
			if inc {
				evid.Count("former.aimed.mined_without_effect")
			} else {
				evid.Count("former.aimed.refused")
			}
		}
		if k >= 3 && remaining >= 1 {
			evid.NonTrivial(fmt.Sprintf("former|%d|%d|%s", k, len(gone), w.P.Profile))
			evid.Count("former.nontrivial")
			evid.Sample("former-inviter", map[string]interface{}{"invitees": k, "terminated_while_inviter": len(gone), "aimed_at_afterwards": remaining, "profile": w.P.Profile})
		}
	})
}

package c05

import (
	"crypto/ecdsa"
	"fmt"
	feepkg "github.com/idena-network/idena-go/blockchain/fee"
	"math/big"
	"testing"
	"time"

	"github.com/idena-network/idena-go/blockchain/fee"
	"github.com/idena-network/idena-go/blockchain/types"
	"github.com/idena-network/idena-go/blockchain/validation"
	"github.com/idena-network/idena-go/common"
	"github.com/idena-network/idena-go/core/state"
	"github.com/idena-network/idena-go/crypto"
	"pgregory.net/rapid"

	"verifharness/internal/evid"
	"verifharness/internal/sim"
)

func TestMain(m *testing.M) { evid.Main(m) }

func nz(x *big.Int) *big.Int {
	if x == nil {
		return new(big.Int)
	}
	return x
}

type holdings struct {
	balance, stake, contractStake map[common.Address]*big.Int
	total                         *big.Int
}

func holdingsOf(img *sim.StateImage) *holdings {
	h := &holdings{map[common.Address]*big.Int{}, map[common.Address]*big.Int{}, map[common.Address]*big.Int{}, new(big.Int)}
	for a, acc := range img.Accounts {
		h.balance[a] = nz(acc.Balance)
		h.total.Add(h.total, nz(acc.Balance))
		if acc.Contract != nil {
			h.contractStake[a] = nz(acc.Contract.Stake)
			h.total.Add(h.total, nz(acc.Contract.Stake))
		}
	}
	for a, id := range img.Identities {
		h.stake[a] = nz(id.Stake)
		h.total.Add(h.total, nz(id.Stake))
	}
	return h
}

func get(m map[common.Address]*big.Int, a common.Address) *big.Int {
	if v, ok := m[a]; ok {
		return v
	}
	return new(big.Int)
}

// A transaction can only lower the holdings of its signer (and of the named
// exceptions), decided differentially: the same proposer builds, on two copies
// of the same state at the same instant, a block with the transaction and one
// without it.
// every type, with the types whose validity hangs on a relationship between signer and target (the statement's named
// exceptions) drawn more often
var weightedTypes = func() []types.TxType {
	var res []types.TxType
	for typ := types.TxType(0); typ <= 0x16; typ++ {
		if _, ok := sim.TxTypeNames[typ]; ok {
			res = append(res, typ)
		}
	}
	for i := 0; i < 4; i++ {
		res = append(res, types.KillInviteeTx, types.KillDelegatorTx)
	}
	// activations move what the signer owns to another address: drawn more often as well
	res = append(res, types.ActivationTx, types.ActivationTx, types.ActivationTx)
	return append(res, types.KillTx, types.UndelegateTx, types.CallContractTx, types.TerminateContractTx)
}()

// addresses the god address invited at the start of a history, per world
var godInvitees = map[*sim.World][]common.Address{}
var godExit = map[*sim.World]int{}

func TestOnlySignerPays(t *testing.T) {
	rapid.Check(t, func(t *rapid.T) {
		opt := sim.Options{MinActors: 4, MaxActors: 10, Replicas: 1, MaxReplicas: 4, Steps: 30, MaxTxPerStep: 5}
		opt.Params = func(p *sim.Params) {
			// some invited / candidate addresses that own stake and have no inviter link (genesis allocations; on a chain:
			// the inviter terminated itself), and validated identities without a pool: the targets a stranger's
			// termination transaction must not be able to touch
			if p.Balances[0].Cmp(sim.Dna(2000)) < 0 {
				p.Balances[0] = sim.Dna(2000) // the god address funds the zero address and its invitations
			}
			for i := range p.States {
				switch {
				case i > 0 && i%4 == 1:
					p.States[i] = rapid.SampledFrom([]state.IdentityState{state.Invite, state.Candidate, state.Invite}).Draw(t, "looseInvitee")
					p.Stakes[i] = sim.Dna(int64(5 + i))
					if p.Balances[i].Sign() == 0 {
						p.Balances[i] = sim.Dna(int64(30 + i)) // an invitation that came with coins
					}
				case i > 0 && i%4 == 2 && p.States[i] == state.Undefined:
					p.States[i] = state.Verified
					p.Stakes[i] = sim.Dna(int64(20 + i))
				}
			}
		}
		opt.BetweenBlocks = func(h *sim.History) {
			w := h.W
			if len(h.Blocks) == 0 {
				// the zero address owns coins (anybody can send there): a transaction nobody signed "recovers" to it
				r0 := w.Replicas[0]
				zero := common.Address{}
				funding, _ := types.SignTx(&types.Transaction{Type: types.SendTx, AccountNonce: r0.AppState.NonceCache.GetNonce(w.God.Addr, 0) + 1, To: &zero, Amount: sim.Dna(300), MaxFee: sim.Dna(50)}, w.God.Key)
				for _, r := range w.Replicas {
					r.Pool.AddExternalTxs(validation.MempoolTx, sim.WireCopyTx(funding))
				}
			}
			// an inviter with several invitees at once: the god address invites 0-5 fresh addresses in the first block
			// (the invitation carries coins), they activate themselves and put a part of the coins at stake
			r0 := w.Replicas[0]
			offer := func(tx *types.Transaction, key *ecdsa.PrivateKey) {
				// twice the current fee, as the generator does
				ps := r0.ReadState()
				netSize := ps.ValidatorsCache.NetworkSize()
				tx.MaxFee = big.NewInt(1)
				f := feepkg.CalculateFee(netSize, ps.State.FeePerGas(), tx)
				if min := feepkg.CalculateFee(netSize, feepkg.GetFeePerGasForNetwork(netSize), tx); min.Cmp(f) > 0 {
					f = min
				}
				tx.MaxFee = new(big.Int).Mul(f, big.NewInt(2))
				signed, err := types.SignTx(tx, key)
				if err != nil {
					t.Fatalf("sign: %v", err)
				}
				for i, r := range w.Replicas {
					if err := r.Pool.AddExternalTxs(validation.MempoolTx, sim.WireCopyTx(signed)); err != nil && i == 0 {
						evid.Count("setup.refused." + sim.TxTypeNames[tx.Type] + "." + err.Error())
					}
				}
			}
			if len(h.Blocks) == 0 {
				n := r0.AppState.NonceCache.GetNonce(w.God.Addr, 0) // (counts the zero-address funding above)
				for k := rapid.SampledFrom([]int{0, 3, 1, 4, 2, 5}).Draw(t, "godInvitees"); k > 0; k-- {
					n++
					to := w.NewActor().Addr
					godInvitees[w] = append(godInvitees[w], to)
					offer(&types.Transaction{Type: types.InviteTx, AccountNonce: n, To: &to, Amount: sim.Dna(40)}, w.God.Key)
				}
			}
			// ... and the inviter may leave: a validated god identity terminates itself at a drawn block (its invitees are
			// released; what it signs afterwards is signed by a stranger)
			if len(h.Blocks) == 0 && len(godInvitees[w]) > 0 {
				godExit[w] = rapid.SampledFrom([]int{0, 5, 7, 0, 9, 12}).Draw(t, "inviterTerminatesItselfAtBlock")
			}
			if b := godExit[w]; b > 0 && len(h.Blocks) == b {
				if st := r0.ReadState().State; st.GetIdentityState(w.God.Addr).NewbieOrBetter() {
					offer(&types.Transaction{Type: types.KillTx, AccountNonce: r0.AppState.NonceCache.GetNonce(w.God.Addr, st.Epoch()) + 1, Epoch: st.Epoch()}, w.God.Key)
					evid.Count("setup.inviter_terminates_itself")
					godExit[w] = -b
				}
			}
			for _, a := range godInvitees[w] {
				x := w.ByAddr[a]
				st := r0.ReadState().State
				switch id := st.GetIdentity(a); {
				case id.State == state.Invite && st.GetNonce(a) == 0:
					offer(&types.Transaction{Type: types.ActivationTx, AccountNonce: 1, To: &a, Payload: x.Pub}, x.Key)
				case id.State == state.Candidate && (id.Stake == nil || id.Stake.Sign() == 0) && st.GetNonce(a) == 1 && a[0]%4 != 0:
					offer(&types.Transaction{Type: types.ReplenishStakeTx, AccountNonce: 2, To: &a, Amount: sim.Dna(int64(5 + a[1]%20))}, x.Key)
				}
			}
			if gi := godInvitees[w]; len(gi) > 0 {
				st := r0.ReadState().State
				linked, stale := 0, 0
				for _, a := range gi {
					if inv := st.GetIdentity(a).Inviter; inv != nil && inv.Address == w.God.Addr {
						linked++
						if godExit[w] < 0 && !st.GetIdentityState(w.God.Addr).NewbieOrBetter() && st.GetIdentityState(a) == state.Candidate {
							stale++
						}
					}
				}
				evid.Count(fmt.Sprintf("setup.god_invitees_linked=%d_of_%d.god_state=%d", linked, len(gi), st.GetIdentityState(w.God.Addr)))
				if stale > 0 {
					evid.Count("setup.candidate_still_names_a_terminated_inviter")
				}
			}
			el := w.Eligible()
			if len(el) == 0 {
				return
			}
			p := el[0]
			for k := rapid.IntRange(0, 2).Draw(t, "experiments"); k > 0; k-- {
				tx, info := w.GenTx(t, p, weightedTypes)
				evid.Eval()
				if tx.Type == types.KillInviteeTx || tx.Type == types.KillDelegatorTx {
					evid.Count("attempt." + sim.TxTypeNames[tx.Type] + "." + info.Rel)
				}
				// sometimes the transaction under test is followed by further transactions in the same block
				// (one VM and one check state are shared by the whole block)
				var followers []*types.Transaction
				for n := rapid.IntRange(0, 3).Draw(t, "followers"); n > 0 && rapid.IntRange(0, 2).Draw(t, "multi") == 0; n-- {
					f, _ := w.GenTx(t, p, nil)
					followers = append(followers, f)
				}
				mk := func(name string) *sim.Replica {
					r := &sim.Replica{W: w, Name: name, Key: p.Key, Addr: p.Addr, DB: sim.CopyDB(p.DB), Ipfs: p.Ipfs, Loc: time.UTC}
					if err := r.Start(); err != nil {
						t.Fatalf("start copy: %v", err)
					}
					return r
				}
				with, without := mk("with"), mk("without")
				// The named exceptions are judged on the state the transaction is applied to: a body [tx1, tx] in which
				// tx is no longer valid once tx1 has been applied (its signer terminated itself, released its invitees,
				// left or lost its pool ...) must be refused by strict block processing, whatever tx was worth before.
				if rapid.IntRange(0, 2).Draw(t, "craftedPair") == 0 && info.Sender != nil && info.Hostile == "" {
					sequentialValidity(t, w, with, tx, info)
				}
				// an object built inside the node (RPC, own code) may carry money fields below zero (the wire drops the sign):
				// one experiment in ten gives the generated transaction a negative amount that tips or max fee make up for
				if info.Sender != nil && info.Hostile == "" && rapid.IntRange(0, 9).Draw(t, "negativeMoneyField") == 0 {
					c := &types.Transaction{Type: tx.Type, AccountNonce: tx.AccountNonce, Epoch: tx.Epoch, To: tx.To, MaxFee: tx.MaxFee, Tips: tx.Tips, Payload: tx.Payload}
					neg := new(big.Int).Neg(sim.Dna(int64(rapid.IntRange(1, 400).Draw(t, "negativeAmount"))))
					c.Amount = neg
					if rapid.Bool().Draw(t, "compensatedByTips") {
						c.Tips = new(big.Int).Neg(neg)
					} else {
						c.MaxFee = new(big.Int).Add(new(big.Int).Neg(neg), tx.MaxFeeOrZero())
					}
					if signed, err := types.SignTx(c, info.Sender.Key); err == nil {
						tx, info.Hostile = signed, "negative-amount"
						evid.Count("tx.negative_amount." + sim.TxTypeNames[tx.Type])
					}
				}
				// the signer may have spent (nearly) everything it owns earlier in the same block: a payment of its own
				// with the nonce of tx goes first, tx follows with the next nonce and a drawn max fee
				var drain *types.Transaction
				if info.Sender != nil && info.Hostile == "" && rapid.IntRange(0, 3).Draw(t, "signerDrainedFirst") <= map[bool]int{false: 0, true: 2}[tx.Type == types.ActivationTx] {
					ps := p.ReadState()
					bal := ps.State.GetBalance(info.Sender.Addr)
					probe := &types.Transaction{Type: types.SendTx, AccountNonce: tx.AccountNonce, Epoch: tx.Epoch, To: &common.Address{1}, Amount: bal, MaxFee: bal}
					netSize := ps.ValidatorsCache.NetworkSize()
					fee := feepkg.CalculateFee(netSize, ps.State.FeePerGas(), probe)
					if min := feepkg.CalculateFee(netSize, feepkg.GetFeePerGasForNetwork(netSize), probe); min.Cmp(fee) > 0 {
						fee = min
					}
					fee = new(big.Int).Mul(fee, big.NewInt(int64(rapid.IntRange(2, 4).Draw(t, "drainFeeFactor"))))
					if left := new(big.Int).Sub(bal, fee); left.Sign() > 0 {
						to := w.Actors[rapid.IntRange(0, len(w.Actors)-1).Draw(t, "drainTo")].Addr
						keep := big.NewInt(int64(rapid.SampledFrom([]int{0, 0, 1, 1000}).Draw(t, "drainKeeps")))
						if keep.Cmp(left) < 0 {
							left.Sub(left, keep)
						}
						drain, _ = types.SignTx(&types.Transaction{Type: types.SendTx, AccountNonce: tx.AccountNonce, Epoch: tx.Epoch, To: &to, Amount: left, MaxFee: fee}, info.Sender.Key)
						second := &types.Transaction{Type: tx.Type, AccountNonce: tx.AccountNonce + 1, Epoch: tx.Epoch, To: tx.To, Amount: tx.Amount, Tips: tx.Tips, Payload: tx.Payload,
							MaxFee: rapid.SampledFrom([]*big.Int{bal, sim.Dna(1), new(big.Int).Rsh(bal, 1), tx.MaxFee, big.NewInt(0)}).Draw(t, "maxFeeAfterDrain")}
						tx, _ = types.SignTx(second, info.Sender.Key)
						evid.Count("tx.signer_drained_first")
					}
				}
				_, unsignedErr := types.Sender(sim.WireCopyTx(tx))
				if unsignedErr != nil {
					evid.Count("tx.unrecoverable_signature")
				}
				// sender recovery: the signer the node attributes a received transaction to is the address whose key signed
				// exactly this content
				if got, err := types.Sender(sim.WireCopyTx(tx)); err == nil {
					if want, werr := sim.TrueSigner(sim.WireCopyTx(tx)); werr != nil || got != want {
						t.Fatalf("the node attributes a %s tx (hostile=%q) to %s, but its signature over this content recovers to %s (%v): the funds of somebody who did not sign it are at stake", sim.TxTypeNames[tx.Type], info.Hostile, w.Name(got), w.Name(want), werr)
					}
				}
				if info.Hostile == "grafted-signature" {
					evid.Count("tx.grafted_signature")
				}
				if drain != nil {
					if err := with.Pool.AddExternalTxs(validation.MempoolTx, drain); err != nil {
						evid.Count("tx.drain_refused_by_pool")
						evid.Count("tx.drain_refused." + err.Error())
						continue
					}
					without.Pool.AddExternalTxs(validation.MempoolTx, sim.WireCopyTx(drain))
				}
				if err := with.Pool.AddExternalTxs(validation.MempoolTx, tx); err != nil {
					evid.Count("tx.refused_by_pool")
					if unsignedErr != nil {
						// a dishonest proposer bypasses the pool: strict block processing must refuse it as well
						cs, cerr := with.AppState.ForCheck(with.Head().Height())
						if cerr != nil {
							t.Fatalf("ForCheck: %v", cerr)
						}
						hdr := &types.Header{ProposedHeader: &types.ProposedHeader{Height: with.Head().Height() + 1, ParentHash: with.Head().Hash(), Time: w.Now().Unix(), ProposerPubKey: w.God.Pub}}
						if _, perr := with.Chain.VerifProcessTxs(cs, []*types.Transaction{sim.WireCopyTx(tx)}, hdr); perr == nil {
							t.Fatalf("block processing applied a %s tx whose signature no key can be recovered from (%v): nobody signed it, yet it spends the funds of %x", sim.TxTypeNames[tx.Type], unsignedErr, common.Address{})
						}
					}
					continue
				}
				if unsignedErr != nil {
					t.Fatalf("the pool accepted a %s tx whose signature no key can be recovered from (%v): nobody signed it", sim.TxTypeNames[tx.Type], unsignedErr)
				}
				for _, f := range followers {
					with.Pool.AddExternalTxs(validation.MempoolTx, f)
				}
				b1 := with.Propose().Block
				included := false
				for _, x := range b1.Body.Transactions {
					if x.Hash() == tx.Hash() {
						included = true
					}
				}
				if !included {
					evid.Count("tx.left_out_by_builder")
					continue
				}
				if len(b1.Body.Transactions) > 1 {
					evid.Count("block.multi_tx")
				}
				if drain != nil {
					evid.Count("block.tx_after_own_drain." + sim.TxTypeNames[tx.Type])
				}
				b2 := without.Propose().Block
				if b2.Header.Flags().HasFlag(types.ValidationFinished) {
					// epoch rewards are shares of a pool: any stake change shifts everybody's share; outside the claim
					evid.Count("tx.skipped_epoch_block")
					continue
				}
				pre := with.ReadState()
				signer, _ := sim.TrueSigner(tx)
				if err := with.AddBlock(b1); err != nil {
					t.Fatalf("block with the tx refused: %v", err)
				}
				if err := without.AddBlock(b2); err != nil {
					t.Fatalf("block without the tx refused: %v", err)
				}
				hw, ho := holdingsOf(sim.Image(with.ReadState())), holdingsOf(sim.Image(without.ReadState()))
				// addresses allowed to lose value
				allowed := map[common.Address]string{}
				for _, x := range b1.Body.Transactions {
					xs, _ := sim.TrueSigner(x)
					allowed[xs] = "signer"
					if x.To != nil {
						switch x.Type {
						case types.KillInviteeTx:
							// the relation is recorded on both sides; a signer whose own record does not list the target
							// (it terminated itself and released its invitees) has no invitee to terminate
							if inv := pre.State.GetIdentity(*x.To).Inviter; inv != nil && inv.Address == xs {
								// (an invitation that was not activated yet is recorded at the invited address only)
								listed := pre.State.GetIdentity(*x.To).State == state.Invite
								for _, i := range pre.State.GetIdentity(xs).Invitees {
									listed = listed || i.Address == *x.To
								}
								if listed {
									allowed[*x.To] = "own invitee"
								} else {
									evid.Count("relation.inviter_record_without_invitee_entry")
								}
							}
						case types.KillDelegatorTx:
							idTo := pre.State.GetIdentity(*x.To)
							if d := idTo.Delegatee(); d != nil && *d == xs {
								allowed[*x.To] = "own delegator"
							}
						}
					}
					if rec := with.Chain.GetReceipt(x.Hash()); rec != nil {
						allowed[rec.ContractAddress] = "executing contract"
						for _, e := range rec.Events {
							if !e.Contract.IsEmpty() {
								allowed[e.Contract] = "executing contract"
							}
						}
					}
				}
				addrs := map[common.Address]bool{}
				for _, m := range []map[common.Address]*big.Int{hw.balance, ho.balance, hw.stake, ho.stake, hw.contractStake, ho.contractStake} {
					for a := range m {
						addrs[a] = true
					}
				}
				for a := range addrs {
					if _, ok := allowed[a]; ok {
						continue
					}
					for _, part := range []struct {
						n    string
						w, o map[common.Address]*big.Int
					}{{"balance", hw.balance, ho.balance}, {"stake", hw.stake, ho.stake}, {"contract stake", hw.contractStake, ho.contractStake}} {
						if d := new(big.Int).Sub(get(part.w, a), get(part.o, a)); d.Sign() < 0 {
							t.Fatalf("%s tx of %s (target relation %s, hostile=%q, to=%v, amount=%v) lowered the %s of unrelated %s by %v\nhistory:\n%s", sim.TxTypeNames[tx.Type], w.Name(signer), info.Rel, info.Hostile, tx.To, tx.Amount, part.n, w.Name(a), new(big.Int).Neg(d), h.Summary())
						}
					}
				}
				// a transaction never increases the ledger total
				if d := new(big.Int).Sub(hw.total, ho.total); d.Sign() > 0 {
					t.Fatalf("%s tx of %s (relation %s, hostile=%q, amount=%v) increased the ledger total by %v\nhistory:\n%s", sim.TxTypeNames[tx.Type], w.Name(signer), info.Rel, info.Hostile, tx.Amount, d, h.Summary())
				}
				evid.Count("applied." + sim.TxTypeNames[tx.Type] + "." + info.Rel)
				if tx.To != nil && *tx.To != signer {
					d := fmt.Sprintf("%s|%s|%s|%s", w.P.Profile, sim.TxTypeNames[tx.Type], info.Rel, info.Hostile)
					evid.NonTrivial(d)
					evid.Sample("single-tx", d)
					evid.Count("applied.nontrivial")
				}
			}
		}
		sim.RunHistory(t, opt)
	})
}

// The signer of a transaction is who signed it last: re-signing an object whose
// sender was already recovered (and cached on the object) with another key must
// yield a transaction of the new signer, in memory and after the wire.
func TestSignerIsWhoSignedLast(t *testing.T) {
	rapid.Check(t, func(t *rapid.T) {
		evid.Eval()
		ka, kb := sim.DeriveKey(rapid.Uint64().Draw(t, "ka"), 1), sim.DeriveKey(rapid.Uint64().Draw(t, "kb"), 2)
		var to common.Address
		to[3] = byte(rapid.IntRange(1, 255).Draw(t, "to"))
		tx := &types.Transaction{Type: types.TxType(rapid.IntRange(0, 0x16).Draw(t, "type")), AccountNonce: uint32(rapid.IntRange(1, 1000).Draw(t, "nonce")), Epoch: uint16(rapid.IntRange(0, 200).Draw(t, "epoch")),
			To: &to, Amount: big.NewInt(int64(rapid.IntRange(0, 1<<40).Draw(t, "amount"))), MaxFee: big.NewInt(int64(rapid.IntRange(0, 1<<40).Draw(t, "maxFee"))), Payload: rapid.SliceOfN(rapid.Byte(), 0, 40).Draw(t, "payload")}
		s1, err := types.SignTx(tx, ka)
		if err != nil {
			t.Fatal(err)
		}
		a, b := crypto.PubkeyToAddress(ka.PublicKey), crypto.PubkeyToAddress(kb.PublicKey)
		recovered := rapid.Bool().Draw(t, "senderRecoveredBeforeResign")
		if recovered {
			if got, _ := types.Sender(s1); got != a {
				t.Fatalf("sender of a tx signed by %x is %x", a, got)
			}
			evid.Count("resign.after_sender_was_cached")
		}
		s2, err := types.SignTx(s1, kb)
		if err != nil {
			t.Fatal(err)
		}
		if got, _ := types.Sender(s2); got != b {
			t.Fatalf("tx re-signed by %x is attributed to %x (previous signer %x, sender recovered before re-signing: %v)", b, got, a, recovered)
		}
		if got, _ := types.Sender(sim.WireCopyTx(s2)); got != b {
			t.Fatalf("after the wire the re-signed tx is attributed to %x, signed by %x", got, b)
		}
		if got, _ := types.Sender(s1); got != a {
			t.Fatalf("re-signing changed the signer of the original object")
		}
		evid.NonTrivial(fmt.Sprintf("resign|%d|%v", tx.Type, recovered))
	})
}

var relationshipChangers = []types.TxType{types.KillTx, types.KillTx, types.KillTx, types.UndelegateTx, types.KillInviteeTx, types.KillDelegatorTx, types.DelegateTx, types.SendTx, types.OnlineStatusTx}

func sequentialValidity(t *rapid.T, w *sim.World, r *sim.Replica, tx *types.Transaction, info sim.TxInfo) {
	signer, _ := types.Sender(tx)
	var tx1 *types.Transaction
	var info1 sim.TxInfo
	for i := 0; i < 4; i++ {
		tx1, info1 = w.GenTx(t, r, relationshipChangers)
		if s1, _ := types.Sender(tx1); info1.Hostile == "" && (s1 == signer || tx.To != nil && s1 == *tx.To) {
			break
		}
	}
	if info1.Hostile != "" {
		return
	}
	s1, _ := types.Sender(tx1)
	tx2 := tx
	if s1 == signer {
		c := *sim.WireCopyTx(tx)
		c.AccountNonce = tx1.AccountNonce + 1
		c.Signature = nil
		resigned, err := types.SignTx(&c, info.Sender.Key)
		if err != nil {
			t.Fatalf("sign: %v", err)
		}
		tx2 = resigned
	}
	hdr := &types.Header{ProposedHeader: &types.ProposedHeader{Height: r.Head().Height() + 1, ParentHash: r.Head().Hash(), Time: w.Now().Unix(), ProposerPubKey: w.God.Pub}}
	cs1, err := r.AppState.ForCheck(r.Head().Height())
	if err != nil {
		t.Fatalf("ForCheck: %v", err)
	}
	if _, err := r.Chain.VerifProcessTxs(cs1, []*types.Transaction{sim.WireCopyTx(tx1)}, hdr); err != nil {
		evid.Count("pair.first_tx_invalid")
		return
	}
	evid.Eval()
	minFee := fee.GetFeePerGasForNetwork(cs1.ValidatorsCache.NetworkSize())
	after := validation.ValidateTx(cs1, sim.WireCopyTx(tx2), minFee, validation.InBlockTx)
	cs2, err := r.AppState.ForCheck(r.Head().Height())
	if err != nil {
		t.Fatalf("ForCheck: %v", err)
	}
	_, perr := r.Chain.VerifProcessTxs(cs2, []*types.Transaction{sim.WireCopyTx(tx1), sim.WireCopyTx(tx2)}, hdr)
	rel := "other"
	if s1 == signer {
		rel = "same-signer"
	}
	if after != nil {
		evid.Count("pair.second_invalid_after_first." + rel)
		if perr == nil {
			t.Fatalf("block processing applied the body [%s of %s, %s of %s -> %v] although the second transaction is invalid on the state the first one leaves (%v)", sim.TxTypeNames[tx1.Type], w.Name(s1), sim.TxTypeNames[tx2.Type], w.Name(signer), tx2.To, after)
		}
		evid.NonTrivial(fmt.Sprintf("pair|%s|%s|%s|%v", sim.TxTypeNames[tx1.Type], sim.TxTypeNames[tx2.Type], rel, after))
	} else {
		evid.Count("pair.second_still_valid." + rel)
	}
}

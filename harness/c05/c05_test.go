package c05

import (
	"fmt"
	"math/big"
	"testing"
	"time"

	"github.com/idena-network/idena-go/blockchain/types"
	"github.com/idena-network/idena-go/blockchain/validation"
	"github.com/idena-network/idena-go/common"
	"github.com/idena-network/idena-go/core/state"
	"github.com/idena-network/idena-go/crypto"
	"pgregory.net/rapid"

	"verifharness/internal/evid"
	"verifharness/internal/sim"
)

func TestMain(m *testing.M) { evid.Main(m) }

func nz(x *big.Int) *big.Int {
	if x == nil {
		return new(big.Int)
	}
	return x
}

type holdings struct {
	balance, stake, contractStake map[common.Address]*big.Int
	total                         *big.Int
}

func holdingsOf(img *sim.StateImage) *holdings {
	h := &holdings{map[common.Address]*big.Int{}, map[common.Address]*big.Int{}, map[common.Address]*big.Int{}, new(big.Int)}
	for a, acc := range img.Accounts {
		h.balance[a] = nz(acc.Balance)
		h.total.Add(h.total, nz(acc.Balance))
		if acc.Contract != nil {
			h.contractStake[a] = nz(acc.Contract.Stake)
			h.total.Add(h.total, nz(acc.Contract.Stake))
		}
	}
	for a, id := range img.Identities {
		h.stake[a] = nz(id.Stake)
		h.total.Add(h.total, nz(id.Stake))
	}
	return h
}

func get(m map[common.Address]*big.Int, a common.Address) *big.Int {
	if v, ok := m[a]; ok {
		return v
	}
	return new(big.Int)
}

// A transaction can only lower the holdings of its signer (and of the named
// exceptions), decided differentially: the same proposer builds, on two copies
// of the same state at the same instant, a block with the transaction and one
// without it.
// every type, with the types whose validity hangs on a relationship between signer and target (the statement's named
// exceptions) drawn more often
var weightedTypes = func() []types.TxType {
	var res []types.TxType
	for typ := types.TxType(0); typ <= 0x16; typ++ {
		if _, ok := sim.TxTypeNames[typ]; ok {
			res = append(res, typ)
		}
	}
	for i := 0; i < 4; i++ {
		res = append(res, types.KillInviteeTx, types.KillDelegatorTx)
	}
	return append(res, types.KillTx, types.UndelegateTx, types.CallContractTx, types.TerminateContractTx)
}()

func TestOnlySignerPays(t *testing.T) {
	rapid.Check(t, func(t *rapid.T) {
		opt := sim.Options{MinActors: 4, MaxActors: 10, Replicas: 1, MaxReplicas: 4, Steps: 30, MaxTxPerStep: 5}
		opt.Params = func(p *sim.Params) {
			// some invited / candidate addresses that own stake and have no inviter link (genesis allocations; on a chain:
			// the inviter terminated itself), and validated identities without a pool: the targets a stranger's
			// termination transaction must not be able to touch
			for i := range p.States {
				switch {
				case i > 0 && i%4 == 1:
					p.States[i] = rapid.SampledFrom([]state.IdentityState{state.Candidate, state.Invite}).Draw(t, "looseInvitee")
					p.Stakes[i] = sim.Dna(int64(5 + i))
				case i > 0 && i%4 == 2 && p.States[i] == state.Undefined:
					p.States[i] = state.Verified
					p.Stakes[i] = sim.Dna(int64(20 + i))
				}
			}
		}
		opt.BetweenBlocks = func(h *sim.History) {
			w := h.W
			el := w.Eligible()
			if len(el) == 0 {
				return
			}
			p := el[0]
			for k := rapid.IntRange(0, 2).Draw(t, "experiments"); k > 0; k-- {
				tx, info := w.GenTx(t, p, weightedTypes)
				evid.Eval()
				if tx.Type == types.KillInviteeTx || tx.Type == types.KillDelegatorTx {
					evid.Count("attempt." + sim.TxTypeNames[tx.Type] + "." + info.Rel)
				}
				// sometimes the transaction under test is followed by further transactions in the same block
				// (one VM and one check state are shared by the whole block)
				var followers []*types.Transaction
				for n := rapid.IntRange(0, 3).Draw(t, "followers"); n > 0 && rapid.IntRange(0, 2).Draw(t, "multi") == 0; n-- {
					f, _ := w.GenTx(t, p, nil)
					followers = append(followers, f)
				}
				mk := func(name string) *sim.Replica {
					r := &sim.Replica{W: w, Name: name, Key: p.Key, Addr: p.Addr, DB: sim.CopyDB(p.DB), Ipfs: p.Ipfs, Loc: time.UTC}
					if err := r.Start(); err != nil {
						t.Fatalf("start copy: %v", err)
					}
					return r
				}
				with, without := mk("with"), mk("without")
				if err := with.Pool.AddExternalTxs(validation.MempoolTx, tx); err != nil {
					evid.Count("tx.refused_by_pool")
					continue
				}
				for _, f := range followers {
					with.Pool.AddExternalTxs(validation.MempoolTx, f)
				}
				b1 := with.Propose().Block
				included := false
				for _, x := range b1.Body.Transactions {
					if x.Hash() == tx.Hash() {
						included = true
					}
				}
				if !included {
					evid.Count("tx.left_out_by_builder")
					continue
				}
				if len(b1.Body.Transactions) > 1 {
					evid.Count("block.multi_tx")
				}
				b2 := without.Propose().Block
				if b2.Header.Flags().HasFlag(types.ValidationFinished) {
					// epoch rewards are shares of a pool: any stake change shifts everybody's share; outside the claim
					evid.Count("tx.skipped_epoch_block")
					continue
				}
				pre := with.ReadState()
				signer, _ := types.Sender(tx)
				if err := with.AddBlock(b1); err != nil {
					t.Fatalf("block with the tx refused: %v", err)
				}
				if err := without.AddBlock(b2); err != nil {
					t.Fatalf("block without the tx refused: %v", err)
				}
				hw, ho := holdingsOf(sim.Image(with.ReadState())), holdingsOf(sim.Image(without.ReadState()))
				// addresses allowed to lose value
				allowed := map[common.Address]string{}
				for _, x := range b1.Body.Transactions {
					xs, _ := types.Sender(x)
					allowed[xs] = "signer"
					if x.To != nil {
						switch x.Type {
						case types.KillInviteeTx:
							if inv := pre.State.GetIdentity(*x.To).Inviter; inv != nil && inv.Address == xs {
								allowed[*x.To] = "own invitee"
							}
						case types.KillDelegatorTx:
							idTo := pre.State.GetIdentity(*x.To)
							if d := idTo.Delegatee(); d != nil && *d == xs {
								allowed[*x.To] = "own delegator"
							}
						}
					}
					if rec := with.Chain.GetReceipt(x.Hash()); rec != nil {
						allowed[rec.ContractAddress] = "executing contract"
						for _, e := range rec.Events {
							if !e.Contract.IsEmpty() {
								allowed[e.Contract] = "executing contract"
							}
						}
					}
				}
				addrs := map[common.Address]bool{}
				for _, m := range []map[common.Address]*big.Int{hw.balance, ho.balance, hw.stake, ho.stake, hw.contractStake, ho.contractStake} {
					for a := range m {
						addrs[a] = true
					}
				}
				for a := range addrs {
					if _, ok := allowed[a]; ok {
						continue
					}
					for _, part := range []struct {
						n    string
						w, o map[common.Address]*big.Int
					}{{"balance", hw.balance, ho.balance}, {"stake", hw.stake, ho.stake}, {"contract stake", hw.contractStake, ho.contractStake}} {
						if d := new(big.Int).Sub(get(part.w, a), get(part.o, a)); d.Sign() < 0 {
							t.Fatalf("%s tx of %s (target relation %s, hostile=%q, to=%v, amount=%v) lowered the %s of unrelated %s by %v\nhistory:\n%s", sim.TxTypeNames[tx.Type], w.Name(signer), info.Rel, info.Hostile, tx.To, tx.Amount, part.n, w.Name(a), new(big.Int).Neg(d), h.Summary())
						}
					}
				}
				// a transaction never increases the ledger total
				if d := new(big.Int).Sub(hw.total, ho.total); d.Sign() > 0 {
					t.Fatalf("%s tx of %s (relation %s, hostile=%q, amount=%v) increased the ledger total by %v\nhistory:\n%s", sim.TxTypeNames[tx.Type], w.Name(signer), info.Rel, info.Hostile, tx.Amount, d, h.Summary())
				}
				evid.Count("applied." + sim.TxTypeNames[tx.Type] + "." + info.Rel)
				if tx.To != nil && *tx.To != signer {
					d := fmt.Sprintf("%s|%s|%s|%s", w.P.Profile, sim.TxTypeNames[tx.Type], info.Rel, info.Hostile)
					evid.NonTrivial(d)
					evid.Sample("single-tx", d)
					evid.Count("applied.nontrivial")
				}
			}
		}
		sim.RunHistory(t, opt)
	})
}

// The signer of a transaction is who signed it last: re-signing an object whose
// sender was already recovered (and cached on the object) with another key must
// yield a transaction of the new signer, in memory and after the wire.
func TestSignerIsWhoSignedLast(t *testing.T) {
	rapid.Check(t, func(t *rapid.T) {
		evid.Eval()
		ka, kb := sim.DeriveKey(rapid.Uint64().Draw(t, "ka"), 1), sim.DeriveKey(rapid.Uint64().Draw(t, "kb"), 2)
		var to common.Address
		to[3] = byte(rapid.IntRange(1, 255).Draw(t, "to"))
		tx := &types.Transaction{Type: types.TxType(rapid.IntRange(0, 0x16).Draw(t, "type")), AccountNonce: uint32(rapid.IntRange(1, 1000).Draw(t, "nonce")), Epoch: uint16(rapid.IntRange(0, 200).Draw(t, "epoch")),
			To: &to, Amount: big.NewInt(int64(rapid.IntRange(0, 1<<40).Draw(t, "amount"))), MaxFee: big.NewInt(int64(rapid.IntRange(0, 1<<40).Draw(t, "maxFee"))), Payload: rapid.SliceOfN(rapid.Byte(), 0, 40).Draw(t, "payload")}
		s1, err := types.SignTx(tx, ka)
		if err != nil {
			t.Fatal(err)
		}
		a, b := crypto.PubkeyToAddress(ka.PublicKey), crypto.PubkeyToAddress(kb.PublicKey)
		recovered := rapid.Bool().Draw(t, "senderRecoveredBeforeResign")
		if recovered {
			if got, _ := types.Sender(s1); got != a {
				t.Fatalf("sender of a tx signed by %x is %x", a, got)
			}
			evid.Count("resign.after_sender_was_cached")
		}
		s2, err := types.SignTx(s1, kb)
		if err != nil {
			t.Fatal(err)
		}
		if got, _ := types.Sender(s2); got != b {
			t.Fatalf("tx re-signed by %x is attributed to %x (previous signer %x, sender recovered before re-signing: %v)", b, got, a, recovered)
		}
		if got, _ := types.Sender(sim.WireCopyTx(s2)); got != b {
			t.Fatalf("after the wire the re-signed tx is attributed to %x, signed by %x", got, b)
		}
		if got, _ := types.Sender(s1); got != a {
			t.Fatalf("re-signing changed the signer of the original object")
		}
		evid.NonTrivial(fmt.Sprintf("resign|%d|%v", tx.Type, recovered))
	})
}

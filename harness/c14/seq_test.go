package c14

import (
	"fmt"
	"sort"
	"strings"
	"testing"
	"time"

	"github.com/idena-network/idena-go/blockchain/fee"
	"github.com/idena-network/idena-go/blockchain/types"
	"github.com/idena-network/idena-go/blockchain/validation"
	"github.com/idena-network/idena-go/common"
	"github.com/idena-network/idena-go/core/state"
	"pgregory.net/rapid"

	"verifharness/internal/evid"
	"verifharness/internal/sim"
)

// entry is a transaction the pool admitted and that has neither been included
// nor made invalid since: the pool must keep it.
type entry struct {
	tx     *types.Transaction
	sender common.Address
	gap    bool // admitted behind a nonce gap (out of order)
	how    string
}

type seqEnv struct {
	t    *rapid.T
	w    *sim.World
	r    *sim.Replica // node whose pool is under test
	fr   *sim.Replica // another proposer with its own pool (may be nil)
	rich []*sim.Actor
	live map[common.Hash]*entry
	salt int64
	log  []string

	timing     string
	syncing    bool
	blocks     int
	promotions int
	capBinding int
	counts     map[string]int
	periods    map[string]bool
	epochs     int

	// restart test only (node with the on-disk tx keeper)
	dataDir   string
	startedAt time.Time
	restarts  int
	included  map[common.Hash]uint64
}

func (e *seqEnv) note(format string, args ...interface{}) {
	e.log = append(e.log, fmt.Sprintf(format, args...))
}

func (e *seqEnv) ctx() string {
	s := e.r.ReadState()
	var sb strings.Builder
	fmt.Fprintf(&sb, "head=%d epoch=%d period=%s syncing=%v limits=%+v\npool: %s\nactions:\n", e.r.Head().Height(), s.State.Epoch(), sim.PeriodName(s.State.ValidationPeriod()), e.syncing, *e.r.Cfg.Mempool, txsDesc(e.w, poolContent(e.r.Pool)))
	from := 0
	if len(e.log) > 120 {
		from = len(e.log) - 120
	}
	for _, l := range e.log[from:] {
		sb.WriteString("  " + l + "\n")
	}
	return sb.String()
}

var genTypes = []types.TxType{
	types.SendTx, types.SendTx, types.SendTx, types.ActivationTx, types.InviteTx, types.InviteTx, types.KillTx,
	types.SubmitFlipTx, types.SubmitFlipTx, types.SubmitAnswersHashTx, types.SubmitShortAnswersTx, types.SubmitLongAnswersTx,
	types.EvidenceTx, types.KillInviteeTx, types.BurnTx, types.ChangeProfileTx, types.DeleteFlipTx, types.DeployContractTx,
	types.CallContractTx, types.TerminateContractTx, types.DelegateTx, types.DelegateTx, types.UndelegateTx,
	types.KillDelegatorTx, types.StoreToIpfsTx, types.ReplenishStakeTx, types.ReplenishStakeTx,
}

var ceremonialTypes = []types.TxType{types.SubmitAnswersHashTx, types.SubmitAnswersHashTx, types.SubmitShortAnswersTx, types.SubmitLongAnswersTx, types.EvidenceTx}

// submit hands one transaction to the pool under test through a drawn entry
// point and records whether it was admitted.
func (e *seqEnv) submit(tx *types.Transaction, gap bool, what string) {
	t := e.t
	pool := e.r.Pool
	sender, _ := types.Sender(tx)
	had := pool.GetTx(tx.Hash()) != nil
	via := rapid.SampledFrom([]string{"inbound", "inbound", "mempool", "internal"}).Draw(t, "via")
	var err error
	switch via {
	case "inbound":
		err = pool.AddExternalTxs(validation.InboundTx, tx)
	case "mempool":
		err = pool.AddExternalTxs(validation.MempoolTx, tx)
	case "internal":
		err = pool.AddInternalTx(tx)
	}
	has := pool.GetTx(tx.Hash()) != nil
	// while the node syncs, both entry points answer nil for transactions they only deferred
	definite := !e.syncing
	e.note("%s %s via %s -> err=%v inPool=%v", what, txDesc(e.w, tx), via, err, has)
	if definite && err == nil && !has {
		t.Fatalf("pool accepted %s (nil error, not syncing) but GetTx does not find it\n%s", txDesc(e.w, tx), e.ctx())
	}
	if definite && err != nil && has && !had {
		t.Fatalf("pool refused %s (%v) but holds it\n%s", txDesc(e.w, tx), err, e.ctx())
	}
	e.counts["submit."+via]++
	if has && !had {
		e.live[tx.Hash()] = &entry{tx: tx, sender: sender, gap: gap, how: what}
		e.counts["admit."+what]++
		if validation.CeremonialTxs[tx.Type] {
			e.counts["admit.ceremonial"]++
		}
		if e.syncing {
			e.counts["admit.while_syncing"]++
		}
	} else if !has {
		e.counts["refuse."+what]++
		if err != nil {
			msg := err.Error()
			switch {
			case strings.Contains(msg, "full") || strings.Contains(msg, "max size"):
				e.counts["refuse.limit"]++
			case strings.Contains(msg, "multiple ceremony"):
				e.counts["refuse.ceremony_limit"]++
			}
		}
	}
}

// nonces present in a pool for (sender, epoch)
func poolNonces(r *sim.Replica, sender common.Address, epoch uint16) map[uint32][]*types.Transaction {
	res := map[uint32][]*types.Transaction{}
	for _, tx := range r.Pool.GetPendingByAddress(sender) {
		if tx.Epoch == epoch {
			res[tx.AccountNonce] = append(res[tx.AccountNonce], tx)
		}
	}
	return res
}

// dense draws a SendTx of a well-funded sender with an explicit nonce relative to
// what `on` (a replica's pool and head) already holds.
func (e *seqEnv) dense(on *sim.Replica) (tx *types.Transaction, gap bool, kind string) {
	t := e.t
	s := on.ReadState()
	sender := e.rich[rapid.IntRange(0, len(e.rich)-1).Draw(t, "sender")]
	epoch := s.State.Epoch()
	kind = rapid.SampledFrom([]string{"next", "next", "next", "next", "gap", "gap", "gap", "conflict", "stale", "future-epoch", "past-epoch"}).Draw(t, "nonceKind")
	if kind == "future-epoch" {
		epoch++
	}
	if kind == "past-epoch" {
		if epoch == 0 {
			kind = "next"
		} else {
			epoch--
		}
	}
	base := uint32(0)
	if epoch == s.State.Epoch() {
		base = effNonce(s, sender.Addr)
	}
	present := poolNonces(on, sender.Addr, epoch)
	firstMissing := base + 1
	for len(present[firstMissing]) > 0 {
		firstMissing++
	}
	highest := base
	for n := range present {
		if n > highest {
			highest = n
		}
	}
	nonce := firstMissing
	switch kind {
	case "gap":
		nonce = highest + uint32(rapid.IntRange(2, 4).Draw(t, "gapSize"))
		gap = true
	case "conflict":
		if highest > base {
			nonce = base + 1 + uint32(rapid.IntRange(0, int(highest-base)-1).Draw(t, "conflictAt"))
			if len(present[nonce]) == 0 {
				kind = "next" // landed in a hole: this fills it
			}
		} else {
			kind = "next"
		}
	case "stale":
		if base > 0 {
			nonce = uint32(rapid.IntRange(1, int(base)).Draw(t, "staleNonce"))
		} else {
			kind = "next"
		}
	}
	if kind == "next" && nonce < highest {
		kind = "fill"
	}
	// payload: mostly none; heavy ones reach the block gas cap (3 KiB is the most before upgrade 11)
	payload := 0
	feeMul := int64(20)
	heavy := []int{3 * 1024, 3 * 1024, 3 * 1024}
	if on.Cfg.Consensus.EnableUpgrade11 {
		heavy = []int{3 * 1024, 100 * 1024, 180 * 1024}
	}
	switch rapid.IntRange(0, 9).Draw(t, "payloadClass") {
	case 7:
		payload = rapid.IntRange(1, 200).Draw(t, "payloadLen")
	case 8, 9:
		payload = heavy[rapid.IntRange(0, 2).Draw(t, "heavy")]
		feeMul = 12
	}
	e.salt++
	to := e.w.Actors[(sender.Idx+1)%len(e.w.Actors)].Addr
	return signSend(s, sender, to, epoch, nonce, payload, e.salt, feeMul), gap, kind
}

func (e *seqEnv) actDense(t *rapid.T) {
	e.t = t
	tx, gap, kind := e.dense(e.r)
	e.submit(tx, gap, "dense."+kind)
}

func (e *seqEnv) actResubmit(t *rapid.T) {
	e.t = t
	all := poolContent(e.r.Pool)
	if len(all) == 0 {
		e.actDense(t)
		return
	}
	tx := all[rapid.IntRange(0, len(all)-1).Draw(t, "dupIdx")]
	cp := new(types.Transaction)
	b, _ := tx.ToBytes()
	cp.FromBytes(b)
	e.submit(cp, false, "duplicate")
}

// burst: a batch in one AddExternalTxs call (errors of single members are swallowed by the pool)
func (e *seqEnv) actBurst(t *rapid.T) {
	e.t = t
	s := e.r.ReadState()
	sender := e.rich[rapid.IntRange(0, len(e.rich)-1).Draw(t, "sender")]
	n := rapid.IntRange(2, 40).Draw(t, "burst")
	heavy := rapid.IntRange(0, 2).Draw(t, "burstHeavy") > 0
	shuffled := rapid.Bool().Draw(t, "burstShuffled")
	epoch := s.State.Epoch()
	base := effNonce(s, sender.Addr)
	present := poolNonces(e.r, sender.Addr, epoch)
	next := base + 1
	for len(present[next]) > 0 {
		next++
	}
	to := e.w.Actors[(sender.Idx+1)%len(e.w.Actors)].Addr
	var txs []*types.Transaction
	for i := 0; i < n; i++ {
		e.salt++
		payload, mul := 0, int64(20)
		if heavy {
			payload, mul = 3*1024, 12
		}
		txs = append(txs, signSend(s, sender, to, epoch, next+uint32(i), payload, e.salt, mul))
	}
	order := make([]int, n)
	for i := range order {
		order[i] = i
	}
	if shuffled {
		order = rapid.Permutation(order).Draw(t, "burstOrder")
	}
	batch := make([]*types.Transaction, n)
	for i, j := range order {
		batch[i] = txs[j]
	}
	kind := validation.InboundTx
	if rapid.Bool().Draw(t, "burstAsMempool") {
		kind = validation.MempoolTx
	}
	err := e.r.Pool.AddExternalTxs(kind, batch...)
	admitted := 0
	seenLower := map[uint32]bool{}
	for _, tx := range batch {
		if e.r.Pool.GetTx(tx.Hash()) != nil {
			gap := tx.AccountNonce > next && !seenLower[tx.AccountNonce-1]
			e.live[tx.Hash()] = &entry{tx: tx, sender: sender.Addr, gap: gap, how: "burst"}
			admitted++
		}
		seenLower[tx.AccountNonce] = true
	}
	e.counts["submit.batch"]++
	e.counts["admit.burst"] += admitted
	e.counts["refuse.burst"] += n - admitted
	e.note("burst of %d from %s nonces %d.. heavy=%v shuffled=%v -> err=%v admitted=%d", n, sender, next, heavy, shuffled, err, admitted)
}

// heavyBurst: every well-funded sender submits a run of heavy transactions in nonce order, so that
// what is ready exceeds the block gas cap (before upgrade 11 a payload is at most 3 KiB: ~97 such
// transactions fill a block; after it a few 100-180 KiB payloads do).
func (e *seqEnv) actHeavyBurst(t *rapid.T) {
	e.t = t
	s := e.r.ReadState()
	epoch := s.State.Epoch()
	big := e.r.Cfg.Consensus.EnableUpgrade11
	total, admitted := 0, 0
	for _, sender := range e.rich {
		n := rapid.IntRange(0, 34).Draw(t, "heavyRun")
		if big {
			n = rapid.IntRange(0, 4).Draw(t, "heavyRunBig")
		}
		if n == 0 {
			continue
		}
		base := effNonce(s, sender.Addr)
		present := poolNonces(e.r, sender.Addr, epoch)
		next := base + 1
		for len(present[next]) > 0 {
			next++
		}
		to := e.w.Actors[(sender.Idx+1)%len(e.w.Actors)].Addr
		var batch []*types.Transaction
		for i := 0; i < n; i++ {
			e.salt++
			payload := 3 * 1024
			if big {
				payload = rapid.SampledFrom([]int{100 * 1024, 180 * 1024}).Draw(t, "bigPayload")
			}
			batch = append(batch, signSend(s, sender, to, epoch, next+uint32(i), payload, e.salt, 12))
		}
		e.r.Pool.AddExternalTxs(validation.InboundTx, batch...)
		for _, tx := range batch {
			total++
			if e.r.Pool.GetTx(tx.Hash()) != nil {
				e.live[tx.Hash()] = &entry{tx: tx, sender: sender.Addr, how: "heavy-burst"}
				admitted++
			}
		}
	}
	e.counts["submit.batch"]++
	e.counts["admit.heavy_burst"] += admitted
	e.counts["refuse.heavy_burst"] += total - admitted
	e.note("heavy burst: %d txs over %d senders, admitted=%d", total, len(e.rich), admitted)
}

func (e *seqEnv) actGen(t *rapid.T) {
	e.t = t
	s := e.r.ReadState()
	only := genTypes
	switch s.State.ValidationPeriod() {
	case state.FlipLotteryPeriod, state.ShortSessionPeriod:
		if rapid.IntRange(0, 4).Draw(t, "ceremonialOnly") != 4 {
			only = ceremonialTypes
		}
	case state.LongSessionPeriod, state.AfterLongSessionPeriod:
		if rapid.IntRange(0, 2).Draw(t, "ceremonialOnly") == 0 {
			only = append(append([]types.TxType{}, ceremonialTypes...), types.SendTx)
		}
	}
	tx, info := e.w.GenTx(t, e.r, only)
	e.submit(tx, info.Hostile == "nonce-gap", "gen")
}

// a transaction that only the other node's pool learns about (it will reach this node inside a block)
func (e *seqEnv) actForeignTx(t *rapid.T) {
	e.t = t
	if e.fr == nil {
		e.actDense(t)
		return
	}
	tx, _, kind := e.dense(e.fr)
	err := e.fr.Pool.AddExternalTxs(validation.InboundTx, tx)
	e.counts["foreign.tx"]++
	e.note("foreign pool gets %s (%s) -> %v", txDesc(e.w, tx), kind, err)
}

// foreignConflictHead: this pool holds a dense run of a sender's transactions [S:n, S:n+1, ...]; the other node mines
// ANOTHER transaction for the first nonce only (the same key used elsewhere). The head of the run is consumed by the
// block although it is not in it; the followers stay valid on the new head and have to stay retrievable.
func (e *seqEnv) actForeignConflictHead(t *rapid.T) {
	e.t = t
	if e.fr == nil {
		e.actDense(t)
		return
	}
	s := e.r.ReadState()
	epoch := s.State.Epoch()
	sender := e.rich[rapid.IntRange(0, len(e.rich)-1).Draw(t, "sender")]
	to := e.w.Actors[(sender.Idx+1)%len(e.w.Actors)].Addr
	base := effNonce(s, sender.Addr)
	here := poolNonces(e.r, sender.Addr, epoch)
	for n, last := base+1, base+uint32(rapid.IntRange(2, 4).Draw(t, "run")); n <= last; n++ {
		if len(here[n]) == 0 {
			e.salt++
			e.submit(signSend(s, sender, to, epoch, n, 0, e.salt, 20), false, "conflictHead.run")
		}
	}
	fs := e.fr.ReadState()
	there := poolNonces(e.fr, sender.Addr, epoch)
	if len(there[base+1]) == 0 {
		e.salt++
		if e.fr.Pool.AddExternalTxs(validation.InboundTx, signSend(fs, sender, to, epoch, base+1, 0, e.salt, 20)) != nil {
			return
		}
	}
	e.counts["foreign.conflict_head"]++
	e.note("foreign pool mines another transaction for nonce %d of %s (this pool holds its own run from %d on)", base+1, sender, base+1)
	e.block(t, e.fr, false)
}

// foreignOvertake: the other node mines, for one of this pool's senders, ANOTHER transaction for the nonce
// this pool holds as executable (same key used elsewhere / re-signed tx) together with the very
// transaction this pool holds as pending behind a nonce gap: pool here exec [S:n] pending [S:n+2],
// block from the other node [S:n', S:n+1', S:n+2]. The block's tx then leaves this pool out of its pending
// queue while the sender's executable queue is still populated.
func (e *seqEnv) actForeignOvertake(t *rapid.T) {
	e.t = t
	if e.fr == nil {
		e.actDense(t)
		return
	}
	s := e.r.ReadState()
	epoch := s.State.Epoch()
	sender := e.rich[rapid.IntRange(0, len(e.rich)-1).Draw(t, "sender")]
	to := e.w.Actors[(sender.Idx+1)%len(e.w.Actors)].Addr
	base := effNonce(s, sender.Addr)
	here := poolNonces(e.r, sender.Addr, epoch)
	// make sure this pool has the executable nonce and something behind a gap
	if len(here[base+1]) == 0 {
		e.salt++
		e.submit(signSend(s, sender, to, epoch, base+1, 0, e.salt, 20), false, "overtake.exec")
	}
	var behind *types.Transaction
	run := base + 1
	for len(here[run]) > 0 || run == base+1 {
		run++
	}
	for n := range here {
		if n > run && (behind == nil || n < behind.AccountNonce) {
			behind = here[n][0]
		}
	}
	if behind == nil {
		e.salt++
		gapTx := signSend(s, sender, to, epoch, run+uint32(rapid.IntRange(1, 2).Draw(t, "gap")), 0, e.salt, 20)
		e.submit(gapTx, true, "overtake.gap")
		if e.r.Pool.GetTx(gapTx.Hash()) == nil {
			return // refused (limits, period): no shape
		}
		behind = gapTx
	}
	// the other node: its own transactions for every nonce below, then the shared one
	fs := e.fr.ReadState()
	there := poolNonces(e.fr, sender.Addr, epoch)
	var feed []*types.Transaction
	for n := base + 1; n < behind.AccountNonce; n++ {
		if len(there[n]) == 0 {
			e.salt++
			feed = append(feed, signSend(fs, sender, to, epoch, n, 0, e.salt, 20))
		}
	}
	feed = append(feed, cloneTx(behind))
	accepted := 0
	for _, tx := range feed {
		if e.fr.Pool.AddExternalTxs(validation.InboundTx, tx) == nil {
			accepted++
		}
	}
	e.counts["foreign.overtake"]++
	e.note("foreign pool overtakes %s: %d own txs for nonces %d..%d plus the shared %s (accepted %d of %d)", sender, len(feed)-1, base+1, behind.AccountNonce-1, txDesc(e.w, behind), accepted, len(feed))
	if rapid.IntRange(0, 2).Draw(t, "mineNow") != 0 {
		e.block(t, e.fr, false)
	}
}

func (e *seqEnv) actStartSync(t *rapid.T) {
	if e.syncing || rapid.IntRange(0, 2).Draw(t, "reallySync") != 0 {
		return
	}
	e.r.Chain.StartSync()
	e.syncing = true
	e.counts["sync.start"]++
	e.note("StartSync")
}

func (e *seqEnv) actStopSync(t *rapid.T) {
	if !e.syncing {
		return
	}
	e.t = t
	// StopSync resets the pool to the head: the pool prunes by the head state over what it holds now
	before := poolContent(e.r.Pool)
	s := e.r.ReadState()
	e.release(released(s, before), nil)
	e.r.Chain.StopSync()
	e.syncing = false
	e.counts["sync.stop"]++
	e.note("StopSync")
}

func (e *seqEnv) release(rel map[common.Hash]string, blk *types.Block) {
	for h, why := range rel {
		if _, ok := e.live[h]; ok {
			delete(e.live, h)
			e.counts["release."+why]++
		}
	}
}

func (e *seqEnv) block(t *rapid.T, by *sim.Replica, empty bool) {
	e.t = t
	w := e.w
	inCeremony := e.r.ReadState().State.ValidationPeriod() != state.NonePeriod
	jumpOdds := 12
	if inCeremony {
		jumpOdds = 3
	}
	jump := rapid.IntRange(1, jumpOdds).Draw(t, "jumpToBoundary") == 1 && (e.timing != "far" || inCeremony)
	advanceClock(w, e.r, e.r.ReadState(), jump, rapid.IntRange(0, 5).Draw(t, "pastBoundary"), rapid.IntRange(10, 45).Draw(t, "dt"))
	var blk *types.Block
	who := "empty"
	if !empty && by.CanPropose() {
		blk = by.Propose().Block
		who = by.Name
	} else {
		if !empty {
			e.counts["block.nobody_eligible"]++
		}
		blk = e.r.EmptyBlock()
	}
	before := poolContent(e.r.Pool)
	preEpoch := e.r.ReadState().State.Epoch()
	if who != "empty" && by != e.r && len(blk.Body.Transactions) > 0 {
		// does the block carry a tx this pool holds behind (not in) the sender's ready run, while that run is non-empty?
		l := e.r.Pool.BuildBlockTransactions()
		ready := map[common.Address]bool{}
		for _, tx := range l {
			sender, _ := types.Sender(tx)
			ready[sender] = true
		}
		for _, tx := range blk.Body.Transactions {
			sender, _ := types.Sender(tx)
			if ready[sender] && e.r.Pool.GetTx(tx.Hash()) != nil && !inList(l, tx.Hash()) {
				e.counts["block.other_node.carries_tx_pending_here_behind_ready_ones"]++
				if e.syncing {
					e.counts["block.other_node.carries_tx_pending_here_behind_ready_ones.while_syncing"]++
				}
				break
			}
		}
	}
	for _, x := range e.w.Replicas {
		if err := x.AddBlock(blk); err != nil {
			t.Fatalf("harness: honest block %s by %s refused by %s: %v\n%s", sim.BlockDesc(blk), who, x.Name, err, e.ctx())
		}
	}
	w.NoteBlock(e.r, blk)
	e.blocks++
	s := e.r.ReadState()
	e.note("%s by %s txs=[%s] -> epoch=%d period=%s", sim.BlockDesc(blk), who, txsDesc(w, blk.Body.Transactions), s.State.Epoch(), sim.PeriodName(s.State.ValidationPeriod()))
	e.periods[sim.PeriodName(s.State.ValidationPeriod())] = true
	if s.State.Epoch() != preEpoch {
		e.epochs++
	}
	switch {
	case who == "empty":
		e.counts["block.empty"]++
	case by == e.r:
		e.counts["block.own"]++
	default:
		e.counts["block.other_node"]++
	}
	// clause: none of the block's transactions remain (the pool is told about the block unless the node syncs)
	for _, tx := range blk.Body.Transactions {
		h := tx.Hash()
		if e.included != nil {
			e.included[h] = blk.Height()
		}
		if _, ok := e.live[h]; ok {
			delete(e.live, h)
			e.counts["release.included"]++
		}
		if e.syncing {
			continue
		}
		sender, _ := types.Sender(tx)
		if e.r.Pool.GetTx(h) != nil {
			t.Fatalf("%s is in the applied block %d and still in the pool (GetTx)\n%s", txDesc(w, tx), blk.Height(), e.ctx())
		}
		if inList(e.r.Pool.GetPendingByAddress(sender), h) {
			t.Fatalf("%s is in the applied block %d and still in the pool (GetPendingByAddress)\n%s", txDesc(w, tx), blk.Height(), e.ctx())
		}
	}
	// which admitted transactions did this block make invalid (by the pool's own rule over what it held)?
	e.release(released(s, before), blk)
}

func (e *seqEnv) actBlock(t *rapid.T) { e.block(t, e.r, false) }

func (e *seqEnv) actEmptyBlock(t *rapid.T) { e.block(t, e.r, true) }

func (e *seqEnv) actForeignBlock(t *rapid.T) {
	if e.fr == nil {
		e.block(t, e.r, false)
		return
	}
	e.block(t, e.fr, false)
}

// invariant runs after every action.
func (e *seqEnv) invariant(t *rapid.T) {
	e.t = t
	evid.Eval()
	w, pool := e.w, e.r.Pool
	s := e.r.ReadState()
	l := pool.BuildBlockTransactions()
	gas := checkOffer(t, w, e.r, s, l, true, e.ctx)
	content := poolContent(pool)
	// promotion: a transaction admitted behind a gap is now offered
	for _, tx := range l {
		if en, ok := e.live[tx.Hash()]; ok && en.gap {
			en.gap = false
			e.promotions++
			e.counts["promotion"]++
		}
	}
	// is the gas cap what keeps a ready transaction out?
	if len(l) > 0 && len(content) > len(l) {
		next := map[common.Address]uint32{}
		for _, tx := range l {
			sender, _ := types.Sender(tx)
			next[sender] = tx.AccountNonce + 1
		}
		for _, tx := range content {
			sender, _ := types.Sender(tx)
			n, ok := next[sender]
			if !ok {
				n = effNonce(s, sender) + 1
			}
			if tx.Epoch == s.State.Epoch() && tx.AccountNonce == n && !inList(l, tx.Hash()) && gas+uint64(fee.CalculateGas(tx)) > gasCap(e.r) {
				e.capBinding++
				e.counts["offer.gas_cap_binding"]++
				break
			}
		}
	}
	if len(l) > 0 {
		e.counts["offer.nonempty"]++
		senders := map[common.Address]bool{}
		for _, tx := range l {
			sender, _ := types.Sender(tx)
			senders[sender] = true
			if validation.CeremonialTxs[tx.Type] {
				e.counts["offer.with_priority_tx"]++
				if tx.AccountNonce > effNonce(s, sender)+1 {
					e.counts["offer.priority_tx_behind_others"]++
				}
				break
			}
		}
		if len(senders) > 1 {
			e.counts["offer.several_senders"]++
		}
		if len(l) < len(content) {
			e.counts["offer.leaves_some_out"]++
		}
	}
	// clause: an admitted transaction stays retrievable until included or made invalid
	byAddr := map[common.Address][]*types.Transaction{}
	hashes := make([]common.Hash, 0, len(e.live))
	for h := range e.live {
		hashes = append(hashes, h)
	}
	sort.Slice(hashes, func(i, j int) bool { return string(hashes[i][:]) < string(hashes[j][:]) })
	for _, h := range hashes {
		en := e.live[h]
		if pool.GetTx(h) == nil {
			t.Fatalf("admitted %s (%s) is neither included nor invalid, but GetTx no longer finds it\n%s", txDesc(w, en.tx), en.how, e.ctx())
		}
		lst, ok := byAddr[en.sender]
		if !ok {
			lst = pool.GetPendingByAddress(en.sender)
			byAddr[en.sender] = lst
		}
		if !inList(lst, h) {
			t.Fatalf("admitted %s (%s) is neither included nor invalid, but GetPendingByAddress no longer lists it\n%s", txDesc(w, en.tx), en.how, e.ctx())
		}
	}
	// clause: outside the validation sessions nothing consumed / of a past epoch remains
	// (while the node syncs the pool is not told about blocks; it catches up in StopSync)
	if !e.syncing && prunesOn(e.r, s) {
		if stale := staleInPool(s, content); len(stale) > 0 {
			t.Fatalf("period %s (pool prunes here): pool still holds transactions with a consumed nonce or a past epoch: %s\n%s", sim.PeriodName(s.State.ValidationPeriod()), txsDesc(w, stale), e.ctx())
		}
		// the same through the per-sender view (RPC, consensus engine): "remains" means in any view of the pool
		for _, a := range w.Actors {
			lst := pool.GetPendingByAddress(a.Addr)
			if stale := staleInPool(s, lst); len(stale) > 0 {
				t.Fatalf("period %s (pool prunes here): GetPendingByAddress(%s) still lists transactions with a consumed nonce or a past epoch: %s (GetTx finds the first: %v)\n%s", sim.PeriodName(s.State.ValidationPeriod()), a, txsDesc(w, stale), pool.GetTx(stale[0].Hash()) != nil, e.ctx())
			}
			for _, tx := range lst {
				if pool.GetTx(tx.Hash()) == nil {
					e.counts["views_disagree.listed_for_sender_but_unknown_by_hash"]++ // measured only
				}
			}
		}
		e.counts["stale_clause.checked"]++
	} else {
		e.counts["stale_clause.skipped"]++
	}
}

func TestSequentialModel(t *testing.T) {
	rapid.Check(t, func(t *rapid.T) {
		p := sim.GenParams(t, 5, 8)
		timing := rapid.SampledFrom([]string{"far", "far", "near", "near", "soon"}).Draw(t, "ceremonyTiming")
		switch timing {
		case "far":
			p.CeremonyIn = 100000
		case "near":
			p.CeremonyIn = 300
		case "soon":
			p.CeremonyIn = 90
		}
		// four well-funded senders for the dense nonce sequences
		nRich := 4
		for i := 0; i < nRich; i++ {
			p.Balances[i] = sim.Dna(2000000)
		}
		w := sim.NewWorld(p)
		r, err := w.AddReplica("A", w.God.Key, nil)
		if err != nil {
			t.Fatalf("replica: %v", err)
		}
		e := &seqEnv{t: t, w: w, r: r, timing: timing, live: map[common.Hash]*entry{}, counts: map[string]int{}, periods: map[string]bool{}}
		for i := 0; i < nRich; i++ {
			e.rich = append(e.rich, w.Actors[i])
		}
		if rapid.Bool().Draw(t, "withForeignProposer") {
			fr, err := w.AddReplica("B", w.God.Key, nil)
			if err != nil {
				t.Fatalf("replica B: %v", err)
			}
			e.fr = fr
		}
		// pool limits (the pool reads them through the same struct)
		m := r.Cfg.Mempool
		limits := rapid.SampledFrom([]string{"default", "default", "tight-addr", "tight-slots", "tiny"}).Draw(t, "limits")
		switch limits {
		case "tight-addr":
			m.TxPoolAddrExecutableLimit = rapid.IntRange(1, 4).Draw(t, "addrExec")
			m.TxPoolAddrQueueLimit = rapid.IntRange(1, 4).Draw(t, "addrQueue")
		case "tight-slots":
			m.TxPoolQueueSlots = rapid.IntRange(1, 2).Draw(t, "queueSlots")
			m.TxPoolExecutableSlots = rapid.IntRange(1, 3).Draw(t, "execSlots")
		case "tiny":
			m.TxPoolAddrExecutableLimit = rapid.IntRange(1, 3).Draw(t, "addrExec")
			m.TxPoolAddrQueueLimit = rapid.IntRange(1, 2).Draw(t, "addrQueue")
			m.TxPoolQueueSlots = rapid.IntRange(1, 2).Draw(t, "queueSlots")
			m.TxPoolExecutableSlots = rapid.IntRange(1, 2).Draw(t, "execSlots")
		}
		m.ResetInCeremony = rapid.IntRange(0, 5).Draw(t, "resetInCeremony") == 5
		e.note("world: %s timing=%s limits=%s %+v foreign=%v", p.String(), timing, limits, *m, e.fr != nil)

		t.Repeat(map[string]func(*rapid.T){
			"":             e.invariant,
			"dense":        e.actDense,
			"dense2":       e.actDense,
			"dense3":       e.actDense,
			"gen":          e.actGen,
			"gen2":         e.actGen,
			"burst":        e.actBurst,
			"heavyBurst":   e.actHeavyBurst,
			"resubmit":     e.actResubmit,
			"block":        e.actBlock,
			"block2":       e.actBlock,
			"emptyBlock":   e.actEmptyBlock,
			"foreignTx":    e.actForeignTx,
			"overtake":     e.actForeignOvertake,
			"conflictHead": e.actForeignConflictHead,
			"foreignBlock": e.actForeignBlock,
			"startSync":    e.actStartSync,
			"stopSync":     e.actStopSync,
		})

		// evidence
		evid.Count("case.timing." + timing)
		evid.Count("case.limits." + limits)
		evid.Count("case.profile." + p.Profile)
		if e.fr != nil {
			evid.Count("case.with_foreign_proposer")
		}
		if m.ResetInCeremony {
			evid.Count("case.reset_in_ceremony")
		}
		for k, v := range e.counts {
			evid.CountN(k, v)
		}
		for k := range e.periods {
			evid.Count("case.reached_period." + k)
		}
		if e.epochs > 0 {
			evid.Count("case.with_epoch_change")
		}
		if e.capBinding > 0 {
			evid.Count("case.gas_cap_binding")
		}
		if e.promotions > 0 {
			evid.Count("case.with_promotion")
		}
		if e.promotions > 0 && e.blocks > 0 {
			evid.Count("case.nontrivial")
			keys := make([]string, 0, len(e.counts))
			for k, v := range e.counts {
				if strings.HasPrefix(k, "admit.") || strings.HasPrefix(k, "release.") || strings.HasPrefix(k, "block.") || strings.HasPrefix(k, "sync.") {
					keys = append(keys, fmt.Sprintf("%s=%d", k, v))
				}
			}
			sort.Strings(keys)
			d := fmt.Sprintf("%s|%s|%s|promotions=%d|epochs=%d|%s", p.Profile, timing, limits, e.promotions, e.epochs, strings.Join(keys, ","))
			evid.NonTrivial(d)
			evid.Sample("sequence", d)
		}
	})
}

package c14

import (
	"fmt"
	"testing"
	"time"

	"github.com/idena-network/idena-go/blockchain/fee"
	"github.com/idena-network/idena-go/blockchain/types"
	"github.com/idena-network/idena-go/blockchain/validation"
	"github.com/idena-network/idena-go/common"
	"pgregory.net/rapid"

	"verifharness/internal/evid"
	"verifharness/internal/sim"
)

// Restart of a node that runs the pool with the on-disk tx keeper (as node.go does).
//
// What the statement supports across a restart: the clauses about the pool's content hold for
// the rebuilt pool as well (a transaction of an applied block, with a consumed nonce or of a past
// epoch must not come back from the keeper's file; the offered list stays coherent), and whatever
// the rebuilt pool admitted is retrievable from then on. What it does NOT say is that every
// transaction admitted before the restart survives it: the keeper persists at most every 20 s
// after a 100 ms poll and drops commands when its channel is full, i.e. persistence is best
// effort by design. So "kept and still valid => offered again" is measured (classes restart.*),
// not asserted.

const keeperPoll = 130 * time.Millisecond // the keeper polls every 100 ms

func (e *seqEnv) actRestart(t *rapid.T) {
	e.t = t
	if e.restarts >= 2 {
		return
	}
	if d := keeperPoll - time.Since(e.startedAt); d > 0 {
		time.Sleep(d) // let the persist loop of the running instance fire once
	}
	var kept []*types.Transaction
	ok := false
	for i := 0; i < 100 && !ok; i++ {
		if kept, ok = keptOnDisk(e.dataDir); !ok {
			time.Sleep(2 * time.Millisecond)
		}
	}
	oldLive := e.live
	limits := *e.r.Cfg.Mempool
	if err := startKeeperNode(e.r, e.dataDir, &limits); err != nil {
		t.Fatalf("restart: %v\n%s", err, e.ctx())
	}
	e.restarts++
	e.startedAt = time.Now()
	pool := e.r.Pool
	s := e.r.ReadState()
	content := poolContent(pool)
	// The instance that was just abandoned keeps running inside this process (a real restart kills it) and
	// may persist between the read above and the new instance's Load; read once more and take both
	// snapshots as "what was on disk" (the new instance itself persists 100 ms from now at the earliest).
	keptSet := map[common.Hash]bool{}
	for _, tx := range kept {
		keptSet[tx.Hash()] = true
	}
	if after, ok2 := keptOnDisk(e.dataDir); ok2 {
		for _, tx := range after {
			if !keptSet[tx.Hash()] {
				keptSet[tx.Hash()] = true
				kept = append(kept, tx)
			}
		}
		ok = true
	}
	e.note("restart #%d: on disk %d txs (file present=%v), rebuilt pool holds %d", e.restarts, len(kept), ok, len(content))
	e.counts["restart"]++
	if !ok {
		e.counts["restart.nothing_persisted"]++
	}
	for _, tx := range content {
		if !keptSet[tx.Hash()] {
			// only possible when the abandoned instance wrote the file between the two reads and Load: timing of the harness, not counted against the pool
			e.counts["restart.pool_tx_missed_by_file_snapshots"]++
		}
		// clause: none of an applied block's transactions remain
		if h, inc := e.included[tx.Hash()]; inc {
			t.Fatalf("after the restart the pool holds %s again, which was included at height %d\n%s", txDesc(e.w, tx), h, e.ctx())
		}
	}
	// measured: kept and still valid => offered again?
	minFeePerGas := fee.GetFeePerGasForNetwork(s.ValidatorsCache.NetworkSize())
	for _, tx := range kept {
		_, inc := e.included[tx.Hash()]
		valid := !inc && validation.ValidateTx(s, tx, minFeePerGas, validation.MempoolTx) == nil
		has := pool.GetTx(tx.Hash()) != nil
		switch {
		case valid && has:
			e.counts["restart.kept_valid_readmitted"]++
		case valid && !has:
			e.counts["restart.kept_valid_not_readmitted"]++
			if limits.TxPoolAddrQueueLimit >= 32 && limits.TxPoolQueueSlots >= 256 {
				e.counts["restart.kept_valid_not_readmitted.default_limits"]++
				sender, _ := types.Sender(tx)
				same := 0
				for _, x := range kept {
					if xs, _ := types.Sender(x); xs == sender && x.Epoch == tx.Epoch {
						same++
					}
				}
				evid.Sample("restart-loss", fmt.Sprintf("default limits: kept and valid %s not re-admitted; the file holds %d txs of this sender and epoch (per-address queue limit %d), %d in all; rebuilt pool holds %d", txDesc(e.w, tx), same, limits.TxPoolAddrQueueLimit, len(kept), len(content)))
			}
		case inc:
			e.counts["restart.kept_included_refused"]++
		default:
			e.counts["restart.kept_invalid_refused"]++
		}
	}
	for h := range oldLive {
		switch {
		case pool.GetTx(h) != nil:
			e.counts["restart.live_survived"]++
		case !keptSet[h]:
			e.counts["restart.live_lost_not_persisted"]++
		default:
			e.counts["restart.live_lost_though_persisted"]++
		}
	}
	// from here on the rebuilt pool answers for what it admitted
	e.live = map[common.Hash]*entry{}
	for _, tx := range content {
		sender, _ := types.Sender(tx)
		e.live[tx.Hash()] = &entry{tx: tx, sender: sender, how: "reloaded"}
	}
}

func TestKeeperRestart(t *testing.T) {
	rapid.Check(t, func(t *rapid.T) {
		p := sim.GenParams(t, 5, 8)
		timing := rapid.SampledFrom([]string{"far", "far", "near"}).Draw(t, "ceremonyTiming")
		if timing == "far" {
			p.CeremonyIn = 100000
		} else {
			p.CeremonyIn = 200
		}
		nRich := 4
		for i := 0; i < nRich; i++ {
			p.Balances[i] = sim.Dna(2000000)
		}
		w := sim.NewWorld(p)
		dir := freshDataDir()
		r, err := newKeeperNode(w, "A", w.God.Key, dir)
		if err != nil {
			t.Fatalf("node: %v", err)
		}
		e := &seqEnv{t: t, w: w, r: r, timing: timing, live: map[common.Hash]*entry{}, counts: map[string]int{}, periods: map[string]bool{},
			dataDir: dir, startedAt: time.Now(), included: map[common.Hash]uint64{}}
		for i := 0; i < nRich; i++ {
			e.rich = append(e.rich, w.Actors[i])
		}
		m := r.Cfg.Mempool
		limits := rapid.SampledFrom([]string{"default", "default", "tight-addr"}).Draw(t, "limits")
		if limits == "tight-addr" {
			m.TxPoolAddrExecutableLimit = rapid.IntRange(1, 4).Draw(t, "addrExec")
			m.TxPoolAddrQueueLimit = rapid.IntRange(1, 4).Draw(t, "addrQueue")
		}
		e.note("world: %s timing=%s limits=%s %+v keeper dir=%s", p.String(), timing, limits, *m, dir)
		t.Repeat(map[string]func(*rapid.T){
			"":           e.invariant,
			"dense":      e.actDense,
			"dense2":     e.actDense,
			"dense3":     e.actDense,
			"gen":        e.actGen,
			"burst":      e.actBurst,
			"block":      e.actBlock,
			"emptyBlock": e.actEmptyBlock,
			"restart":    e.actRestart,
		})
		evid.Count("restart_case.timing." + timing)
		evid.Count("restart_case.limits." + limits)
		for k, v := range e.counts {
			if len(k) >= 7 && k[:7] == "restart" {
				evid.CountN(k, v)
			}
		}
		if e.counts["restart.kept_valid_readmitted"] > 0 && e.blocks > 0 {
			evid.Count("restart_case.nontrivial")
			evid.NonTrivial(fmt.Sprintf("restart|%s|%s|%s|restarts=%d|readmitted=%d|refused_included=%d|refused_invalid=%d|lost_unpersisted=%d|blocks=%d", p.Profile, timing, limits, e.restarts,
				e.counts["restart.kept_valid_readmitted"], e.counts["restart.kept_included_refused"], e.counts["restart.kept_invalid_refused"], e.counts["restart.live_lost_not_persisted"], e.blocks))
		}
	})
}

package c14

import (
	"fmt"
	"math/big"
	"sort"
	"strings"
	"testing"
	"time"

	"github.com/idena-network/idena-go/blockchain/fee"
	"github.com/idena-network/idena-go/blockchain/types"
	"github.com/idena-network/idena-go/blockchain/validation"
	"github.com/idena-network/idena-go/common"
	"github.com/idena-network/idena-go/core/appstate"
	"github.com/idena-network/idena-go/core/mempool"
	"github.com/idena-network/idena-go/core/state"
	"github.com/idena-network/idena-go/core/validators"
	"github.com/pkg/errors"

	"verifharness/internal/sim"
)

func TestMain(m *testing.M) { mainWithRaceLog(m) }

// fataler is what the oracles need from rapid.T / testing.T.
type fataler interface {
	Fatalf(format string, args ...interface{})
	Helper()
}

// txDesc renders one transaction for messages.
func txDesc(w *sim.World, tx *types.Transaction) string {
	from, _ := types.Sender(tx)
	return fmt.Sprintf("%s(%s,e%d,n%d,%x)", sim.TxTypeNames[tx.Type], w.Name(from), tx.Epoch, tx.AccountNonce, tx.Hash().Bytes()[:3])
}

func txsDesc(w *sim.World, txs []*types.Transaction) string {
	var sb strings.Builder
	for i, tx := range txs {
		if i > 0 {
			sb.WriteString(" ")
		}
		sb.WriteString(txDesc(w, tx))
	}
	return sb.String()
}

// effNonce is the nonce the next transaction of addr continues from on state s
// (validation.ValidateTx / applyTxOnState: an account that was last used in an
// earlier epoch starts again at 1).
func effNonce(s *appstate.AppState, addr common.Address) uint32 {
	if s.State.GetEpoch(addr) < s.State.Epoch() {
		return 0
	}
	return s.State.GetNonce(addr)
}

// gasCap is the block gas cap the pool's builder has to respect. The builder
// (txblock_builder.go) stops strictly at the cap with the intrinsic gas
// fee.CalculateGas; the one-transaction overshoot that processTxs/filterTxs
// tolerate after upgrade 10 concerns gas burnt by contract execution, which the
// pool does not know, so nothing of it is granted to the pool's list here.
func gasCap(r *sim.Replica) uint64 { return types.MaxBlockSize(r.Cfg.Consensus.EnableUpgrade11) }

// checkOffer evaluates the clauses about the list offered to a proposer against
// state s. strictStart=false (concurrent observers) only demands that the list
// is internally coherent, because the committed state moves while it is built.
func checkOffer(t fataler, w *sim.World, r *sim.Replica, s *appstate.AppState, l []*types.Transaction, strictStart bool, ctx func() string) (gas uint64) {
	t.Helper()
	seen := map[common.Hash]bool{}
	next := map[common.Address]uint32{}
	var epoch uint16
	if strictStart {
		epoch = s.State.Epoch()
	}
	for i, tx := range l {
		h := tx.Hash()
		if seen[h] {
			t.Fatalf("offered list holds %s twice (position %d)\nlist: %s\n%s", txDesc(w, tx), i, txsDesc(w, l), ctx())
		}
		seen[h] = true
		sender, _ := types.Sender(tx)
		if strictStart && tx.Epoch != epoch {
			t.Fatalf("offered list holds %s signed for epoch %d while the committed epoch is %d\nlist: %s\n%s", txDesc(w, tx), tx.Epoch, epoch, txsDesc(w, l), ctx())
		}
		want, ok := next[sender]
		if !ok {
			if strictStart {
				want = effNonce(s, sender) + 1
			} else {
				want = tx.AccountNonce
			}
		}
		if tx.AccountNonce != want {
			committed := "not read: the state moves during the run"
			if strictStart {
				committed = fmt.Sprintf("committed nonce %d, account epoch %d, epoch %d", s.State.GetNonce(sender), s.State.GetEpoch(sender), epoch)
			}
			t.Fatalf("offered list: %s has nonce %d where %d continues the sender's sequence (%s)\nlist: %s\n%s",
				txDesc(w, tx), tx.AccountNonce, want, committed, txsDesc(w, l), ctx())
		}
		next[sender] = want + 1
		gas += uint64(fee.CalculateGas(tx))
	}
	if !strictStart {
		// all of one epoch
		for _, tx := range l {
			if tx.Epoch != l[0].Epoch {
				t.Fatalf("offered list mixes epochs %d and %d\nlist: %s\n%s", l[0].Epoch, tx.Epoch, txsDesc(w, l), ctx())
			}
		}
	}
	if max := gasCap(r); gas > max {
		t.Fatalf("offered list needs %d gas, the block cap is %d\nlist: %s\n%s", gas, max, txsDesc(w, l), ctx())
	}
	return gas
}

// poolContent is everything the pool holds (hash index), sorted by hash so that
// nothing downstream depends on map order.
func poolContent(p *mempool.TxPool) []*types.Transaction {
	all := p.GetPendingTransaction(true, true, common.MultiShard, false)
	sort.Slice(all, func(i, j int) bool {
		a, b := all[i].Hash(), all[j].Hash()
		return string(a[:]) < string(b[:])
	})
	return all
}

func inList(l []*types.Transaction, h common.Hash) bool {
	for _, tx := range l {
		if tx.Hash() == h {
			return true
		}
	}
	return false
}

// prunesOn says whether the pool prunes on this state (TxPool.ResetTo: in
// the short, long and after-long session periods it only drops the block's own
// transactions unless Mempool.ResetInCeremony is set).
func prunesOn(r *sim.Replica, s *appstate.AppState) bool {
	return r.Cfg.Mempool.ResetInCeremony || s.State.ValidationPeriod() <= state.FlipLotteryPeriod
}

// released decides, by the pool's own rule (TxPool.ResetTo), which of the
// transactions in content stop being valid on state s: signed for a past epoch,
// failing validation.ValidateTx(MempoolTx), or following (same sender, same
// epoch, nonce >=) a transaction that fails for a reason other than its nonce.
// Returns hash -> reason.
func released(s *appstate.AppState, content []*types.Transaction) map[common.Hash]string {
	res := map[common.Hash]string{}
	epoch := s.State.Epoch()
	minFeePerGas := fee.GetFeePerGasForNetwork(s.ValidatorsCache.NetworkSize())
	type bad struct {
		nonce uint32
		set   bool
	}
	minErr := map[common.Address]bad{}
	for _, tx := range content {
		if tx.Epoch != epoch {
			continue
		}
		if err := validation.ValidateTx(s, tx, minFeePerGas, validation.MempoolTx); err != nil {
			sender, _ := types.Sender(tx)
			// a consumed nonce invalidates this transaction alone, its followers stay valid. Decided from the ledger, not
			// from the identity of the error value the validator returns (the pool must get this right by itself).
			if errors.Cause(err) == validation.InvalidNonce || s.State.GetEpoch(sender) == epoch && s.State.GetNonce(sender) >= tx.AccountNonce {
				res[tx.Hash()] = "nonce"
				continue
			}
			if b := minErr[sender]; !b.set || tx.AccountNonce < b.nonce {
				minErr[sender] = bad{tx.AccountNonce, true}
			}
			res[tx.Hash()] = "invalid"
		}
	}
	for _, tx := range content {
		if tx.Epoch < epoch {
			res[tx.Hash()] = "epoch"
			continue
		}
		if tx.Epoch > epoch {
			continue
		}
		sender, _ := types.Sender(tx)
		if b := minErr[sender]; b.set && tx.AccountNonce >= b.nonce {
			if _, ok := res[tx.Hash()]; !ok {
				res[tx.Hash()] = "cascade"
			}
		}
	}
	return res
}

// staleInPool lists transactions whose nonce is consumed or whose epoch is past on state s.
func staleInPool(s *appstate.AppState, content []*types.Transaction) []*types.Transaction {
	var res []*types.Transaction
	epoch := s.State.Epoch()
	for _, tx := range content {
		if tx.Epoch < epoch {
			res = append(res, tx)
			continue
		}
		sender, _ := types.Sender(tx)
		if tx.Epoch == epoch && s.State.GetEpoch(sender) == epoch && tx.AccountNonce <= s.State.GetNonce(sender) {
			res = append(res, tx)
		}
	}
	return res
}

// signSend builds a signed SendTx with an explicit nonce. salt makes the hash unique.
func signSend(s *appstate.AppState, from *sim.Actor, to common.Address, epoch uint16, nonce uint32, payload int, salt int64, feeMul int64) *types.Transaction {
	tx := &types.Transaction{Type: types.SendTx, Epoch: epoch, AccountNonce: nonce, To: &to, Amount: big.NewInt(salt)}
	if payload > 0 {
		tx.Payload = make([]byte, payload)
		tx.Payload[0] = byte(salt)
		tx.Payload[payload-1] = byte(salt >> 8)
	}
	netSize := s.ValidatorsCache.NetworkSize()
	tx.MaxFee = big.NewInt(0)
	for i := 0; i < 2; i++ {
		cur := fee.CalculateFee(netSize, s.State.FeePerGas(), tx)
		min := fee.CalculateFee(netSize, fee.GetFeePerGasForNetwork(netSize), tx)
		if min.Cmp(cur) > 0 {
			cur = min
		}
		// feeMul tenths: 20 = twice the current fee; heavy transactions get little head-room because
		// validation refuses a MaxFee that buys more gas than a block holds
		tx.MaxFee = new(big.Int).Div(new(big.Int).Mul(cur, big.NewInt(feeMul)), big.NewInt(10))
	}
	signed, err := types.SignTx(tx, from.Key)
	if err != nil {
		panic(err)
	}
	return signed
}

// advanceClock moves the virtual clock to a legal time for the next block; inside a
// ceremony it often jumps to the next period boundary (as sim.History.Step does).
func advanceClock(w *sim.World, base *sim.Replica, s *appstate.AppState, jump bool, pastBoundary, dt int) {
	jumped := false
	if jump {
		if b := w.NextBoundary(s); !b.IsZero() && b.After(w.Now()) && b.Sub(w.Now()) < 400*24*time.Hour {
			w.SetNow(b.Add(time.Duration(pastBoundary) * time.Second))
			jumped = true
		}
	}
	if !jumped {
		w.Advance(time.Duration(dt) * time.Second)
	}
	if min := time.Unix(base.Head().Time(), 0).Add(10 * time.Second); w.Now().Before(min) {
		w.SetNow(min)
	}
}

// privateView builds a read-only view of the head that is not shared with anybody.
// AppState.Readonly hands every caller the same cached object per height, and the pool validates
// on it from all submitting goroutines; the concurrent test's own oracle reads must not take
// part in that, so they get a view of their own (same construction as AppState.Readonly).
func privateView(r *sim.Replica) *appstate.AppState {
	h := r.Chain.Head.Height()
	st, err := r.AppState.State.Readonly(int64(h))
	if err != nil {
		panic(fmt.Sprintf("state readonly(%d): %v", h, err))
	}
	ist, err := r.AppState.IdentityState.Readonly(h)
	if err != nil {
		panic(fmt.Sprintf("identity state readonly(%d): %v", h, err))
	}
	vc := validators.NewValidatorsCache(ist, st.GodAddress())
	vc.Load()
	return &appstate.AppState{State: st, IdentityState: ist, ValidatorsCache: vc, NonceCache: r.AppState.NonceCache}
}

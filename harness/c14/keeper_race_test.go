package c14

import (
	"math/big"
	"sync"
	"testing"
	"time"

	"github.com/idena-network/idena-go/blockchain/types"
	"github.com/idena-network/idena-go/common"
	"github.com/idena-network/idena-go/core/mempool"
	"github.com/idena-network/idena-go/crypto"

	"verifharness/internal/evid"
)

// The tx keeper alone, driven exactly the way TxPool drives it (Initialize: NewTxKeeper, Load,
// List, Clear; AddExternalTxs/AddInternalTx: AddTx; ResetTo: RemoveTxs; StopSync: List), from a
// few goroutines, long enough for its 100 ms poll and one persist. TestConcurrent runs the same
// code inside a whole node, but there the detector's verdict on the keeper's own goroutines
// depends on luck (the conflicting accesses are 100 ms apart among hundreds of goroutines); a
// dozen small rounds make it dependable. Race build only; oracle = no race report, no panic.
func TestKeeperRace(t *testing.T) {
	key, _ := crypto.GenerateKey()
	to := common.Address{1}
	mk := func(n int) *types.Transaction {
		tx, err := types.SignTx(&types.Transaction{Type: types.SendTx, AccountNonce: uint32(n), To: &to, Amount: big.NewInt(1), MaxFee: big.NewInt(1)}, key)
		if err != nil {
			t.Fatal(err)
		}
		return tx
	}
	persisted := 0
	for round := 0; round < 12; round++ {
		evid.Eval()
		dir := freshDataDir()
		k := mempool.NewTxKeeper(dir)
		k.Load()
		_ = k.List()
		k.Clear()
		var wg sync.WaitGroup
		for g := 0; g < 3; g++ {
			wg.Add(1)
			go func(g int) { // submitters
				defer wg.Done()
				for i := 0; i < 20; i++ {
					k.AddTx(mk(g*100 + i + 1))
					if i%5 == 4 {
						time.Sleep(10 * time.Millisecond)
					}
				}
			}(g)
		}
		wg.Add(1)
		go func() { // block notifications and a sync stop
			defer wg.Done()
			for i := 0; i < 8; i++ {
				time.Sleep(20 * time.Millisecond)
				k.RemoveTxs([]common.Hash{mk(i + 1).Hash(), mk(100 + i + 1).Hash()})
				if i == 5 {
					_ = k.List()
				}
			}
		}()
		wg.Wait()
		time.Sleep(30 * time.Millisecond)
		if _, ok := keptOnDisk(dir); ok {
			persisted++
		}
		reportRaces(t)
	}
	evid.CountN("keeper_race.rounds", 12)
	evid.CountN("keeper_race.rounds_with_persist", persisted)
	if persisted == 0 {
		t.Skip("the keeper never persisted within a round: nothing was exercised")
	}
}

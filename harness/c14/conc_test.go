package c14

import (
	"fmt"
	"os"
	"regexp"
	"runtime"
	"sort"
	"strings"
	"sync"
	"sync/atomic"
	"testing"
	"time"

	"github.com/idena-network/idena-go/blockchain/types"
	"github.com/idena-network/idena-go/blockchain/validation"
	"github.com/idena-network/idena-go/common"
	"github.com/idena-network/idena-go/core/appstate"
	"github.com/idena-network/idena-go/core/mempool"
	"github.com/idena-network/idena-go/core/state"
	"github.com/idena-network/idena-go/stats/collector"
	"pgregory.net/rapid"

	"verifharness/internal/evid"
	"verifharness/internal/sim"
)

// one operation of a submitter / reader goroutine, fully drawn before the run
type op struct {
	kind   string // inbound mempool internal batch asyncInbound asyncBatch getTx byAddr pendingAll priority validate
	txs    []*types.Transaction
	addr   common.Address
	yields int
	pause  time.Duration // real sleep before the operation (stretched runs, so that the keeper's 100 ms poll falls inside)
}

type chainOp struct {
	kind   string // block empty startSync stopSync
	dt     int
	jump   bool
	yields int
}

// result of one submission, recorded by the submitting goroutine
type submitted struct {
	tx       *types.Transaction
	err      error
	definite bool // the whole call ran while the node was not syncing: nil error = admitted
	g        int
}

func cloneTx(tx *types.Transaction) *types.Transaction {
	b, _ := tx.ToBytes()
	cp := new(types.Transaction)
	cp.FromBytes(b)
	return cp
}

const concTimeout = 180 * time.Second

var reGoroutineHdr = regexp.MustCompile(`(?m)^goroutine \d+ \[([^\]]+)\]:$`)

// lockWaitersInRepo counts goroutines of a dump that have been waiting for minutes for a mutex with a
// frame of the pool / state packages on the stack.
func lockWaitersInRepo(dump string) (n int, stacks []string) {
	for _, g := range strings.Split(dump, "\n\n") {
		m := reGoroutineHdr.FindStringSubmatch(g)
		if m == nil {
			continue
		}
		st := m[1]
		if !strings.Contains(st, "minutes") {
			continue
		}
		if !(strings.HasPrefix(st, "sync.Mutex.Lock") || strings.HasPrefix(st, "sync.RWMutex") || strings.HasPrefix(st, "semacquire")) {
			continue
		}
		if strings.Contains(g, repoPkgPrefix+"core/mempool.") || strings.Contains(g, repoPkgPrefix+"core/state.") {
			n++
			stacks = append(stacks, g)
		}
	}
	return
}

func TestConcurrent(t *testing.T) {
	rapid.Check(t, func(t *rapid.T) {
		completed := false
		defer func() {
			if !completed {
				atomic.AddInt64(&casesAborted, 1)
			}
		}()
		evid.Eval()
		p := sim.GenParams(t, 4, 7)
		timing := rapid.SampledFrom([]string{"far", "far", "far", "near"}).Draw(t, "ceremonyTiming")
		if timing == "far" {
			p.CeremonyIn = 100000
		} else {
			p.CeremonyIn = 120
		}
		nSenders := rapid.IntRange(2, 4).Draw(t, "senders")
		for i := 0; i < nSenders; i++ {
			p.Balances[i] = sim.Dna(2000000)
		}
		w := sim.NewWorld(p)
		// the node runs the pool with the on-disk tx keeper and hands gossip submissions to an AsyncTxPool
		keeper := rapid.IntRange(0, 3).Draw(t, "txKeeper") != 0
		stretch := keeper && rapid.Bool().Draw(t, "stretch")
		asyncShare := rapid.SampledFrom([]int{0, 3, 3, 6}).Draw(t, "asyncShare") // tenths of inbound submissions
		var r *sim.Replica
		var err error
		dataDir := ""
		if keeper {
			dataDir = freshDataDir()
			r, err = newKeeperNode(w, "A", w.God.Key, dataDir)
		} else {
			r, err = w.AddReplica("A", w.God.Key, nil)
		}
		if err != nil {
			t.Fatalf("replica: %v", err)
		}
		pool := r.Pool
		async := mempool.NewAsyncTxPool(pool)
		m := r.Cfg.Mempool
		limits := rapid.SampledFrom([]string{"default", "default", "tight"}).Draw(t, "limits")
		if limits == "tight" {
			m.TxPoolAddrExecutableLimit = rapid.IntRange(2, 6).Draw(t, "addrExec")
			m.TxPoolAddrQueueLimit = rapid.IntRange(2, 6).Draw(t, "addrQueue")
			m.TxPoolQueueSlots = rapid.IntRange(1, 3).Draw(t, "queueSlots")
		}

		// universe of transactions: per sender a dense nonce sequence plus conflicting alternatives
		s0 := r.ReadState()
		epoch := s0.State.Epoch()
		perSender := rapid.IntRange(4, 24).Draw(t, "noncesPerSender")
		type slot struct{ primary, alt *types.Transaction }
		universe := make([][]slot, nSenders)
		var all []*types.Transaction
		salt := int64(0)
		for si := 0; si < nSenders; si++ {
			from := w.Actors[si]
			to := w.Actors[(si+1)%len(w.Actors)].Addr
			for n := 1; n <= perSender; n++ {
				salt++
				payload := 0
				if rapid.IntRange(0, 7).Draw(t, "heavy") == 0 {
					payload = 3 * 1024
				}
				sl := slot{primary: signSend(s0, from, to, epoch, uint32(n), payload, salt, 15)}
				all = append(all, sl.primary)
				if rapid.IntRange(0, 5).Draw(t, "withAlt") == 0 {
					salt++
					sl.alt = signSend(s0, from, to, epoch, uint32(n), 0, salt, 15)
					all = append(all, sl.alt)
				}
				universe[si] = append(universe[si], sl)
			}
		}
		// deal operations to goroutines
		nG := rapid.IntRange(4, 8).Draw(t, "goroutines")
		lists := make([][]op, nG)
		cursor := make([]int, nSenders)
		opsPer := rapid.IntRange(10, 50).Draw(t, "opsPerGoroutine")
		pick := func(si int) *types.Transaction {
			k := rapid.IntRange(0, 9).Draw(t, "pick")
			idx := cursor[si]
			switch {
			case k <= 5:
				cursor[si]++
			case k <= 7:
				idx += rapid.IntRange(1, 3).Draw(t, "ahead")
			default:
				if cursor[si] > 0 {
					idx = rapid.IntRange(0, cursor[si]-1).Draw(t, "again")
				}
			}
			if idx >= len(universe[si]) {
				idx = len(universe[si]) - 1
			}
			sl := universe[si][idx]
			if sl.alt != nil && rapid.Bool().Draw(t, "useAlt") {
				return cloneTx(sl.alt)
			}
			return cloneTx(sl.primary)
		}
		for i := 0; i < opsPer*nG; i++ {
			g := rapid.IntRange(0, nG-1).Draw(t, "g")
			o := op{yields: rapid.IntRange(0, 3).Draw(t, "yields")}
			if stretch {
				o.pause = time.Duration(rapid.SampledFrom([]int{0, 0, 1, 2, 4, 8}).Draw(t, "pauseMs")) * time.Millisecond
			}
			si := rapid.IntRange(0, nSenders-1).Draw(t, "sender")
			o.addr = w.Actors[si].Addr
			switch k := rapid.IntRange(0, 19).Draw(t, "opKind"); {
			case k <= 5:
				o.kind, o.txs = "inbound", []*types.Transaction{pick(si)}
				if rapid.IntRange(0, 9).Draw(t, "viaAsync") < asyncShare {
					o.kind = "asyncInbound"
				}
			case k <= 8:
				o.kind, o.txs = "mempool", []*types.Transaction{pick(si)}
			case k <= 10:
				o.kind, o.txs = "internal", []*types.Transaction{pick(si)}
			case k == 11:
				o.kind = "batch"
				for j := rapid.IntRange(2, 6).Draw(t, "batch"); j > 0; j-- {
					o.txs = append(o.txs, pick(si))
				}
				if rapid.IntRange(0, 9).Draw(t, "viaAsync") < asyncShare {
					o.kind = "asyncBatch"
				}
			case k == 12:
				o.kind, o.txs = "getTx", []*types.Transaction{all[rapid.IntRange(0, len(all)-1).Draw(t, "getIdx")]}
			case k == 13:
				o.kind = "byAddr"
			case k == 14:
				o.kind = "pendingAll"
			case k == 15:
				o.kind = "byAddr"
			case k == 16:
				o.kind, o.txs = "getTx", []*types.Transaction{all[rapid.IntRange(0, len(all)-1).Draw(t, "getIdx")]}
			case k == 17:
				o.kind = "priority"
			default:
				o.kind, o.txs = "validate", []*types.Transaction{pick(si)}
			}
			lists[g] = append(lists[g], o)
		}
		var chainOps []chainOp
		for i := rapid.IntRange(3, 12).Draw(t, "chainOps"); i > 0; i-- {
			c := chainOp{dt: rapid.IntRange(10, 30).Draw(t, "dt"), yields: rapid.IntRange(0, 5).Draw(t, "chainYields"), jump: rapid.IntRange(0, 2).Draw(t, "jump") == 0 && timing == "near"}
			switch k := rapid.IntRange(0, 11).Draw(t, "chainKind"); {
			case k <= 6:
				c.kind = "block"
			case k >= 10:
				c.kind = "build"
			case k == 7:
				c.kind = "empty"
			case k == 8:
				c.kind = "startSync"
			default:
				c.kind = "stopSync"
			}
			chainOps = append(chainOps, c)
		}

		// ---- run ----
		var (
			inside, maxInside, overlapWithChain int32
			chainBusy                           int32
			syncGen                             int64 // odd while the node syncs
			panics                              = make(chan string, nG+1)
			results                             = make([][]submitted, nG)
			start                               = make(chan struct{})
			wg                                  sync.WaitGroup
		)
		enter := func() {
			n := atomic.AddInt32(&inside, 1)
			for {
				old := atomic.LoadInt32(&maxInside)
				if n <= old || atomic.CompareAndSwapInt32(&maxInside, old, n) {
					break
				}
			}
			if atomic.LoadInt32(&chainBusy) == 1 {
				atomic.StoreInt32(&overlapWithChain, 1)
			}
		}
		leave := func() { atomic.AddInt32(&inside, -1) }
		guard := func(who string) {
			if x := recover(); x != nil {
				buf := make([]byte, 16<<10)
				buf = buf[:runtime.Stack(buf, false)]
				select {
				case panics <- fmt.Sprintf("%s: panic: %v\n%s", who, x, buf):
				default:
				}
			}
		}
		// fataler for checks made inside goroutines: remember the first message, fail after the join
		gf := &deferredFatal{}
		for g := 0; g < nG; g++ {
			wg.Add(1)
			go func(g int) {
				defer wg.Done()
				defer guard(fmt.Sprintf("goroutine %d", g))
				<-start
				for _, o := range lists[g] {
					for y := 0; y < o.yields; y++ {
						runtime.Gosched()
					}
					if o.pause > 0 {
						time.Sleep(o.pause)
					}
					gen0 := atomic.LoadInt64(&syncGen)
					enter()
					var err error
					switch o.kind {
					case "inbound":
						err = pool.AddExternalTxs(validation.InboundTx, o.txs[0])
					case "mempool":
						err = pool.AddExternalTxs(validation.MempoolTx, o.txs[0])
					case "internal":
						err = pool.AddInternalTx(o.txs[0])
					case "batch":
						err = pool.AddExternalTxs(validation.InboundTx, o.txs...)
					case "asyncInbound", "asyncBatch":
						// the gossip handler's path: never blocks (select/default on a 10000-slot queue); admission happens later on the loop goroutine
						if e := async.AddExternalTxs(validation.InboundTx, o.txs...); e != nil {
							gf.set(fmt.Sprintf("AsyncTxPool.AddExternalTxs refused %d txs with %v although its queue (10000) cannot be full", len(o.txs), e))
						}
					case "getTx":
						pool.GetTx(o.txs[0].Hash())
					case "byAddr":
						pool.GetPendingByAddress(o.addr)
					case "pendingAll":
						pool.GetPendingTransaction(false, true, common.MultiShard, true)
					case "priority":
						pool.GetPriorityTransaction()
					case "validate":
						pool.Validate(o.txs[0])
					}
					leave()
					gen1 := atomic.LoadInt64(&syncGen)
					switch o.kind {
					case "inbound", "mempool", "internal":
						results[g] = append(results[g], submitted{tx: o.txs[0], err: err, definite: gen0 == gen1 && gen0%2 == 0, g: g})
					}
				}
			}(g)
		}
		// chain goroutine
		everInvalid := map[common.Hash]string{}
		includedAt := map[common.Hash]uint64{}
		var chainLog []string
		blocks, builds := 0, 0
		syncing := false
		addBlock := func(empty bool, c chainOp) string {
			var view *appstate.AppState
			if c.jump {
				view = privateView(r)
			}
			advanceClock(w, r, view, c.jump, 1, c.dt)
			var blk *types.Block
			if !empty && r.CanPropose() {
				blk = r.Chain.ProposeBlock([]byte{}).Block
			} else {
				blk = r.Chain.GenerateEmptyBlock()
			}
			if err := r.Chain.AddBlock(blk, nil, collector.NewStatsCollector()); err != nil {
				return fmt.Sprintf("harness: own block %s refused under concurrent pool use: %v", sim.BlockDesc(blk), err)
			}
			blocks++
			for _, tx := range blk.Body.Transactions {
				includedAt[tx.Hash()] = blk.Height()
			}
			// which transactions of the universe are invalid on this head (the pool may drop those, and their successors)
			s := privateView(r)
			for h, why := range released(s, all) {
				if _, ok := everInvalid[h]; !ok {
					everInvalid[h] = fmt.Sprintf("%s@%d", why, blk.Height())
				}
			}
			chainLog = append(chainLog, fmt.Sprintf("%s txs=%d period=%s syncing=%v", sim.BlockDesc(blk), len(blk.Body.Transactions), sim.PeriodName(s.State.ValidationPeriod()), syncing))
			return ""
		}
		wg.Add(1)
		go func() {
			defer wg.Done()
			defer guard("chain goroutine")
			<-start
			for _, c := range chainOps {
				for y := 0; y < c.yields; y++ {
					runtime.Gosched()
				}
				atomic.StoreInt32(&chainBusy, 1)
				switch c.kind {
				case "block", "empty":
					if msg := addBlock(c.kind == "empty", c); msg != "" {
						gf.set(msg)
						atomic.StoreInt32(&chainBusy, 0)
						return
					}
				case "build":
					// the proposer's call: same goroutine as block insertion, concurrent with submissions
					l := pool.BuildBlockTransactions()
					stop := false
					func() {
						defer func() {
							if x := recover(); x != nil {
								if _, ok := x.(deferredStop); !ok {
									panic(x)
								}
								stop = true
							}
						}()
						checkOffer(gf, w, r, privateView(r), l, true, func() string { return "(list built on the chain goroutine while submitters run)" })
					}()
					builds++
					if stop {
						atomic.StoreInt32(&chainBusy, 0)
						return
					}
				case "startSync":
					if !syncing {
						atomic.AddInt64(&syncGen, 1)
						r.Chain.StartSync()
						syncing = true
						chainLog = append(chainLog, "StartSync")
					}
				case "stopSync":
					if syncing {
						r.Chain.StopSync()
						atomic.AddInt64(&syncGen, 1)
						syncing = false
						chainLog = append(chainLog, "StopSync")
					}
				}
				atomic.StoreInt32(&chainBusy, 0)
			}
		}()
		done := make(chan struct{})
		go func() { wg.Wait(); close(done) }()
		close(start)
		persistDuringRun := false
		wedged := func(what string) {
			buf := make([]byte, 4<<20)
			buf = buf[:runtime.Stack(buf, true)]
			n, stacks := lockWaitersInRepo(string(buf))
			evid.Flush()
			if n >= 2 {
				fmt.Fprintf(os.Stderr, "C14: %s within %v; %d goroutines wait for locks inside pool/state code:\n%s\n", what, concTimeout, n, strings.Join(stacks, "\n\n"))
				fmt.Fprintf(os.Stderr, "FINDING property=C14 key=c14.deadlock\n--- FAIL: TestConcurrent (deadlock)\nfull dump:\n%s\n", buf)
				os.Exit(1)
			}
			// not attributable to a lock cycle in the repository: inconclusive (the driver maps this exit code to exit 2)
			fmt.Fprintf(os.Stderr, "C14: INCONCLUSIVE: %s within %v, no lock cycle inside pool/state code visible\n%s\n", what, concTimeout, buf)
			os.Exit(3)
		}
		select {
		case <-done:
		case <-time.After(concTimeout):
			wedged("concurrent run did not finish")
		}
		if keeper {
			_, persistDuringRun = keptOnDisk(dataDir)
		}
		// AsyncTxPool has no stop: wait until its loop goroutine has handed everything to the pool and parked
		for deadline := time.Now().Add(concTimeout); !asyncLoopsIdle(); {
			if time.Now().After(deadline) {
				wedged("AsyncTxPool loop did not drain its queue")
			}
			time.Sleep(time.Millisecond)
		}
		select {
		case msg := <-panics:
			t.Fatalf("panic during the concurrent run:\n%s\nchain: %s", msg, strings.Join(chainLog, "; "))
		default:
		}
		if msg := gf.first(); msg != "" {
			t.Fatalf("%s\nchain: %s", msg, strings.Join(chainLog, "; "))
		}

		// ---- race reports of this run ----
		reportRaces(t)

		// ---- quiescence ----
		if syncing {
			r.Chain.StopSync()
			syncing = false
			chainLog = append(chainLog, "StopSync(final)")
		}
		// one more block so that the pool has been reset on a head while nothing else runs
		if msg := addBlock(false, chainOp{dt: 15}); msg != "" {
			t.Fatalf("%s\nchain: %s", msg, strings.Join(chainLog, "; "))
		}
		s := privateView(r)
		ctx := func() string {
			return fmt.Sprintf("at quiescence: head=%d epoch=%d period=%s goroutines=%d limits=%+v\nchain: %s\npool: %s", r.Head().Height(), s.State.Epoch(), sim.PeriodName(s.State.ValidationPeriod()), nG, *m, strings.Join(chainLog, "; "), txsDesc(w, poolContent(pool)))
		}
		l := pool.BuildBlockTransactions()
		checkOffer(t, w, r, s, l, true, ctx)
		content := poolContent(pool)
		if prunesOn(r, s) {
			if stale := staleInPool(s, content); len(stale) > 0 {
				t.Fatalf("pool still holds transactions with a consumed nonce or a past epoch: %s\n%s", txsDesc(w, stale), ctx())
			}
			for si := 0; si < nSenders; si++ {
				if stale := staleInPool(s, pool.GetPendingByAddress(w.Actors[si].Addr)); len(stale) > 0 {
					t.Fatalf("GetPendingByAddress(%s) still lists transactions with a consumed nonce or a past epoch: %s\n%s", w.Actors[si], txsDesc(w, stale), ctx())
				}
			}
		}
		for h := range includedAt {
			if pool.GetTx(h) != nil && prunesOn(r, s) {
				t.Fatalf("transaction %x was included at height %d and is still in the pool\n%s", h[:3], includedAt[h], ctx())
			}
		}
		// the last block's transactions must be gone in any period (the pool was told about that block)
		if last := r.Chain.GetBlock(r.Head().Hash()); last != nil {
			for _, tx := range last.Body.Transactions {
				if pool.GetTx(tx.Hash()) != nil {
					t.Fatalf("%s is in the applied head block and still in the pool\n%s", txDesc(w, tx), ctx())
				}
			}
		}
		admitted, kept := 0, 0
		var subs []submitted
		for _, rs := range results {
			subs = append(subs, rs...)
		}
		sort.SliceStable(subs, func(i, j int) bool {
			a, b := subs[i].tx.Hash(), subs[j].tx.Hash()
			return string(a[:]) < string(b[:])
		})
		finalBad := released(s, all)
		for _, sb := range subs {
			if !sb.definite || sb.err != nil {
				continue
			}
			admitted++
			h := sb.tx.Hash()
			if _, ok := includedAt[h]; ok {
				continue
			}
			if _, ok := everInvalid[h]; ok {
				continue
			}
			if _, ok := finalBad[h]; ok {
				continue
			}
			sender, _ := types.Sender(sb.tx)
			if pool.GetTx(h) == nil || !inList(pool.GetPendingByAddress(sender), h) {
				t.Fatalf("%s was accepted (nil error, goroutine %d, node not syncing), was never included and is valid on every head since, but the pool lost it\n%s", txDesc(w, sb.tx), sb.g, ctx())
			}
			kept++
		}

		// ---- tx keeper: did its persist loop get to run (100 ms poll, then 20 s pause)? ----
		if keeper {
			evid.Count("conc.keeper.on")
			if stretch {
				evid.Count("conc.keeper.stretched_run")
			}
			if persistDuringRun {
				evid.Count("conc.keeper.persisted_during_run")
			}
			persisted := persistDuringRun
			if admitted > 0 {
				for deadline := time.Now().Add(400 * time.Millisecond); !persisted && time.Now().Before(deadline); time.Sleep(5 * time.Millisecond) {
					_, persisted = keptOnDisk(dataDir)
				}
			}
			if persisted {
				evid.Count("conc.keeper.persisted")
				// a late report of the keeper's own goroutines belongs to this case
				reportRaces(t)
			}
		}
		nAsync := 0
		for _, lst := range lists {
			for _, o := range lst {
				if o.kind == "asyncInbound" || o.kind == "asyncBatch" {
					nAsync += len(o.txs)
				}
			}
		}
		evid.CountN("conc.async_submitted_txs", nAsync)
		if nAsync > 0 {
			evid.Count("conc.with_async_submissions")
		}

		// ---- evidence ----
		completed = true
		evid.Count("conc.timing." + timing)
		evid.Count("conc.limits." + limits)
		evid.Count(fmt.Sprintf("conc.max_overlap.%d", maxInside))
		evid.CountN("conc.blocks", blocks)
		evid.CountN("conc.builds_during_run", builds)
		evid.CountN("conc.included_txs", len(includedAt))
		evid.CountN("conc.admitted_definite", admitted)
		evid.CountN("conc.kept_at_quiescence", kept)
		if overlapWithChain == 1 {
			evid.Count("conc.overlap_with_chain_op")
		}
		if s.State.ValidationPeriod() != state.NonePeriod {
			evid.Count("conc.ended_in_ceremony")
		}
		for _, c := range chainOps {
			evid.Count("conc.chain_op." + c.kind)
		}
		if maxInside >= 2 {
			evid.Count("conc.nontrivial")
			kinds := map[string]int{}
			for _, lst := range lists {
				for _, o := range lst {
					kinds[o.kind]++
				}
			}
			ks := make([]string, 0, len(kinds))
			for k, v := range kinds {
				ks = append(ks, fmt.Sprintf("%s=%d", k, v))
			}
			sort.Strings(ks)
			d := fmt.Sprintf("conc|%s|%s|g=%d|senders=%d|nonces=%d|blocks=%d|included=%d|%s", p.Profile, limits, nG, nSenders, perSender, blocks, len(includedAt), strings.Join(ks, ","))
			evid.NonTrivial(d)
			evid.Sample("concurrent", fmt.Sprintf("%s maxOverlap=%d chain=[%s]", d, maxInside, strings.Join(chainLog, "; ")))
		}
	})
}

// deferredFatal collects oracle failures raised on goroutines other than the test's.
type deferredFatal struct {
	mu  sync.Mutex
	msg string
}

type deferredStop struct{}

func (d *deferredFatal) Helper() {}

func (d *deferredFatal) set(msg string) {
	d.mu.Lock()
	if d.msg == "" {
		d.msg = msg
	}
	d.mu.Unlock()
}

func (d *deferredFatal) Fatalf(format string, args ...interface{}) {
	d.set(fmt.Sprintf(format, args...))
	panic(deferredStop{})
}

func (d *deferredFatal) first() string {
	d.mu.Lock()
	defer d.mu.Unlock()
	return d.msg
}

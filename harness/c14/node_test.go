package c14

import (
	"crypto/ecdsa"
	"encoding/json"
	"fmt"
	"os"
	"path/filepath"
	"runtime"
	"strings"
	"sync"
	"sync/atomic"
	"time"

	"github.com/idena-network/idena-go/blockchain"
	"github.com/idena-network/idena-go/blockchain/types"
	"github.com/idena-network/idena-go/common/eventbus"
	"github.com/idena-network/idena-go/common/hexutil"
	"github.com/idena-network/idena-go/config"
	"github.com/idena-network/idena-go/core/appstate"
	"github.com/idena-network/idena-go/core/mempool"
	"github.com/idena-network/idena-go/core/upgrade"
	"github.com/idena-network/idena-go/crypto"
	"github.com/idena-network/idena-go/keystore"
	"github.com/idena-network/idena-go/secstore"
	"github.com/idena-network/idena-go/stats/collector"
	"github.com/idena-network/idena-go/subscriptions"
	dbm "github.com/tendermint/tm-db"

	"verifharness/internal/sim"
)

// The node runs its pool with the on-disk transaction keeper
// (node.go: txpool.Initialize(head, coinbase, true)); sim.Replica.Start passes
// false. startKeeperNode is sim.Replica.Start with cfg.DataDir set and the
// keeper on; everything else is identical (same order as node.StartWithHeight).

var (
	secMu     sync.Mutex
	secStores = map[string]*secstore.SecStore{}
	dirSeq    int64
)

func secStoreFor(key *ecdsa.PrivateKey) *secstore.SecStore {
	secMu.Lock()
	defer secMu.Unlock()
	k := string(crypto.FromECDSA(key))
	if s, ok := secStores[k]; ok {
		return s
	}
	s := secstore.NewSecStore()
	s.AddKey(crypto.FromECDSA(key))
	secStores[k] = s
	return s
}

// freshDataDir returns a new directory under the task's scratch directory.
func freshDataDir() string {
	root := os.Getenv("VERIF_TMP")
	if root == "" {
		root = os.TempDir()
	}
	d := filepath.Join(root, fmt.Sprintf("c14-datadir-%d-%d", os.Getpid(), atomic.AddInt64(&dirSeq, 1)))
	if err := os.MkdirAll(d, 0o755); err != nil {
		panic(err)
	}
	return d
}

// startKeeperNode (re)builds r's in-memory objects over r.DB with the tx keeper on dataDir.
// limits, when not nil, replaces the default Mempool section (a restart keeps the node's configuration).
func startKeeperNode(r *sim.Replica, dataDir string, limits *config.Mempool) error {
	w := r.W
	cfg := w.Config()
	cfg.DataDir = dataDir
	if limits != nil {
		m := *limits
		cfg.Mempool = &m
	}
	r.Cfg = cfg
	bus := eventbus.New()
	appState, err := appstate.NewAppState(r.DB, bus)
	if err != nil {
		return err
	}
	sec := secStoreFor(r.Key)
	txPool := mempool.NewTxPool(appState, bus, cfg, collector.NewStatsCollector())
	offline := blockchain.NewOfflineDetector(cfg, r.DB, appState, sec, bus)
	tmp := os.Getenv("VERIF_TMP")
	if tmp == "" {
		tmp = os.TempDir()
	}
	keyStore := keystore.NewKeyStore(tmp+"/ks", keystore.StandardScryptN, keystore.StandardScryptP)
	subManager, _ := subscriptions.NewManager(tmp + "/subs")
	upgrader := upgrade.NewUpgrader(cfg, appState, r.DB)
	chain := blockchain.NewBlockchain(cfg, r.DB, txPool, appState, r.Ipfs, sec, bus, offline, keyStore, subManager, upgrader)
	if err := chain.InitializeChain(); err != nil {
		return fmt.Errorf("InitializeChain: %w", err)
	}
	if err := appState.Initialize(chain.Head.Height()); err != nil {
		if err := appState.Initialize(0); err != nil {
			return fmt.Errorf("appState.Initialize: %w", err)
		}
	}
	if err := chain.EnsureIntegrity(); err != nil {
		return fmt.Errorf("EnsureIntegrity: %w", err)
	}
	chain.ApplyHotfixToState()
	txPool.Initialize(chain.Head, sec.GetAddress(), true)
	r.Bus, r.AppState, r.Pool, r.Chain = bus, appState, txPool, chain
	chain.ProvideApplyNewEpochFunc(w.ScriptedEpochFn(cfg))
	return nil
}

func newKeeperNode(w *sim.World, name string, key *ecdsa.PrivateKey, dataDir string) (*sim.Replica, error) {
	r := &sim.Replica{W: w, Name: name, Key: key, Addr: crypto.PubkeyToAddress(key.PublicKey), DB: dbm.NewMemDB(), Ipfs: sim.NewIpfs(), Loc: time.UTC}
	if err := startKeeperNode(r, dataDir, nil); err != nil {
		return nil, err
	}
	w.Replicas = append(w.Replicas, r)
	return r, nil
}

// keptOnDisk reads what the keeper has persisted (mempool-txs/txs.json). ok=false: nothing persisted yet.
func keptOnDisk(dataDir string) (txs []*types.Transaction, ok bool) {
	b, err := os.ReadFile(filepath.Join(dataDir, mempool.Folder, "txs.json"))
	if err != nil || len(b) == 0 {
		return nil, false
	}
	var list []hexutil.Bytes
	if err := json.Unmarshal(b, &list); err != nil {
		return nil, false // caught in the middle of truncate+write
	}
	for _, raw := range list {
		tx := new(types.Transaction)
		if tx.FromBytes(raw) == nil {
			txs = append(txs, tx)
		}
	}
	return txs, true
}

// asyncLoopsIdle says whether every AsyncTxPool.loop goroutine of the process is parked at its
// queue receive (and not inside TxPool.AddExternalTxs). AsyncTxPool has no stop or drain; a
// case must not end while its loop still validates (it would run into the next case's globals).
// A send to the buffered queue hands over to the parked receiver directly, so once nobody sends
// any more, "parked at the receive" implies "queue empty".
func asyncLoopsIdle() bool {
	buf := make([]byte, 8<<20)
	buf = buf[:runtime.Stack(buf, true)]
	for _, g := range strings.Split(string(buf), "\n\n") {
		if !strings.Contains(g, "mempool.(*AsyncTxPool).loop") {
			continue
		}
		hdr := g
		if i := strings.Index(g, "\n"); i >= 0 {
			hdr = g[:i]
		}
		if !strings.Contains(hdr, "[chan receive") {
			return false
		}
		// first frame that is not the runtime's must be the loop itself
		lines := strings.Split(g, "\n")
		for i := 1; i+1 < len(lines); i += 2 {
			fn := strings.TrimSpace(lines[i])
			if strings.HasPrefix(fn, "runtime.") {
				continue
			}
			if !strings.Contains(fn, "mempool.(*AsyncTxPool).loop") {
				return false
			}
			break
		}
	}
	return true
}

package c14

import (
	"fmt"
	"os"
	"path/filepath"
	"regexp"
	"sort"
	"strings"
	"sync/atomic"
	"testing"

	"verifharness/internal/evid"
)

// Race reports. The driver runs race-enabled tests with GORACE=halt_on_error=1,
// which aborts the process at the first report (the driver prints it as a
// violation). When check.json overrides GORACE with halt_on_error=0 and a
// log_path, the detector appends its reports to <log_path>.<pid> instead; the
// concurrent test reads what was added after every run and turns every report
// into a finding keyed by the unordered pair of (function, file:line) of the two
// conflicting accesses, taken at the innermost frame inside the repository.

const repoPkgPrefix = "github.com/idena-network/idena-go/"

type raceReport struct {
	Key  string
	Text string
}

var (
	raceLogOff     int64 // bytes of the log already consumed
	raceKnown      int64 // reports that matched a known finding
	raceUnknown    int64 // reports that did not
	casesAborted   int64 // property evaluations that did not run to their end (oracle failures)
	reAccessHeader = regexp.MustCompile(`^(Previous )?(read|write|atomic read|atomic write|Read|Write|Atomic read|Atomic write) at 0x[0-9a-f]+ by `)
	reFileLine     = regexp.MustCompile(`^\s+(\S+\.go):(\d+)( \+0x[0-9a-f]+)?$`)
)

func raceLogFile() string {
	for _, kv := range strings.Fields(os.Getenv("GORACE")) {
		if strings.HasPrefix(kv, "log_path=") {
			p := strings.TrimPrefix(kv, "log_path=")
			if p == "stderr" || p == "stdout" || p == "" {
				return ""
			}
			if !filepath.IsAbs(p) {
				wd, _ := os.Getwd()
				p = filepath.Join(wd, p)
			}
			return fmt.Sprintf("%s.%d", p, os.Getpid())
		}
	}
	return ""
}

// newRaceReports returns the reports appended to the log since the last call.
func newRaceReports() []raceReport {
	path := raceLogFile()
	if path == "" {
		return nil
	}
	b, err := os.ReadFile(path)
	if err != nil || int64(len(b)) <= raceLogOff {
		return nil
	}
	txt := string(b[raceLogOff:])
	// consume only complete reports (each ends with a separator line)
	end := strings.LastIndex(txt, "==================\n")
	if end < 0 {
		return nil
	}
	end += len("==================\n")
	raceLogOff += int64(end)
	return parseRaceLog(txt[:end])
}

func parseRaceLog(txt string) []raceReport {
	var res []raceReport
	for _, block := range strings.Split(txt, "==================\n") {
		if !strings.Contains(block, "WARNING: DATA RACE") {
			continue
		}
		lines := strings.Split(block, "\n")
		var accesses []string
		for i := 0; i < len(lines); i++ {
			if !reAccessHeader.MatchString(lines[i]) {
				continue
			}
			// frames: "  func()" followed by "      file.go:NN +0x.."
			first, inRepo := "", ""
			j := i + 1
			for ; j+1 < len(lines) && strings.TrimSpace(lines[j]) != ""; j += 2 {
				fn := strings.TrimSpace(lines[j])
				m := reFileLine.FindStringSubmatch(lines[j+1])
				if m == nil {
					break
				}
				fn = strings.TrimSuffix(fn, "()")
				loc := fmt.Sprintf("%s@%s:%s", strings.TrimPrefix(fn, repoPkgPrefix), filepath.Base(m[1]), m[2])
				if first == "" {
					first = loc
				}
				if inRepo == "" && strings.HasPrefix(fn, repoPkgPrefix) {
					inRepo = loc
				}
			}
			if inRepo == "" {
				inRepo = first
			}
			if inRepo == "" {
				inRepo = "unknown-stack"
			}
			accesses = append(accesses, inRepo)
			i = j
		}
		if len(accesses) > 2 {
			accesses = accesses[:2]
		}
		sort.Strings(accesses)
		res = append(res, raceReport{Key: strings.Join(accesses, "+"), Text: block})
	}
	return res
}

func mainWithRaceLog(m *testing.M) {
	code := m.Run()
	// The testing package fails a test during which the detector counted a report, whatever the
	// test itself concluded. If every report was parsed and matched a known (unrepaired) finding and
	// no property evaluation failed, the run passes; the findings are listed as KNOWN-FINDING.
	if code != 0 && atomic.LoadInt64(&raceKnown) > 0 && atomic.LoadInt64(&raceUnknown) == 0 && atomic.LoadInt64(&casesAborted) == 0 {
		fmt.Fprintln(os.Stderr, "c14: the only failures were race reports listed as known findings; exit 0")
		code = 0
	}
	evid.Flush()
	os.Exit(code)
}

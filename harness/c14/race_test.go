package c14

import (
	"fmt"
	"os"
	"path/filepath"
	"regexp"
	"sort"
	"strings"
	"sync/atomic"
	"testing"

	"verifharness/internal/evid"
	"verifharness/internal/kf"
)

// Race reports. The driver runs race-enabled tests with GORACE=halt_on_error=1,
// which aborts the process at the first report (the driver prints it as a
// violation). When check.json overrides GORACE with halt_on_error=0 and a
// log_path, the detector appends its reports to <log_path>.<pid> instead; the
// concurrent test reads what was added after every run and turns every report
// into a finding keyed by the unordered pair of (function, file:line) of the two
// conflicting accesses, taken at the innermost frame inside the repository.

const repoPkgPrefix = "github.com/idena-network/idena-go/"

type raceReport struct {
	Key  string
	Text string
	// Harness: one of the two accesses was made by harness code itself (the innermost frame outside
	// the standard library belongs to verifharness/...), e.g. sim.NewWorld setting time.Local while a
	// ticker left over from an earlier case reads it. Not an access of the code under test.
	Harness bool
}

func stdlibFunc(fn string) bool {
	if strings.HasPrefix(fn, "verifharness/") {
		return false
	}
	first := fn
	if i := strings.Index(fn, "/"); i >= 0 {
		first = fn[:i]
	} else if i := strings.Index(fn, "."); i >= 0 {
		first = fn[:i]
	}
	return !strings.Contains(first, ".")
}

var (
	raceLogOff     int64 // bytes of the log already consumed
	raceKnown      int64 // reports that matched a known finding or were made by the harness itself
	raceUnknown    int64 // reports that did not
	casesAborted   int64 // property evaluations that did not run to their end (oracle failures)
	reAccessHeader = regexp.MustCompile(`^(Previous )?(read|write|atomic read|atomic write|Read|Write|Atomic read|Atomic write) at 0x[0-9a-f]+ by `)
	reFileLine     = regexp.MustCompile(`^\s+(\S+):(\d+)( \+0x[0-9a-f]+)?$`)
)

func raceLogFile() string {
	for _, kv := range strings.Fields(os.Getenv("GORACE")) {
		if strings.HasPrefix(kv, "log_path=") {
			p := strings.TrimPrefix(kv, "log_path=")
			if p == "stderr" || p == "stdout" || p == "" {
				return ""
			}
			if !filepath.IsAbs(p) {
				wd, _ := os.Getwd()
				p = filepath.Join(wd, p)
			}
			return fmt.Sprintf("%s.%d", p, os.Getpid())
		}
	}
	return ""
}

// newRaceReports returns the reports appended to the log since the last call.
func newRaceReports() []raceReport {
	path := raceLogFile()
	if path == "" {
		return nil
	}
	b, err := os.ReadFile(path)
	if err != nil || int64(len(b)) <= raceLogOff {
		return nil
	}
	txt := string(b[raceLogOff:])
	// consume only complete reports (each ends with a separator line)
	end := strings.LastIndex(txt, "==================\n")
	if end < 0 {
		return nil
	}
	end += len("==================\n")
	raceLogOff += int64(end)
	return parseRaceLog(txt[:end])
}

func parseRaceLog(txt string) []raceReport {
	var res []raceReport
	for _, block := range strings.Split(txt, "==================\n") {
		if !strings.Contains(block, "WARNING: DATA RACE") {
			continue
		}
		lines := strings.Split(block, "\n")
		var accesses []string
		harness := false
		for i := 0; i < len(lines); i++ {
			if !reAccessHeader.MatchString(lines[i]) {
				continue
			}
			// frames: "  func()" followed by "      file.go:NN +0x.."
			first, inRepo, firstUser := "", "", ""
			j := i + 1
			for ; j+1 < len(lines) && strings.TrimSpace(lines[j]) != ""; j += 2 {
				fn := strings.TrimSpace(lines[j])
				m := reFileLine.FindStringSubmatch(lines[j+1])
				if m == nil {
					break
				}
				fn = strings.TrimSuffix(fn, "()")
				loc := fmt.Sprintf("%s@%s:%s", strings.TrimPrefix(fn, repoPkgPrefix), filepath.Base(m[1]), m[2])
				if first == "" {
					first = loc
				}
				if firstUser == "" && !stdlibFunc(fn) {
					firstUser = fn
				}
				if inRepo == "" && strings.HasPrefix(fn, repoPkgPrefix) {
					inRepo = loc
				}
			}
			if inRepo == "" {
				inRepo = first
			}
			if inRepo == "" {
				inRepo = "unknown-stack"
			}
			accesses = append(accesses, inRepo)
			if strings.HasPrefix(firstUser, "verifharness/") {
				harness = true
			}
			i = j
		}
		if len(accesses) > 2 {
			accesses = accesses[:2]
		}
		sort.Strings(accesses)
		res = append(res, raceReport{Key: strings.Join(accesses, "+"), Text: block, Harness: harness})
	}
	return res
}

// reportRaces turns the reports the detector wrote since the last call into findings.
func reportRaces(t fataler) {
	t.Helper()
	for _, rep := range newRaceReports() {
		if rep.Harness {
			atomic.AddInt64(&raceKnown, 1)
			evid.Count("race_by_harness." + rep.Key)
			continue
		}
		key := "c14.race." + rep.Key
		if kf.Listed("C14", key) {
			atomic.AddInt64(&raceKnown, 1)
		} else {
			atomic.AddInt64(&raceUnknown, 1)
		}
		evid.Count("race." + rep.Key)
		if kf.Report(t, "C14", key, "data race between pool operations:\n%s", rep.Text) {
			continue
		}
	}
}

func mainWithRaceLog(m *testing.M) {
	code := m.Run()
	// The testing package fails a test during which the detector counted a report, whatever the
	// test itself concluded. If every report was parsed and matched a known (unrepaired) finding and
	// no property evaluation failed, the run passes; the findings are listed as KNOWN-FINDING.
	if code != 0 && atomic.LoadInt64(&raceKnown) > 0 && atomic.LoadInt64(&raceUnknown) == 0 && atomic.LoadInt64(&casesAborted) == 0 {
		fmt.Fprintln(os.Stderr, "c14: the only failures were race reports listed as known findings; exit 0")
		code = 0
	}
	evid.Flush()
	os.Exit(code)
}

const sampleRaceLog = `==================
WARNING: DATA RACE
Read at 0x00c002798ae0 by goroutine 1045:
  github.com/idena-network/idena-go/core/state.(*StateDB).getStateGlobal()
      /repo/core/state/statedb.go:898 +0x44
  github.com/idena-network/idena-go/core/mempool.(*TxPool).put()
      /repo/core/mempool/txpool.go:412 +0x1c4
  verifharness/c14.TestConcurrent.func1.6()
      /verif/harness/c14/conc_test.go:276 +0x5a4

Previous write at 0x00c002798ae0 by goroutine 1046:
  sync/atomic.StorePointer()
      /usr/lib/go-1.23/src/runtime/race_amd64.s:354 +0x4
  github.com/idena-network/idena-go/core/state.(*StateDB).setStateGlobalObject()
      /repo/core/state/statedb.go:1063 +0xb3
  github.com/idena-network/idena-go/blockchain.(*Blockchain).AddBlock()
      /repo/blockchain/blockchain.go:453 +0x2f2

Goroutine 1045 (running) created at:
  verifharness/c14.TestConcurrent.func1()
      /verif/harness/c14/conc_test.go:258 +0x2a9f
==================
==================
WARNING: DATA RACE
Write at 0x000004f0c098 by goroutine 45:
  verifharness/internal/sim.NewWorld()
      /verif/harness/internal/sim/world.go:253 +0x784
  verifharness/c14.TestConcurrent.func1()
      /verif/harness/c14/conc_test.go:101 +0x3d7

Previous read at 0x000004f0c098 by goroutine 6069:
  time.Now()
      /usr/lib/go-1.23/src/time/time.go:1169 +0xcf
  time.sendTime()
      /usr/lib/go-1.23/src/time/sleep.go:187 +0x3c

Goroutine 45 (running) created at:
  testing.(*T).Run()
      /usr/lib/go-1.23/src/testing/testing.go:1743 +0x825
==================
`

// The parser is part of the trusted base of the concurrent test: check it on a canned log.
func TestRaceLogParser(t *testing.T) {
	reps := parseRaceLog(sampleRaceLog)
	if len(reps) != 2 {
		t.Fatalf("want 2 reports, got %d", len(reps))
	}
	want := "core/state.(*StateDB).getStateGlobal@statedb.go:898+core/state.(*StateDB).setStateGlobalObject@statedb.go:1063"
	if reps[0].Key != want || reps[0].Harness {
		t.Fatalf("report 0: key %q harness=%v, want %q false", reps[0].Key, reps[0].Harness, want)
	}
	if !reps[1].Harness {
		t.Fatalf("report 1 (time.Local written by sim.NewWorld) not classified as made by the harness: %q", reps[1].Key)
	}
}

package c08

import (
	"bytes"
	"testing"
	"time"

	"github.com/idena-network/idena-go/blockchain/types"
	"github.com/idena-network/idena-go/consensus"
	"github.com/idena-network/idena-go/core/state"
	"github.com/idena-network/idena-go/stats/collector"

	"verifharness/internal/evid"
	"verifharness/internal/sim"
)

// seqScript is a small fixed world for the scripted sequence regressions: a prefix of three blocks, and branch nodes
// on copies of it. Every block is proposed by the god node (nobody is online) and comes with its genuine certificate
// and a forged one (enough signatures, but of keys outside the committee).
type seqScript struct {
	t    *testing.T
	w    *sim.World
	base *sim.Replica
}

type scriptedBlock struct {
	blk          *types.Block
	good, forged *types.BlockCert
}

func newSeqScript(t *testing.T) *seqScript {
	p := sim.Params{KeySeed: 47, NActors: 4, Profile: "v12", SwitchRng: 3, DelegRng: 3, DiscrRng: 3, SnapRng: 1000,
		Start: time.Date(2030, 1, 5, 12, 0, 0, 0, time.UTC).Unix(), CeremonyIn: 100000, Interval: 3600, LotteryDur: 30, ShortDur: 30, LongDur: 30}
	for i := 0; i < p.NActors; i++ {
		p.States = append(p.States, state.Verified)
		p.Balances = append(p.Balances, sim.Dna(1000))
		p.Stakes = append(p.Stakes, sim.Dna(10))
	}
	w := sim.NewWorld(p)
	base, err := w.AddReplica("chain", w.God.Key, nil)
	if err != nil {
		t.Fatal(err)
	}
	s := &seqScript{t: t, w: w, base: base}
	for i := 0; i < 3; i++ {
		s.step(base, false)
	}
	return s
}

func (s *seqScript) node(name string, src *sim.Replica) *sim.Replica {
	r := &sim.Replica{W: s.w, Name: name, Key: s.w.God.Key, Addr: s.w.God.Addr, Loc: time.UTC, DB: sim.CopyDB(src.DB), Ipfs: src.Ipfs}
	if err := r.Start(); err != nil {
		s.t.Fatal(err)
	}
	return r
}

func (s *seqScript) step(n *sim.Replica, empty bool) scriptedBlock {
	s.w.Advance(20 * time.Second)
	var blk *types.Block
	if empty {
		blk = n.EmptyBlock()
	} else {
		if !n.CanPropose() {
			s.t.Fatalf("test setup: the god node cannot propose at %d", n.Head().Height()+1)
		}
		blk = s.node("tmp", n).Propose().Block
	}
	res := scriptedBlock{blk: blk, good: s.w.MakeCert(n, blk, sim.CertValid), forged: s.w.MakeCert(n, blk, sim.CertForged)}
	if res.good.Empty() || res.forged.Empty() {
		s.t.Fatalf("test setup: no certificate for block %d", blk.Height())
	}
	if err := n.AddBlock(blk); err != nil {
		s.t.Fatalf("block %s refused by its own side: %v", sim.BlockDesc(blk), err)
	}
	return res
}

func genuine(blocks []scriptedBlock) (res []types.BlockBundle) {
	for _, b := range blocks {
		res = append(res, types.BlockBundle{Block: b.blk, Cert: b.good})
	}
	return res
}

// Constructed (seeded change C08-m9 was missed by single-offer checks): the node has been on branch A and holds the
// certificates of A's blocks, it is switched to the longer branch B, and is then offered A again, continued beyond B,
// with a forged certificate on a block it once held the genuine certificate for. Leaving A does not remove A's
// certificates from the database; whatever the node remembers about a block, the certificate that comes with an offer
// has to be verified: the offer is refused and the genuine certificate stays the stored one.
func TestRegressionOfferOfFormerBranchWithForgedCertificate(t *testing.T) {
	s := newSeqScript(t)
	own, sideA, sideB := s.node("own", s.base), s.node("A", s.base), s.node("B", s.base)
	var a, b []scriptedBlock
	for i := 0; i < 2; i++ {
		sb := s.step(sideA, false)
		a = append(a, sb)
		// the node takes part in the consensus on A: block added, certificate stored (Engine.loop)
		if err := own.AddBlock(sb.blk); err != nil {
			t.Fatal(err)
		}
		own.Chain.WriteCertificate(sb.blk.Hash(), sb.good, own.Chain.IsPermanentCert(sb.blk.Header))
	}
	for i := 0; i < 3; i++ {
		b = append(b, s.step(sideB, false))
	}
	evid.Eval()
	resolver := consensus.NewForkResolver(nil, nil, own.Chain, collector.NewStatsCollector())
	if err := resolver.VerifProcessBlocks(genuine(b)); err != nil || !resolver.HasLoadedFork() {
		t.Fatalf("valid, certified, longer branch B refused: %v", err)
	}
	if _, err := resolver.ApplyFork(); err != nil || own.Head().Hash() != b[2].blk.Hash() {
		t.Fatalf("switch to B failed: %v", err)
	}
	for i := 0; i < 2; i++ {
		a = append(a, s.step(sideA, false))
	}
	offer := genuine(a)
	offer[0].Cert = a[0].forged
	headOnB := own.Head().Hash()
	err := resolver.VerifProcessBlocks(offer)
	if err == nil || resolver.HasLoadedFork() {
		applied := ""
		if resolver.HasLoadedFork() {
			_, aerr := resolver.ApplyFork()
			applied = "; the engine applied it: err=" + errString(aerr) + ", head is the tip of the offer=" + map[bool]string{true: "true", false: "false"}[own.Head().Hash() == a[3].blk.Hash()]
		}
		t.Fatalf("offer of the former branch with a forged certificate on block %s (the node holds the genuine one) was not refused: err=%v%s; the stored certificate is the forged one=%v",
			sim.BlockDesc(a[0].blk), err, applied, bytes.Equal(certBytes(own.Chain.GetCertificate(a[0].blk.Hash())), certBytes(a[0].forged)))
	}
	if own.Head().Hash() != headOnB {
		t.Fatalf("the refused offer moved the head")
	}
	if !bytes.Equal(certBytes(own.Chain.GetCertificate(a[0].blk.Hash())), certBytes(a[0].good)) {
		t.Fatalf("the refused offer changed the stored certificate")
	}
	// the same blocks with their genuine certificates take the node back to A
	if err := resolver.VerifProcessBlocks(genuine(a)); err != nil || !resolver.HasLoadedFork() {
		t.Fatalf("valid, certified, longer continuation of the former branch refused: %v", err)
	}
	if _, err := resolver.ApplyFork(); err != nil || own.Head().Hash() != sideA.Head().Hash() || own.AppState.State.Root() != sideA.AppState.State.Root() {
		t.Fatalf("switch back to A failed: %v", err)
	}
	evid.Count("regression.former_branch_forged_certificate")
	evid.NonTrivial("regression.former_branch_forged_certificate")
}

func errString(err error) string {
	if err == nil {
		return "<nil>"
	}
	return err.Error()
}

// Constructed (seeded change C08-m10 was missed while the check looked at the error of processBlocks only): the
// consensus engine and the downloader do not see that error, they poll HasLoadedFork() and call ApplyFork(), which
// verifies no certificates. After a refused offer nothing may be loaded and the engine's next turn leaves the head
// where it is; the same fork with its certificates is loaded and applied.
func TestRegressionRefusedForkIsNotLoaded(t *testing.T) {
	s := newSeqScript(t)
	own, sideB := s.node("own", s.base), s.node("B", s.base)
	s.step(own, false)
	var b []scriptedBlock
	b = append(b, s.step(sideB, true))
	for i := 0; i < 3; i++ {
		b = append(b, s.step(sideB, false))
	}
	resolver := consensus.NewForkResolver(nil, nil, own.Chain, collector.NewStatsCollector())
	ownHead := own.Head().Hash()
	tip := len(b) - 1
	for _, c := range []struct {
		name  string
		spoil func(l []types.BlockBundle)
	}{
		{"tip without certificate", func(l []types.BlockBundle) { l[tip].Cert = nil }},
		{"tip with empty certificate", func(l []types.BlockBundle) { l[tip].Cert = &types.BlockCert{} }},
		{"no certificates at all", func(l []types.BlockBundle) {
			for i := range l {
				l[i].Cert = nil
			}
		}},
		{"tip certificate signed by strangers", func(l []types.BlockBundle) { l[tip].Cert = b[tip].forged }},
		{"forged certificate inside", func(l []types.BlockBundle) { l[1].Cert = b[1].forged }},
	} {
		evid.Eval()
		offer := genuine(b)
		c.spoil(offer)
		err := resolver.VerifProcessBlocks(offer)
		if err == nil {
			t.Fatalf("%s: fork accepted", c.name)
		}
		// the engine's turn
		if resolver.HasLoadedFork() {
			_, aerr := resolver.ApplyFork()
			t.Fatalf("%s: the fork was refused (%v), but stays loaded in the resolver and the engine's next turn applied it: err=%v, head is the tip of the refused fork=%v, stored certificate of the head empty=%v",
				c.name, err, aerr, own.Head().Hash() == b[tip].blk.Hash(), own.Chain.GetCertificate(own.Head().Hash()).Empty())
		}
		if own.Head().Hash() != ownHead {
			t.Fatalf("%s: the refused fork moved the head", c.name)
		}
	}
	if err := resolver.VerifProcessBlocks(genuine(b)); err != nil || !resolver.HasLoadedFork() {
		t.Fatalf("the same fork with its certificates is refused: %v", err)
	}
	if _, err := resolver.ApplyFork(); err != nil || own.Head().Hash() != sideB.Head().Hash() || resolver.HasLoadedFork() {
		t.Fatalf("switch to the fork failed: %v", err)
	}
	evid.Count("regression.refused_fork_not_loaded")
	evid.NonTrivial("regression.refused_fork_not_loaded")
}

package c08

import (
	"bytes"
	"fmt"
	"sort"
	"strings"
	"testing"

	"github.com/idena-network/idena-go/blockchain/types"
	"github.com/idena-network/idena-go/common"
	"github.com/idena-network/idena-go/consensus"
	"github.com/idena-network/idena-go/core/state"
	"github.com/idena-network/idena-go/stats/collector"
	"pgregory.net/rapid"

	"verifharness/internal/evid"
	"verifharness/internal/sim"
)

// seqBlock is one block of a branch together with every certificate that may travel with it: the genuine one and the
// spoiled ones. All of them are built when the block is produced (the committee is the one of the branch node's head
// at that moment).
type seqBlock struct {
	blk  *types.Block
	good *types.BlockCert
	bad  map[string]*types.BlockCert
}

func (sb *seqBlock) idUpd() bool { return sb.blk.Header.Flags().HasFlag(types.IdentityUpdate) }

// seqBranch is a chain on top of the shared prefix, held by a node that has followed it from the start.
type seqBranch struct {
	name   string
	side   *sim.Replica
	blocks []*seqBlock
}

var seqBadShapes = []string{"forged", "forged", "under-quorum", "wrong-hash", "duplicated-vote", "stale-committee", "nil", "empty"}

func (br *seqBranch) grow(t *rapid.T, w *sim.World) {
	sb := &seqBlock{bad: map[string]*types.BlockCert{}}
	blk, cert, _ := extend(t, w, br.side, func(blk *types.Block) sim.CertMode {
		for _, m := range []sim.CertMode{sim.CertForged, sim.CertUnderQuorum, sim.CertWrongHash, sim.CertDuplicated} {
			sb.bad[string(m)] = w.MakeCert(br.side, blk, m)
		}
		if c := staleCert(w, br.side, blk); c != nil {
			sb.bad["stale-committee"] = c
		}
		return sim.CertValid
	}, forkTypes)
	sb.blk, sb.good = blk, cert
	br.blocks = append(br.blocks, sb)
}

func certBytes(c *types.BlockCert) []byte {
	if c == nil {
		return nil
	}
	b, _ := c.ToBytes()
	return append([]byte{1}, b...)
}

// chainPrint is what a refused offer must leave alone: head, both roots, and per height above the shared prefix the
// canonical hash, the stored certificate and the stored identity diff.
func chainPrint(r *sim.Replica, from, to uint64) string {
	var sb strings.Builder
	fmt.Fprintf(&sb, "head=%x@%d root=%x idroot=%x", r.Head().Hash(), r.Head().Height(), r.AppState.State.Root(), r.AppState.IdentityState.Root())
	for h := from; h <= to; h++ {
		hdr := r.Chain.GetBlockHeaderByHeight(h)
		if hdr == nil {
			fmt.Fprintf(&sb, "\n%d -", h)
			continue
		}
		var diff []byte
		if d := r.Chain.GetIdentityDiff(h); !d.Empty() {
			diff, _ = d.ToBytes()
		}
		fmt.Fprintf(&sb, "\n%d %x cert=%x diff=%x", h, hdr.Hash(), certBytes(r.Chain.GetCertificate(hdr.Hash())), diff)
	}
	return sb.String()
}

// Sequences of fork offers on ONE node with ONE fork resolver, observed the way the consensus engine and the
// downloader observe the resolver: they never see the error of processBlocks (it runs in the resolver's own
// goroutine), they poll HasLoadedFork() and call ApplyFork(). Branches keep growing between the offers, so the node
// is taken from branch to branch and is offered branches it followed and abandoned earlier - completely, in part, or
// continued - with genuine and with spoiled certificates.
func TestForkOfferSequence(t *testing.T) {
	rapid.Check(t, func(t *rapid.T) {
		evid.Eval()
		h := sim.RunHistory(t, sim.Options{MinActors: 4, MaxActors: 9, Replicas: 1, MaxReplicas: 3, Steps: rapid.IntRange(3, 8).Draw(t, "prefix"), MaxTxPerStep: 5, OnlyTypes: forkTypes,
			Params: func(p *sim.Params) {
				p.CeremonyIn = 100000
				for i := range p.States {
					if i%2 == 1 {
						p.States[i] = state.Verified
						p.Stakes[i] = sim.Dna(int64(10 + i))
					}
				}
			}})
		w := h.W
		base := w.Replicas[0]
		common0 := base.Head().Height()
		staleView = base.AppState.ValidatorsCache.Clone()
		own := copyOf(t, w, base, "own", w.God) // the node under test
		var branches []*seqBranch
		for i := rapid.IntRange(2, 3).Draw(t, "branches"); i > 0; i-- {
			name := string(rune('A' + len(branches)))
			branches = append(branches, &seqBranch{name: name, side: copyOf(t, w, base, "branch-"+name, w.God)})
		}
		// one resolver for the life of the node
		resolver := consensus.NewForkResolver(nil, nil, own.Chain, collector.NewStatsCollector())
		var addrs []common.Address
		for _, a := range w.Actors {
			addrs = append(addrs, a.Addr)
		}
		var trail []string
		desc := func() string { return fmt.Sprintf("common=%d: %s", common0, strings.Join(trail, " ; ")) }
		maxHeight := func() uint64 {
			m := own.Head().Height()
			for _, br := range branches {
				if x := common0 + uint64(len(br.blocks)); x > m {
					m = x
				}
			}
			return m
		}
		// number of leading blocks of the branch that are on the node's canonical chain (empty blocks on the same
		// parent are identical, so this is decided by hash)
		shared := func(br *seqBranch) int {
			k := 0
			for k < len(br.blocks) {
				hdr := own.Chain.GetBlockHeaderByHeight(common0 + uint64(k) + 1)
				if hdr == nil || hdr.Hash() != br.blocks[k].blk.Hash() {
					break
				}
				k++
			}
			return k
		}
		cur := 0 // the branch the node is on: its chain is a prefix of that branch

		// the node takes part in the consensus on its branch: the next block of the branch is added and its
		// certificate is stored, as Engine.loop does
		advance := func() {
			br := branches[cur]
			k := int(own.Head().Height() - common0)
			if shared(br) != k {
				t.Fatalf("harness: the node is not on branch %s any more (%s)", br.name, desc())
			}
			if k == len(br.blocks) {
				br.grow(t, w)
			}
			sb := br.blocks[k]
			if err := own.AddBlock(sb.blk); err != nil {
				t.Fatalf("the node refuses the next block %s of its own branch: %v (%s)", sim.BlockDesc(sb.blk), err, desc())
			}
			if !sb.good.Empty() {
				own.Chain.WriteCertificate(sb.blk.Hash(), sb.good, own.Chain.IsPermanentCert(sb.blk.Header))
			}
			trail = append(trail, "advance("+br.name+")")
		}
		for i := rapid.SampledFrom([]int{1, 2, 1, 3, 0}).Draw(t, "ownLen"); i > 0; i-- {
			advance()
		}

		type sentOffer struct {
			j          int
			part       []*seqBlock
			list       []types.BlockBundle
			mustRefuse string
		}
		var last *sentOffer
		everLeft := map[int]bool{} // branches the node followed and abandoned
		offers, adoptions, formerOffers, formerAdoptions, refusedThenAdvance, refusedThenOffer := 0, 0, 0, 0, 0, 0
		lastRefused := false
		hasContent := false

		// present hands a bundle list to the resolver and then does what the engine does on its next turn
		present := func(label string, br *seqBranch, part []*seqBlock, sent []types.BlockBundle, mustRefuse string, mayAccept bool) bool {
			offers++
			headBefore := own.Head()
			before := chainPrint(own, common0+1, maxHeight()+1)
			var abandonedTxs []string
			var abandoned []*types.Block
			if len(part) > 0 {
				for hh := part[0].blk.Height(); hh <= headBefore.Height(); hh++ {
					b := own.Chain.GetBlockByHeight(hh)
					if b == nil {
						t.Fatalf("harness: own block %d not found (%s)", hh, desc())
					}
					abandoned = append(abandoned, b)
					for _, tx := range b.Body.Transactions {
						abandonedTxs = append(abandonedTxs, tx.Hash().Hex())
					}
				}
			}
			err := resolver.VerifProcessBlocks(sent)
			loaded := resolver.HasLoadedFork()
			mustAccept := mayAccept && mustRefuse == "" && sent[len(sent)-1].Block.Height() > headBefore.Height()
			verdict := "refused"
			if err == nil {
				verdict = "accepted"
			}
			trail = append(trail, label+"->"+verdict)
			if err == nil && mustRefuse != "" {
				t.Fatalf("fork accepted although: %s (%s)\nprefix history:\n%s", mustRefuse, desc(), h.Summary())
			}
			if err != nil && mustAccept {
				t.Fatalf("valid, certified, longer fork refused: %v (%s)\nprefix history:\n%s", err, desc(), h.Summary())
			}
			if err != nil && loaded {
				// neither Engine.loop / binaryBa nor Downloader.SyncBlockchain look at the error
				_, aerr := resolver.ApplyFork()
				t.Fatalf("the offer was refused (%v), but the resolver reports a loaded fork; the engine's next turn applied it (err=%v): head %d %x -> %d %x, stored certificate of the new head empty=%v (%s)",
					err, aerr, headBefore.Height(), headBefore.Hash(), own.Head().Height(), own.Head().Hash(), own.Chain.GetCertificate(own.Head().Hash()).Empty(), desc())
			}
			if err == nil && !loaded {
				t.Fatalf("the offer was accepted, but the resolver holds no fork for the engine (%s)", desc())
			}
			if err != nil {
				evid.Count("seq.verdict.refused")
				if after := chainPrint(own, common0+1, maxHeight()+1); after != before {
					t.Fatalf("a refused offer changed the node (%s)\nbefore:\n%s\nafter:\n%s", desc(), before, after)
				}
				lastRefused = true
				return false
			}
			evid.Count("seq.verdict.accepted")
			lastRefused = false
			adoptions++
			// the engine's turn
			reverted, aerr := resolver.ApplyFork()
			if aerr != nil {
				t.Fatalf("ApplyFork of an accepted fork failed: %v (%s)", aerr, desc())
			}
			if resolver.HasLoadedFork() {
				t.Fatalf("the fork stays loaded after it has been applied (%s)", desc())
			}
			// reference: a node that has followed this branch from the start, up to the offered tip
			tip := part[len(part)-1].blk
			n := int(tip.Height() - common0)
			ref := br.side
			if n != len(br.blocks) {
				ref = copyOf(t, w, base, "reference", w.God)
				for _, sb := range br.blocks[:n] {
					if err := ref.AddBlock(sb.blk); err != nil {
						t.Fatalf("reference node refuses branch block %s: %v", sim.BlockDesc(sb.blk), err)
					}
				}
				evid.Count("seq.adoption.of_a_part_of_the_branch")
			}
			if own.Head().Hash() != tip.Hash() || own.Head().Hash() != ref.Head().Hash() || own.AppState.State.Root() != ref.AppState.State.Root() || own.AppState.IdentityState.Root() != ref.AppState.IdentityState.Root() {
				t.Fatalf("after adoption head/state differ from a node that followed the branch from the start (%s)", desc())
			}
			if d := sim.CompareVC(own.AppState.ValidatorsCache, ref.AppState.ValidatorsCache, addrs, w.Name, []types.Seed{{1}, {2}}); len(d) > 0 {
				t.Fatalf("after adoption the validator view differs from the reference node: %v (%s)\nprefix history:\n%s", d, desc(), h.Summary())
			}
			for hh := common0 + 1; hh <= maxHeight()+1; hh++ {
				a, b := own.Chain.GetBlockHeaderByHeight(hh), ref.Chain.GetBlockHeaderByHeight(hh)
				if (a == nil) != (b == nil) || a != nil && a.Hash() != b.Hash() {
					t.Fatalf("canonical block at height %d differs from the reference node after adoption (%s)", hh, desc())
				}
				da, db := own.Chain.GetIdentityDiff(hh), ref.Chain.GetIdentityDiff(hh)
				var ba, bb []byte
				if !da.Empty() {
					ba, _ = da.ToBytes()
				}
				if !db.Empty() {
					bb, _ = db.ToBytes()
				}
				if !bytes.Equal(ba, bb) {
					t.Fatalf("stored identity diff at height %d differs from the reference node after adoption (%s)", hh, desc())
				}
			}
			// blocks of every other branch (abandoned now or earlier) are found by hash exactly if the reference node has them
			for _, other := range branches {
				for _, sb := range other.blocks {
					if a, r := own.Chain.GetBlock(sb.blk.Hash()) != nil, ref.Chain.GetBlock(sb.blk.Hash()) != nil; a != r {
						t.Fatalf("block %s of branch %s: found by hash after adoption = %v, on the reference node = %v (%s)", sim.BlockDesc(sb.blk), other.name, a, r, desc())
					}
				}
			}
			for _, sb := range br.blocks[:n] {
				for i, tx := range sb.blk.Body.Transactions {
					got, idx := own.Chain.GetTx(tx.Hash())
					if got == nil || idx == nil || idx.BlockHash != sb.blk.Hash() || int(idx.Idx) != i {
						t.Fatalf("tx index of branch tx %x wrong after adoption (%s)", tx.Hash(), desc())
					}
				}
			}
			// every certificate that came with an adopted block is the stored one now (all of them are genuine, or the
			// offer would have been refused); a node that followed the branch holds a certificate for its head
			for _, b := range sent {
				if !b.Cert.Empty() && !bytes.Equal(certBytes(own.Chain.GetCertificate(b.Block.Hash())), certBytes(b.Cert)) {
					t.Fatalf("certificate of adopted block %s is not the stored one (%s)", sim.BlockDesc(b.Block), desc())
				}
			}
			if own.Chain.GetCertificate(own.Head().Hash()).Empty() {
				t.Fatalf("no certificate stored for the head after adoption (%s)", desc())
			}
			var got []string
			for _, tx := range reverted {
				got = append(got, tx.Hash().Hex())
			}
			sort.Strings(abandonedTxs)
			sort.Strings(got)
			if fmt.Sprint(abandonedTxs) != fmt.Sprint(got) {
				t.Fatalf("reverted transactions %v differ from the transactions of the abandoned blocks %v (%s)", got, abandonedTxs, desc())
			}
			if len(abandoned) > 0 {
				evid.Count("seq.adoption.with_abandoned_blocks")
			}
			if len(abandonedTxs) > 0 {
				evid.Count("seq.adoption.with_reverted_txs")
			}
			return true
		}

		// offer: a peer on branch j answers the node's request for forked blocks
		offer := func(j int) {
			br := branches[j]
			ownLen := int(own.Head().Height() - common0)
			want := ownLen + rapid.SampledFrom([]int{1, 1, 2, 2, 3, 0, -1}).Draw(t, "lead")
			for n := 0; len(br.blocks) < want && n < 4; n++ {
				br.grow(t, w)
			}
			// common ancestor = common0+k, found by hash as the peer does (an empty block that the branch produces on
			// a block of the node's chain IS the node's empty block at that height)
			k := shared(br)
			for len(br.blocks) == k {
				br.grow(t, w)
				k = shared(br)
			}
			avail := br.blocks[k:]
			upto := len(avail)
			if len(avail) > 1 && rapid.IntRange(0, 3).Draw(t, "cut") == 3 {
				upto = rapid.IntRange(1, len(avail)-1).Draw(t, "upto") // the batch ends early: a part of the branch
			}
			part := avail[:upto]
			keepAll := rapid.IntRange(0, 2).Draw(t, "peerKeepsOnlyRequiredCerts") != 2
			// a spoiled certificate sits anywhere, with a preference for blocks the node holds a certificate for
			// (blocks of a branch it has been on before)
			var spots []int
			for i, sb := range part {
				spots = append(spots, i)
				if !own.Chain.GetCertificate(sb.blk.Hash()).Empty() {
					spots = append(spots, i, i)
				}
			}
			spoil := map[int]string{}
			for n := rapid.SampledFrom([]int{0, 0, 0, 0, 1, 1, 1, 2}).Draw(t, "spoiled"); n > 0; n-- {
				spoil[rapid.SampledFrom(spots).Draw(t, "spoilAt")] = rapid.SampledFrom(seqBadShapes).Draw(t, "shape")
			}
			var sent []types.BlockBundle
			certBad, shapes := "", ""
			nBad, nBadOnStored, nStored := 0, 0, 0
			former := everLeft[j] && j != cur
			for i, sb := range part {
				needs := i == len(part)-1 || sb.idUpd()
				cert, mode := sb.good, "valid"
				if !needs && !keepAll {
					cert, mode = nil, "nil"
				}
				if s, ok := spoil[i]; ok {
					switch s {
					case "nil":
						cert, mode = nil, s
					case "empty":
						cert, mode = &types.BlockCert{}, s
					default:
						if c := sb.bad[s]; c != nil {
							cert, mode = c, s
						}
					}
				}
				stored := !own.Chain.GetCertificate(sb.blk.Hash()).Empty()
				if stored {
					nStored++
				}
				empty := cert == nil || cert.Empty()
				if empty && mode != "valid" && mode != "nil" && mode != "empty" {
					mode += "(empty)" // a committee of one: there is no under-quorum certificate
				}
				why := ""
				switch {
				case needs && empty:
					why = fmt.Sprintf("required certificate %s at offered block %d (%s)", mode, i, sim.BlockDesc(sb.blk))
				case !empty && mode != "valid":
					why = fmt.Sprintf("%s certificate at offered block %d (%s)", mode, i, sim.BlockDesc(sb.blk))
					if stored {
						nBadOnStored++
					}
				}
				if why != "" {
					nBad++
					if certBad == "" {
						certBad = why
					}
				}
				if sb.idUpd() || len(sb.blk.Body.Transactions) > 0 {
					hasContent = true
				}
				shapes += mode + map[bool]string{true: "*", false: ""}[stored] + ","
				sent = append(sent, types.BlockBundle{Block: sb.blk, Cert: cert})
			}
			if nStored > 0 {
				// the node holds certificates for offered blocks: it has been on these blocks before
				evid.Count("seq.offer.blocks_the_node_held_before")
				if nBad == 0 {
					evid.Count("seq.offer.blocks_the_node_held_before.all_fine")
				} else if nBad == nBadOnStored {
					evid.Count("seq.offer.blocks_the_node_held_before.spoiled_only_where_a_certificate_is_stored")
				}
			}
			if former {
				formerOffers++
			}
			evid.Count("seq.offer.certs." + map[bool]string{true: "all_fine", false: "some_bad"}[certBad == ""])
			// bundle list edits
			edit := rapid.SampledFrom([]string{"none", "none", "none", "none", "none", "none", "none", "none", "none", "reversed", "reversed", "gap", "duplicate", "drop-first", "invalid-inside"}).Draw(t, "edit")
			structural := ""
			switch edit {
			case "gap":
				if len(sent) >= 3 {
					i := rapid.IntRange(1, len(sent)-2).Draw(t, "gapAt")
					sent = append(append([]types.BlockBundle{}, sent[:i]...), sent[i+1:]...)
					structural = "gap"
				}
			case "duplicate":
				sent = append(sent, sent[rapid.IntRange(0, len(sent)-1).Draw(t, "dupAt")])
				structural = "duplicate height"
			case "drop-first":
				if len(sent) >= 2 {
					sent = sent[1:] // (the first offered block is not on the node's chain, by the choice of k)
					structural = "first block not on the common ancestor"
				}
			case "invalid-inside":
				i := rapid.IntRange(0, len(sent)-1).Draw(t, "badAt")
				bad := sim.WireCopy(sent[i].Block)
				if bad.Header.ProposedHeader != nil {
					bad.Header.ProposedHeader.Root[5] ^= 4
				} else {
					bad.Header.EmptyBlockHeader.Root[5] ^= 4
				}
				sent[i] = types.BlockBundle{Block: bad, Cert: sent[i].Cert}
				structural = "invalid block inside"
			case "reversed":
				for i, j := 0, len(sent)-1; i < j; i, j = i+1, j-1 {
					sent[i], sent[j] = sent[j], sent[i]
				}
			}
			if structural == "" && edit != "reversed" {
				edit = "none"
			}
			evid.Count("seq.edit." + edit)
			mustRefuse := certBad
			if structural != "" {
				mustRefuse = structural
			}
			if lastRefused {
				refusedThenOffer++
			}
			label := fmt.Sprintf("offer(%s[%d..%d] of %d, node at +%d, certs=[%s] edit=%s)", br.name, k+1, k+upto, len(br.blocks), ownLen, shapes, edit)
			last = &sentOffer{j: j, part: part, list: append([]types.BlockBundle{}, sent...), mustRefuse: mustRefuse}
			if present(label, br, part, sent, mustRefuse, true) {
				if j != cur {
					everLeft[cur] = true
					if former {
						formerAdoptions++
						evid.Count("seq.adoption.back_on_a_former_branch")
					}
				}
				cur = j
			}
		}

		for round := rapid.IntRange(3, 7).Draw(t, "rounds"); round > 0; round-- {
			switch a := rapid.IntRange(0, 9).Draw(t, "action"); {
			case a <= 5: // a peer on another branch
				j := rapid.IntRange(0, len(branches)-2).Draw(t, "otherBranch")
				if j >= cur {
					j++
				}
				offer(j)
			case a == 6: // a peer that is ahead on the node's own branch answers the request
				offer(cur)
			case a <= 8:
				if lastRefused {
					refusedThenAdvance++
				}
				lastRefused = false
				advance()
			default: // the same answer once more (another peer relays it)
				if last == nil {
					advance()
					break
				}
				if lastRefused {
					refusedThenOffer++
				}
				// A verdict that rested on the shape of the list RELATIVE TO THE NODE'S CHAIN at the time of the first offer
				// (a list whose first block did not connect) does not carry over once the node has moved: if the first
				// block's parent is on the node's chain now, the same list is an ordinary continuation. No verdict then.
				if last.mustRefuse == "first block not on the common ancestor" && len(last.list) > 0 {
					first := last.list[0].Block
					if ph := own.Chain.GetBlockHeaderByHeight(first.Height() - 1); ph != nil && ph.Hash() == first.Header.ParentHash() {
						evid.Count("seq.offer.repeat_skipped.list_connects_to_the_node_now")
						advance()
						break
					}
				}
				evid.Count("seq.offer.repeated")
				if present("repeat", branches[last.j], last.part, append([]types.BlockBundle{}, last.list...), last.mustRefuse, false) {
					cur = last.j
				}
			}
		}
		evid.Count(fmt.Sprintf("seq.offers_per_case.%d", offers))
		evid.Count(fmt.Sprintf("seq.adoptions_per_case.%d", adoptions))
		if refusedThenAdvance > 0 {
			evid.Count("seq.after_refusal.node_advances_on_its_branch")
		}
		if refusedThenOffer > 0 {
			evid.Count("seq.after_refusal.next_offer")
		}
		if formerOffers > 0 {
			evid.Count("seq.case.offer_of_a_former_branch")
		}
		if formerAdoptions > 0 {
			evid.Count("seq.case.back_on_a_former_branch")
		}
		if offers >= 2 && adoptions >= 1 && hasContent {
			evid.NonTrivial("sequence|" + desc())
			if formerOffers > 0 {
				evid.Sample("sequence", desc())
			}
		}
	})
}

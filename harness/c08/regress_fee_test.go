package c08

import (
	"math/big"
	"testing"
	"time"

	"github.com/idena-network/idena-go/blockchain/types"
	"github.com/idena-network/idena-go/common"
	"github.com/idena-network/idena-go/consensus"
	"github.com/idena-network/idena-go/core/state"
	"github.com/idena-network/idena-go/stats/collector"

	"verifharness/internal/evid"
	"verifharness/internal/sim"
)

// Shrunk from a thorough run of TestForkAdoption: the node under test is on a branch of epoch 0 where nobody is
// validated yet (network size 0), the fork contains the block that finishes the first validation (network size > 0
// after it) and then a paid transaction. Transaction fees were computed from the network size of the node's own head
// instead of the state the fork block is applied to (zero network size means zero fee), so the node computed another
// state root for a valid fork block and refused the fork ("invalid block roots").
func TestRegressionForkAcrossFirstValidation(t *testing.T) {
	for outcome := uint64(1); outcome <= 60; outcome++ {
		if forkAcrossFirstValidation(t, outcome) {
			return
		}
	}
	t.Fatalf("test setup: no scripted outcome validates anybody")
}

func forkAcrossFirstValidation(t *testing.T, outcome uint64) bool {
	p := sim.Params{KeySeed: 33, NActors: 5, Profile: "v12", SwitchRng: 3, DelegRng: 3, DiscrRng: 3, SnapRng: 1000,
		Start: time.Date(2030, 1, 5, 12, 0, 0, 0, time.UTC).Unix(), CeremonyIn: 150, Interval: 3600, LotteryDur: 30, ShortDur: 30, LongDur: 30, Outcome: outcome}
	for i := 0; i < p.NActors; i++ {
		p.States = append(p.States, state.Candidate)
		p.Balances = append(p.Balances, sim.Dna(1000))
		p.Stakes = append(p.Stakes, big.NewInt(0))
	}
	w := sim.NewWorld(p)
	chainNode, err := w.AddReplica("chain", w.God.Key, nil)
	if err != nil {
		t.Fatal(err)
	}
	mk := func(name string, src *sim.Replica) *sim.Replica {
		r := &sim.Replica{W: w, Name: name, Key: w.God.Key, Addr: w.God.Addr, Loc: time.UTC, DB: sim.CopyDB(src.DB), Ipfs: src.Ipfs}
		if err := r.Start(); err != nil {
			t.Fatal(err)
		}
		return r
	}
	// one block on n at the next period boundary (or 20 s later), proposed by the god node, certified by its committee
	step := func(n *sim.Replica, txs ...*types.Transaction) types.BlockBundle {
		if b := w.NextBoundary(n.ReadState()); !b.IsZero() && b.After(w.Now()) && n.ReadState().State.Epoch() == 0 {
			w.SetNow(b.Add(time.Second))
		} else {
			w.Advance(20 * time.Second)
		}
		if min := time.Unix(n.Head().Time(), 0).Add(10 * time.Second); w.Now().Before(min) {
			w.SetNow(min)
		}
		if !n.CanPropose() {
			t.Fatalf("test setup: the god node cannot propose at %d", n.Head().Height()+1)
		}
		tmp := mk("tmp", n)
		for _, tx := range txs {
			if err := tmp.Pool.AddInternalTx(tx); err != nil {
				st := tmp.ReadState().State
				t.Fatalf("pool: %v (period %v, epoch %d, now %v, next validation %v)", err, st.ValidationPeriod(), st.Epoch(), w.Now().Unix(), st.NextValidationTime().Unix())
			}
		}
		blk := tmp.Propose().Block
		if len(blk.Body.Transactions) != len(txs) {
			t.Fatalf("block %d holds %d of %d txs", blk.Height(), len(blk.Body.Transactions), len(txs))
		}
		cert := w.MakeCert(n, blk, sim.CertValid)
		if err := n.AddBlock(blk); err != nil {
			t.Fatalf("block %s refused by its own side: %v", sim.BlockDesc(blk), err)
		}
		return types.BlockBundle{Block: blk, Cert: cert}
	}
	// common prefix: into the first validation, up to the period after the long session
	for chainNode.ReadState().State.ValidationPeriod() != state.AfterLongSessionPeriod {
		step(chainNode)
		if chainNode.Head().Height() > 30 {
			t.Fatalf("test setup: the ceremony never started")
		}
	}
	own := mk("own", chainNode)
	fork := mk("fork", chainNode)
	step(own) // the node under test is on its own branch, still in epoch 0 with nobody validated
	if own.AppState.ValidatorsCache.NetworkSize() != 0 {
		t.Fatalf("test setup: network size on the own branch is %d", own.AppState.ValidatorsCache.NetworkSize())
	}
	var bundles []types.BlockBundle
	for fork.ReadState().State.Epoch() == 0 {
		bundles = append(bundles, step(fork))
		if len(bundles) > 40 {
			t.Fatalf("test setup: the validation never finished")
		}
	}
	bundles = append(bundles, step(fork))
	if fork.AppState.ValidatorsCache.NetworkSize() == 0 {
		return false // this outcome table validates nobody: try the next one
	}
	// a paid transaction on the fork, then one more block
	to := common.Address{0xfe, 0x01}
	payer := w.Actors[1]
	tx, err := types.SignTx(&types.Transaction{Type: types.SendTx, Epoch: fork.ReadState().State.Epoch(), AccountNonce: 1, To: &to, Amount: sim.Dna(1), MaxFee: sim.Dna(500)}, payer.Key)
	if err != nil {
		t.Fatal(err)
	}
	before := fork.ReadState().State.GetBalance(payer.Addr)
	bundles = append(bundles, step(fork, tx))
	paid := new(big.Int).Sub(before, fork.ReadState().State.GetBalance(payer.Addr))
	if paid.Cmp(sim.Dna(1)) <= 0 {
		t.Fatalf("test setup: the transaction paid no fee on the fork (paid %v)", paid)
	}
	bundles = append(bundles, step(fork))
	evid.Eval()
	resolver := consensus.NewForkResolver(nil, nil, own.Chain, collector.NewStatsCollector())
	if err := resolver.VerifProcessBlocks(bundles); err != nil {
		t.Fatalf("a valid, certified, longer fork across the first validation (network size 0 on the own branch, %d on the fork) is refused: %v",
			fork.AppState.ValidatorsCache.NetworkSize(), err)
	}
	evid.Count("regression.fork_across_first_validation")
	evid.NonTrivial("regression.fork_across_first_validation")
	evid.Sample("regression", "fork across the first validation accepted")
	return true
}

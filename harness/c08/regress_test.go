package c08

import (
	"math/big"
	"testing"
	"time"

	"github.com/idena-network/idena-go/blockchain/attachments"
	"github.com/idena-network/idena-go/blockchain/types"
	"github.com/idena-network/idena-go/consensus"
	"github.com/idena-network/idena-go/core/state"
	"github.com/idena-network/idena-go/stats/collector"

	"verifharness/internal/evid"
	"verifharness/internal/sim"
)

// Shrunk/constructed failure: inside the fork the only online validator X goes
// offline at an identity-update block. The committee of the next fork block is
// therefore the god address, not X. Sub-chain validation used to keep the
// validator view of the common ancestor (it committed its check state without
// the identity diff), so a tip certificate signed by X alone - not a member of
// the committee of that block - was accepted as a quorum.
func TestRegressionForkCertifiedByStaleCommittee(t *testing.T) {
	p := sim.Params{KeySeed: 21, NActors: 4, Profile: "v12", SwitchRng: 3, DelegRng: 3, DiscrRng: 3, SnapRng: 1000,
		Start: time.Date(2030, 1, 5, 12, 0, 0, 0, time.UTC).Unix(), CeremonyIn: 100000, Interval: 3600, LotteryDur: 30, ShortDur: 30, LongDur: 30}
	p.States = []state.IdentityState{state.Verified, state.Verified, state.Verified, state.Verified}
	p.Balances = []*big.Int{sim.Dna(1000), sim.Dna(1000), sim.Dna(1000), sim.Dna(1000)}
	p.Stakes = []*big.Int{sim.Dna(10), sim.Dna(10), sim.Dna(10), sim.Dna(10)}
	w := sim.NewWorld(p)
	x, y, z := w.Actors[1], w.Actors[2], w.Actors[3]
	mk := func(name string, a *sim.Actor, src *sim.Replica) *sim.Replica {
		if src == nil {
			rr, err := w.AddReplica(name, a.Key, nil)
			if err != nil {
				t.Fatal(err)
			}
			return rr
		}
		r := &sim.Replica{W: w, Name: name, Key: a.Key, Addr: a.Addr, Loc: time.UTC, DB: sim.CopyDB(src.DB), Ipfs: src.Ipfs}
		if err := r.Start(); err != nil {
			t.Fatal(err)
		}
		return r
	}
	chainNode := mk("chain", w.God, nil)
	nonce := map[*sim.Actor]uint32{}
	status := func(a *sim.Actor, online bool) *types.Transaction {
		nonce[a]++
		tx, _ := types.SignTx(&types.Transaction{Type: types.OnlineStatusTx, AccountNonce: nonce[a], MaxFee: sim.Dna(100), Payload: attachments.CreateOnlineStatusAttachment(online)}, a.Key)
		return tx
	}
	// step produces one block on node n, proposed by an eligible actor (prefer), certified by the given signers
	step := func(n *sim.Replica, txs []*types.Transaction, prefer *sim.Actor, signers []*sim.Actor) (*types.Block, *types.BlockCert) {
		w.Advance(20 * time.Second)
		var proposer *sim.Actor
		for _, a := range w.Actors {
			vc := n.AppState.ValidatorsCache
			if vc.IsOnlineIdentity(a.Addr) || n.AppState.State.GodAddress() == a.Addr && vc.OnlineSize() == 0 {
				if proposer == nil || a == prefer {
					proposer = a
				}
			}
		}
		tmp := mk("tmp", proposer, n)
		for _, tx := range txs {
			if err := tmp.Pool.AddInternalTx(tx); err != nil {
				t.Fatalf("pool: %v", err)
			}
		}
		blk := tmp.Propose().Block
		if len(blk.Body.Transactions) != len(txs) {
			t.Fatalf("block %d holds %d of %d txs", blk.Height(), len(blk.Body.Transactions), len(txs))
		}
		var cert *types.BlockCert
		if len(signers) > 0 {
			cert = w.MakeCertBy(n, blk, signers)
		}
		if err := n.AddBlock(blk); err != nil {
			t.Fatalf("block %d refused: %v", blk.Height(), err)
		}
		return blk, cert
	}
	online := func(n *sim.Replica, a *sim.Actor) bool { return n.AppState.ValidatorsCache.IsOnlineIdentity(a.Addr) }
	// prefix: X, Y and Z go online
	step(chainNode, []*types.Transaction{status(x, true), status(y, true), status(z, true)}, nil, nil)
	for !(online(chainNode, x) && online(chainNode, y) && online(chainNode, z)) {
		step(chainNode, nil, nil, nil)
		if chainNode.Head().Height() > 12 {
			t.Fatalf("validators never came online")
		}
	}
	own := mk("own", w.God, chainNode)
	fork := mk("fork", w.God, chainNode)
	// fork: X and Y go offline again; while they are online, X, Y and Z are the committee (genuine certificates)
	all := []*sim.Actor{x, y, z}
	var bundles []types.BlockBundle
	blk, cert := step(fork, []*types.Transaction{status(x, false), status(y, false)}, z, all)
	bundles = append(bundles, types.BlockBundle{Block: blk, Cert: cert})
	for online(fork, x) || online(fork, y) {
		blk, cert = step(fork, nil, z, all)
		bundles = append(bundles, types.BlockBundle{Block: blk, Cert: cert})
		if len(bundles) > 8 {
			t.Fatalf("X and Y never went offline")
		}
	}
	// tip: only Z is online now, the committee of this block is {Z}. A dishonest peer builds the tip as if X and Y
	// were still online (rewards for the committee {X,Y,Z}, i.e. wrong state roots) and certifies it with the
	// signatures of X and Y: neither the block nor its certificate is valid on top of its parent.
	w.Advance(20 * time.Second)
	stale := own.AppState.ValidatorsCache.Clone() // the validator view at the common ancestor
	stale.RefreshIfUpdated(fork.AppState.State.GodAddress(), &types.Block{Header: &types.Header{EmptyBlockHeader: &types.EmptyBlockHeader{Height: fork.Head().Height()}}, Body: &types.Body{}}, nil)
	crafter := mk("crafter", z, fork)
	crafter.AppState.ValidatorsCache = stale
	bad := crafter.Propose().Block
	if err := fork.Validate(bad); err == nil {
		t.Fatalf("test setup: the crafted tip is valid, nothing to refuse")
	}
	bundles = append(bundles, types.BlockBundle{Block: bad, Cert: w.MakeCertBy(fork, bad, []*sim.Actor{x, y})})
	evid.Eval()
	resolver := consensus.NewForkResolver(nil, nil, own.Chain, collector.NewStatsCollector())
	if err := resolver.VerifProcessBlocks(bundles); err == nil {
		t.Fatalf("fork accepted although its tip is not valid on top of its parent (state roots computed for the validator set of the common ancestor) and its certificate holds no vote of the committee of that block (signed by two identities that went offline inside the fork)")
	}
}

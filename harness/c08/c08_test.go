package c08

import (
	"fmt"
	"sort"
	"testing"
	"time"

	"github.com/idena-network/idena-go/blockchain/types"
	"github.com/idena-network/idena-go/blockchain/validation"
	"github.com/idena-network/idena-go/common"
	"github.com/idena-network/idena-go/consensus"
	"github.com/idena-network/idena-go/core/state"
	"github.com/idena-network/idena-go/core/validators"
	"github.com/idena-network/idena-go/stats/collector"
	"pgregory.net/rapid"

	"verifharness/internal/evid"
	"verifharness/internal/sim"
)

func TestMain(m *testing.M) { evid.Main(m) }

func copyOf(t *rapid.T, w *sim.World, src *sim.Replica, name string, key *sim.Actor) *sim.Replica {
	r := &sim.Replica{W: w, Name: name, Key: key.Key, Addr: key.Addr, DB: sim.CopyDB(src.DB), Ipfs: src.Ipfs, Loc: time.UTC}
	if err := r.Start(); err != nil {
		t.Fatalf("start %s: %v", name, err)
	}
	return r
}

// extend builds one more block on side's head (proposed by an eligible actor,
// through a temporary node holding that actor's key, or empty) and returns it
// together with a certificate built before insertion.
func extend(t *rapid.T, w *sim.World, side *sim.Replica, certMode func(blk *types.Block) sim.CertMode, only []types.TxType) (*types.Block, *types.BlockCert, sim.CertMode) {
	w.Advance(time.Duration(rapid.IntRange(10, 40).Draw(t, "dt")) * time.Second)
	if min := time.Unix(side.Head().Time(), 0).Add(10 * time.Second); w.Now().Before(min) {
		w.SetNow(min)
	}
	var blk *types.Block
	var eligible []*sim.Actor
	vc := side.AppState.ValidatorsCache
	for _, a := range w.Actors {
		if vc.IsOnlineIdentity(a.Addr) || side.AppState.State.GodAddress() == a.Addr && vc.OnlineSize() == 0 {
			eligible = append(eligible, a)
		}
	}
	if len(eligible) > 0 && rapid.IntRange(0, 5).Draw(t, "emptyBlock") != 5 {
		a := eligible[rapid.IntRange(0, len(eligible)-1).Draw(t, "proposer")]
		tmp := copyOf(t, w, side, "tmp-proposer", a)
		for i := rapid.IntRange(0, 4).Draw(t, "nTx"); i > 0; i-- {
			tx, _ := w.GenTx(t, tmp, only)
			tmp.Pool.AddExternalTxs(validation.MempoolTx, tx)
		}
		blk = tmp.Propose().Block
	} else {
		blk = side.EmptyBlock()
	}
	mode := certMode(blk)
	var cert *types.BlockCert
	if mode == "stale-committee" {
		cert = staleCert(w, side, blk)
		if cert == nil {
			mode = sim.CertValid
		}
	}
	if cert == nil {
		m := mode
		if mode == sim.CertValid && rapid.IntRange(0, 1).Draw(t, "everyMemberSigns") == 1 {
			// a genuine certificate may carry more than the bare quorum: the votes of members that leave the
			// committee in this very block are genuine votes for it
			m = sim.CertValidAll
		}
		cert = w.MakeCert(side, blk, m)
	}
	if err := side.AddBlock(blk); err != nil {
		t.Fatalf("%s refuses its own honest block %s: %v", side.Name, sim.BlockDesc(blk), err)
	}
	return blk, cert, mode
}

// staleView is the validator view at the common ancestor. A certificate signed by members that were
// approved there but are not approved any more at the block in question (they went offline / were
// killed / delegated inside the fork) is NOT a quorum certificate for that block.
var staleView *validators.ValidatorsCache

func staleCert(w *sim.World, side *sim.Replica, blk *types.Block) *types.BlockCert {
	if staleView == nil {
		return nil
	}
	prev := side.Head()
	trueVC := side.AppState.ValidatorsCache
	trueCommittee := trueVC.GetOnlineValidators(prev.Seed(), blk.Height(), types.Final, side.Chain.GetCommitteeSize(trueVC, true))
	staleCommittee := staleView.GetOnlineValidators(prev.Seed(), blk.Height(), types.Final, side.Chain.GetCommitteeSize(staleView, true))
	if trueCommittee == nil || staleCommittee == nil {
		return nil
	}
	need := side.Chain.GetCommitteeVotesThreshold(staleView, true) - staleCommittee.VotesCountSubtrahend(side.Cfg.Consensus.AgreementThreshold)
	if need < 1 {
		need = 1
	}
	var voters []*sim.Actor
	for _, a := range w.Actors {
		if staleCommittee.Approved(a.Addr) && !trueCommittee.Approved(a.Addr) {
			voters = append(voters, a)
		}
	}
	if len(voters) < need {
		return nil
	}
	return w.MakeCertBy(side, blk, voters[:need])
}

var forkTypes = []types.TxType{types.SendTx, types.SendTx, types.OnlineStatusTx, types.OnlineStatusTx, types.DelegateTx, types.DelegateTx, types.KillTx, types.KillTx, types.InviteTx, types.ReplenishStakeTx,
	types.BurnTx, types.UndelegateTx, types.ChangeGodAddressTx, types.ChangeProfileTx, types.ChangeProfileTx, types.KillInviteeTx, types.KillDelegatorTx, types.ActivationTx, types.DeployContractTx, types.CallContractTx}

// A fork is adopted only if valid and certified; adoption equals a clean sync.
func TestForkAdoption(t *testing.T) {
	rapid.Check(t, func(t *rapid.T) {
		evid.Eval()
		// shared prefix
		h := sim.RunHistory(t, sim.Options{MinActors: 4, MaxActors: 9, Replicas: 1, MaxReplicas: 3, Steps: rapid.IntRange(4, 12).Draw(t, "prefix"), MaxTxPerStep: 5, OnlyTypes: forkTypes,
			Params: func(p *sim.Params) {
				p.CeremonyIn = 100000
				for i := range p.States {
					if i%2 == 1 {
						p.States[i] = state.Verified
						p.Stakes[i] = sim.Dna(int64(10 + i))
					}
				}
			}})
		w := h.W
		base := w.Replicas[0]
		own := copyOf(t, w, base, "own", w.God)       // the node under test
		forkSide := copyOf(t, w, base, "fork", w.God) // the peer on the other branch
		ref := copyOf(t, w, base, "reference", w.God) // only ever sees the fork
		common0 := base.Head().Height()
		staleView = base.AppState.ValidatorsCache.Clone()

		// own branch
		var ownBlocks []*types.Block
		for i := rapid.IntRange(0, 3).Draw(t, "ownLen"); i > 0; i-- {
			b, _, _ := extend(t, w, own, func(*types.Block) sim.CertMode { return sim.CertNil }, forkTypes)
			ownBlocks = append(ownBlocks, b)
		}
		// fork branch with drawn certificate shapes
		forkLen := rapid.IntRange(1, 6).Draw(t, "forkLen")
		var bundles []types.BlockBundle
		certBad := ""
		hasIdUpd, hasTx := false, false
		shapes := ""
		for i := 0; i < forkLen; i++ {
			tip := i == forkLen-1
			blk, cert, mode := extend(t, w, forkSide, func(blk *types.Block) sim.CertMode {
				needs := tip || blk.Header.Flags().HasFlag(types.IdentityUpdate)
				if needs {
					return sim.CertMode(rapid.SampledFrom([]string{"valid", "valid", "valid", "stale-committee", "stale-committee", "nil", "empty", "under-quorum", "forged", "wrong-hash", "duplicated-vote", "duplicated-vote"}).Draw(t, "requiredCert"))
				}
				return sim.CertMode(rapid.SampledFrom([]string{"nil", "nil", "empty", "valid", "forged", "under-quorum", "duplicated-vote"}).Draw(t, "optionalCert"))
			}, forkTypes)
			needs := tip || blk.Header.Flags().HasFlag(types.IdentityUpdate)
			if blk.Header.Flags().HasFlag(types.IdentityUpdate) {
				hasIdUpd = true
			}
			if len(blk.Body.Transactions) > 0 {
				hasTx = true
			}
			empty := cert == nil || cert.Empty()
			switch {
			case needs && empty:
				certBad = fmt.Sprintf("required certificate %s at fork block %d (%s)", mode, i, sim.BlockDesc(blk))
			case !empty && mode != sim.CertValid:
				certBad = fmt.Sprintf("%s certificate at fork block %d (%s)", mode, i, sim.BlockDesc(blk))
			}
			if mode == "stale-committee" {
				evid.Count("cert.stale_committee_generated")
			}
			if mode == sim.CertDuplicated && cert != nil && len(cert.Signatures) > 1 {
				evid.Count("cert.duplicated_vote_generated")
			}
			shapes += string(mode) + ","
			bundles = append(bundles, types.BlockBundle{Block: blk, Cert: cert})
		}
		evid.Count("cert.shapes." + map[bool]string{true: "all_fine", false: "some_bad"}[certBad == ""])
		// bundle list edits
		edit := rapid.SampledFrom([]string{"none", "none", "none", "gap", "duplicate", "drop-first", "invalid-inside", "reversed"}).Draw(t, "edit")
		sent := append([]types.BlockBundle{}, bundles...)
		structural := ""
		switch edit {
		case "gap":
			if len(sent) >= 3 {
				i := rapid.IntRange(1, len(sent)-2).Draw(t, "gapAt")
				sent = append(append([]types.BlockBundle{}, sent[:i]...), sent[i+1:]...)
				structural = "gap"
			}
		case "duplicate":
			i := rapid.IntRange(0, len(sent)-1).Draw(t, "dupAt")
			sent = append(sent, sent[i])
			structural = "duplicate height"
		case "drop-first":
			if len(sent) >= 2 {
				// (two empty blocks on the same parent are identical: then the own chain shares the dropped block
				// and the rest of the fork is on a common ancestor after all - not a negative)
				if o := own.Chain.GetBlockHeaderByHeight(sent[0].Block.Height()); o == nil || o.Hash() != sent[0].Block.Hash() {
					sent = sent[1:]
					structural = "first block not on the common ancestor"
				}
			}
		case "invalid-inside":
			i := rapid.IntRange(0, len(sent)-1).Draw(t, "badAt")
			data, _ := sent[i].Block.ToBytes()
			bad := new(types.Block)
			bad.FromBytes(data)
			if bad.Body == nil {
				bad.Body = &types.Body{}
			}
			if bad.Header.ProposedHeader != nil {
				bad.Header.ProposedHeader.Root[5] ^= 4
			} else {
				bad.Header.EmptyBlockHeader.Root[5] ^= 4
			}
			sent[i] = types.BlockBundle{Block: bad, Cert: sent[i].Cert}
			structural = "invalid block inside"
		case "reversed":
			for i, j := 0, len(sent)-1; i < j; i, j = i+1, j-1 {
				sent[i], sent[j] = sent[j], sent[i]
			} // the resolver sorts by height: not a defect of the bundle
		}
		evid.Count("edit." + edit)

		resolver := consensus.NewForkResolver(nil, nil, own.Chain, collector.NewStatsCollector())
		err := resolver.VerifProcessBlocks(sent)
		accepted := err == nil
		mustRefuse := certBad != "" || structural != ""
		tipHeight := bundles[len(bundles)-1].Block.Height()
		mustAccept := !mustRefuse && tipHeight > own.Head().Height()
		desc := fmt.Sprintf("common=%d own=+%d fork=+%d certs=[%s] edit=%s", common0, len(ownBlocks), forkLen, shapes, edit)
		if accepted && mustRefuse {
			why := certBad
			if structural != "" {
				why = structural
			}
			t.Fatalf("fork accepted although: %s (%s)\nprefix history:\n%s", why, desc, h.Summary())
		}
		if !accepted && mustAccept {
			branches := "own branch:"
			for _, b := range ownBlocks {
				branches += "\n  " + sim.BlockDesc(b) + fmt.Sprintf(" time=%d", b.Header.Time())
			}
			branches += "\nfork:"
			for _, b := range bundles {
				branches += "\n  " + sim.BlockDesc(b.Block) + fmt.Sprintf(" time=%d root=%x", b.Block.Header.Time(), b.Block.Root())
			}
			t.Fatalf("valid, certified, longer fork refused: %v (%s)\n%s\nprefix history:\n%s", err, desc, branches, h.Summary())
		}
		// the consensus engine and the downloader never see the error of processBlocks (it runs in the resolver's own
		// goroutine): they poll HasLoadedFork() and call ApplyFork(). The verdict has to be visible there.
		if loaded := resolver.HasLoadedFork(); loaded != accepted {
			if !loaded {
				t.Fatalf("the fork was accepted, but the resolver holds no fork for the engine (%s)", desc)
			}
			before := own.Head()
			_, aerr := resolver.ApplyFork()
			t.Fatalf("the fork was refused (%v), but the resolver reports a loaded fork; the engine's next turn applied it (err=%v): head %d %x -> %d %x, stored certificate of the new head empty=%v (%s)",
				err, aerr, before.Height(), before.Hash(), own.Head().Height(), own.Head().Hash(), own.Chain.GetCertificate(own.Head().Hash()).Empty(), desc)
		}
		if !accepted {
			evid.Count("verdict.refused")
			if mustRefuse && (hasIdUpd || hasTx) {
				evid.NonTrivial("refused|" + desc)
			}
			// a refused fork leaves the node on its own chain
			if own.Head().Height() != common0+uint64(len(ownBlocks)) {
				t.Fatalf("refusing a fork moved the head")
			}
			return
		}
		evid.Count("verdict.accepted")
		// adoption
		reverted, err := resolver.ApplyFork()
		if err != nil {
			t.Fatalf("ApplyFork of an accepted fork failed: %v (%s)", err, desc)
		}
		for _, b := range bundles {
			if err := ref.AddBlock(b.Block); err != nil {
				t.Fatalf("reference node refuses fork block %s: %v", sim.BlockDesc(b.Block), err)
			}
		}
		if own.Head().Hash() != ref.Head().Hash() || own.AppState.State.Root() != ref.AppState.State.Root() || own.AppState.IdentityState.Root() != ref.AppState.IdentityState.Root() {
			t.Fatalf("after adoption head/state differ from a node that followed the fork from the start (%s)", desc)
		}
		var addrs []common.Address
		for _, a := range w.Actors {
			addrs = append(addrs, a.Addr)
		}
		if d := sim.CompareVC(own.AppState.ValidatorsCache, ref.AppState.ValidatorsCache, addrs, w.Name, []types.Seed{{1}, {2}}); len(d) > 0 {
			t.Fatalf("after adoption the validator view differs from the reference node: %v (%s)\nprefix history:\n%s", d, desc, h.Summary())
		}
		maxH := tipHeight
		if x := common0 + uint64(len(ownBlocks)); x > maxH {
			maxH = x
		}
		for hh := common0 + 1; hh <= maxH+1; hh++ {
			a, b := own.Chain.GetBlockHeaderByHeight(hh), ref.Chain.GetBlockHeaderByHeight(hh)
			if (a == nil) != (b == nil) || a != nil && a.Hash() != b.Hash() {
				t.Fatalf("canonical block at height %d differs from the reference node after adoption (%s)", hh, desc)
			}
			da, db := own.Chain.GetIdentityDiff(hh), ref.Chain.GetIdentityDiff(hh)
			var ba, bb []byte
			if !da.Empty() {
				ba, _ = da.ToBytes()
			}
			if !db.Empty() {
				bb, _ = db.ToBytes()
			}
			if da.Empty() != db.Empty() || string(ba) != string(bb) {
				t.Fatalf("stored identity diff at height %d differs from the reference node after adoption (%s)", hh, desc)
			}
		}
		// abandoned blocks are gone by hash as well: a node that followed the fork from the start never stored them
		// (peers on the abandoned branch are answered from these look-ups)
		for _, b := range ownBlocks {
			if a, r := own.Chain.GetBlock(b.Hash()) != nil, ref.Chain.GetBlock(b.Hash()) != nil; a != r {
				t.Fatalf("abandoned block %s: found by hash after adoption = %v, on the reference node = %v (%s)", sim.BlockDesc(b), a, r, desc)
			}
			if b.IsEmpty() {
				evid.Count("adoption.abandoned_empty_block")
			}
		}
		onFork := map[common.Hash]bool{}
		for _, b := range bundles {
			for i, tx := range b.Block.Body.Transactions {
				onFork[tx.Hash()] = true
				got, idx := own.Chain.GetTx(tx.Hash())
				if got == nil || idx == nil || idx.BlockHash != b.Block.Hash() || int(idx.Idx) != i {
					t.Fatalf("tx index of fork tx %x wrong after adoption (%s)", tx.Hash(), desc)
				}
			}
		}
		// reverted transactions = transactions of the abandoned blocks
		var want, got []string
		for _, b := range ownBlocks {
			for _, tx := range b.Body.Transactions {
				want = append(want, tx.Hash().Hex())
			}
		}
		for _, tx := range reverted {
			got = append(got, tx.Hash().Hex())
		}
		sort.Strings(want)
		sort.Strings(got)
		if fmt.Sprint(want) != fmt.Sprint(got) {
			t.Fatalf("reverted transactions %v differ from the transactions of the abandoned blocks %v (%s)", got, want, desc)
		}
		if len(ownBlocks) > 0 {
			evid.Count("adoption.with_abandoned_blocks")
		}
		if len(want) > 0 {
			evid.Count("adoption.with_reverted_txs")
		}
		if hasIdUpd {
			evid.Count("adoption.fork_with_identity_update")
		}
		if hasIdUpd || hasTx {
			evid.NonTrivial("adopted|" + desc)
			evid.Sample("fork", desc)
		}
	})
}

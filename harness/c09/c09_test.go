package c09

import (
	"fmt"
	"testing"
	"time"

	"github.com/idena-network/idena-go/blockchain/attachments"
	"github.com/idena-network/idena-go/blockchain/types"
	"github.com/idena-network/idena-go/blockchain/validation"
	"github.com/idena-network/idena-go/common"
	"github.com/idena-network/idena-go/consensus"
	"github.com/idena-network/idena-go/stats/collector"
	dbm "github.com/tendermint/tm-db"
	"pgregory.net/rapid"

	"verifharness/internal/crashdb"
	"verifharness/internal/evid"
	"verifharness/internal/sim"
)

func TestMain(m *testing.M) { evid.Main(m) }

func nodeOn(t *rapid.T, w *sim.World, name string, db dbm.DB, like *sim.Replica) (*sim.Replica, error) {
	r := &sim.Replica{W: w, Name: name, Key: like.Key, Addr: like.Addr, DB: db, Ipfs: like.Ipfs, Loc: time.UTC}
	return r, r.Start()
}

// runCrashing executes op on node; it returns true when the injected crash fired.
func runCrashing(op func()) (crashed bool, other interface{}) {
	defer func() {
		if r := recover(); r != nil {
			if _, ok := r.(crashdb.Crash); ok {
				crashed = true
				return
			}
			other = r
		}
	}()
	op()
	return false, nil
}

// switchOnlineStatus offers an online status switch of a validated identity to every pool (mined by the next block,
// applied by the next identity-update block).
func switchOnlineStatus(t *rapid.T, h *sim.History) {
	base := h.W.Replicas[0]
	st := base.ReadState()
	var validated []*sim.Actor
	for _, a := range h.W.Actors {
		if st.ValidatorsCache.IsValidated(a.Addr) {
			validated = append(validated, a)
		}
	}
	if len(validated) == 0 || rapid.IntRange(0, 3).Draw(t, "noSwitch") == 0 {
		return
	}
	a := validated[rapid.IntRange(0, len(validated)-1).Draw(t, "switcher")]
	tx, err := types.SignTx(&types.Transaction{Type: types.OnlineStatusTx, Epoch: st.State.Epoch(), AccountNonce: base.AppState.NonceCache.GetNonce(a.Addr, st.State.Epoch()) + 1,
		MaxFee: sim.Dna(100), Payload: attachments.CreateOnlineStatusAttachment(!st.ValidatorsCache.IsOnlineIdentity(a.Addr))}, a.Key)
	if err != nil {
		return
	}
	for _, r := range h.W.Replicas {
		r.Pool.AddExternalTxs(validation.MempoolTx, sim.WireCopyTx(tx))
	}
	evid.Count("steer.online_status_switch_offered")
}

// A crash at any storage write during block insertion or reset-to-height
// leaves a node that restarts into a consistent chain and then follows the
// never-crashed twin: by the same next blocks, and (routes_test.go) by every
// other route a node takes to move on: the fork resolver and the full sync
// with a different honest block at the interrupted height, and a fast sync.
func TestCrashAtEveryWrite(t *testing.T) {
	rapid.Check(t, func(t *rapid.T) {
		// prefix + 4 more blocks on the never-crashed twin
		prefix := rapid.IntRange(3, 14).Draw(t, "prefix")
		// steered histories (one of two): validated identities keep switching their online status, so that blocks that
		// change the identity state (and with it the validator set) are frequent, and the interrupted block is the
		// first of up to four candidates that has an identity state diff
		steer := rapid.Bool().Draw(t, "steerIdentityChanges")
		slack := 0
		if steer {
			slack = 3
		}
		images := map[int]dbm.DB{}
		heads := map[int]uint64{}
		opt := sim.Options{MinActors: 3, MaxActors: 8, Replicas: 1, MaxReplicas: 3, Steps: prefix + slack + 4, MaxTxPerStep: 6}
		// the committee certifies every block (votes are cast before the block is inserted)
		certs := map[common.Hash]*types.BlockCert{}
		opt.BeforeDeliver = func(h *sim.History, proposer *sim.Replica, blk *types.Block) bool {
			certs[blk.Hash()] = h.W.MakeCert(h.W.Replicas[0], blk, sim.CertValid)
			return true
		}
		opt.BetweenBlocks = func(h *sim.History) {
			if steer {
				switchOnlineStatus(t, h)
			}
			if i := len(h.Blocks); i >= prefix && i <= prefix+slack && images[i] == nil {
				images[i] = sim.CopyDB(h.W.Replicas[0].DB)
				heads[i] = h.W.Replicas[0].Head().Height()
			}
		}
		h := sim.RunHistory(t, opt)
		w := h.W
		twin := w.Replicas[0]
		at := prefix
		for i := prefix; i <= prefix+slack; i++ {
			if images[i] != nil && i < len(h.Blocks) && !twin.Chain.GetIdentityDiff(h.Blocks[i].Height()).Empty() {
				at = i
				break
			}
		}
		preImage, preHead := images[at], heads[at]
		if preImage == nil {
			t.Fatalf("no pre-image")
		}
		next := h.Blocks[at:] // interrupted block and the (at least three) blocks after it
		interrupted := next[0]
		scenario := rapid.SampledFrom([]string{"AddBlock", "AddBlock", "AddBlock", "ResetTo"}).Draw(t, "scenario")
		resetDepth := 0
		class := scenario
		var op func(n *sim.Replica)
		switch scenario {
		case "AddBlock":
			class += "[" + sim.FlagNames(interrupted.Header.Flags()) + "]"
			if len(interrupted.Body.Transactions) > 0 {
				class += "+txs"
			}
			if interrupted.IsEmpty() {
				class += "+empty"
			}
			op = func(n *sim.Replica) {
				if err := n.AddBlock(interrupted); err != nil {
					t.Fatalf("AddBlock on the crash node: %v", err)
				}
			}
		case "ResetTo":
			resetDepth = rapid.IntRange(1, 3).Draw(t, "resetDepth")
			if uint64(resetDepth) >= preHead {
				resetDepth = 1
			}
			class += fmt.Sprintf("[-%d]", resetDepth)
			op = func(n *sim.Replica) {
				if _, err := n.Chain.ResetTo(preHead - uint64(resetDepth)); err != nil {
					t.Fatalf("ResetTo on the crash node: %v", err)
				}
			}
		}
		// dry run: count the writes
		dry := crashdb.New(preImage)
		n0, err := nodeOn(t, w, "dry", dry, twin)
		if err != nil {
			t.Fatalf("start on the pre-image: %v", err)
		}
		dry.Arm(0)
		op(n0)
		W := dry.Writes()
		writeLog := append([]string{}, dry.Log...)
		evid.Count("scenario." + scenario)
		evid.CountN("writes.total", W)
		if W == 0 {
			t.Fatalf("operation %s issued no write", class)
		}
		// the routes offered to every restarted node besides the same next blocks: an honest alternative branch that
		// leaves the twin's chain right after the height the operation ends at when nothing is applied / everything is
		// rolled back (a different block at the interrupted height), and fast syncs
		certEvery := rapid.IntRange(1, 3).Draw(t, "certEvery")
		rt := &routes{w: w, like: twin, fsBack: rapid.IntRange(0, 2).Draw(t, "fastSyncBack"), context: func() string {
			return fmt.Sprintf("writes: %v\nhistory:\n%s", writeLog, h.Summary())
		}}
		rt.twin = &peerChain{name: "twin", src: twin, certs: certs, certEvery: certEvery}
		altBase, ownMax := preImage, 1
		rt.common = preHead
		if scenario == "ResetTo" {
			altBase, ownMax = dry.Image(), resetDepth
			rt.common = preHead - uint64(resetDepth)
		}
		rt.alt, rt.altBundles = buildAlt(t, w, altBase, twin, ownMax+1+rapid.IntRange(0, 1).Draw(t, "altExtra"), certEvery)
		interruptedDiff := scenario == "AddBlock" && !twin.Chain.GetIdentityDiff(interrupted.Height()).Empty()
		if interruptedDiff {
			evid.Count("scenario.AddBlock.with_identity_diff")
		}
		// every crash point 1..W, and W+1 = clean completion followed by a restart
		for k := 1; k <= W+1; k++ {
			evid.Eval()
			cdb := crashdb.New(preImage)
			n, err := nodeOn(t, w, "crash", cdb, twin)
			if err != nil {
				t.Fatalf("start: %v", err)
			}
			cdb.Arm(k)
			crashed, other := runCrashing(func() { op(n) })
			if other != nil {
				panic(other)
			}
			if crashed != (k <= W) {
				t.Fatalf("%s: crash point %d of %d: crashed=%v", class, k, W, crashed)
			}
			where := fmt.Sprintf("%s, crash before write %d of %d (%s)", class, k, W, func() string {
				if k <= W {
					return writeLog[k-1]
				}
				return "none: clean restart"
			}())
			// restart on the surviving image
			r, err := nodeOn(t, w, "restarted", sim.CopyDB(cdb.Image()), twin)
			if err != nil {
				t.Fatalf("start-up sequence fails after %s: %v\nwrites: %v\nhistory:\n%s", where, err, writeLog, h.Summary())
			}
			if r.Head().Root() != r.AppState.State.Root() || r.Head().IdentityRoot() != r.AppState.IdentityState.Root() {
				t.Fatalf("after restart head roots differ from the loaded state (%s)", where)
			}
			hh := r.Head().Height()
			switch scenario {
			case "AddBlock":
				if hh > interrupted.Height() || hh+100 < interrupted.Height() {
					t.Fatalf("after restart the head is at %d, interrupted height %d (%s)", hh, interrupted.Height(), where)
				}
				if k == W+1 && hh != interrupted.Height() {
					t.Fatalf("clean restart changed the head: %d, expected %d", hh, interrupted.Height())
				}
			case "ResetTo":
				if hh > preHead {
					t.Fatalf("after restart the head is at %d above the pre-reset head %d (%s)", hh, preHead, where)
				}
				if k == W+1 && hh != preHead-uint64(resetDepth) {
					t.Fatalf("clean restart changed the head: %d, expected %d", hh, preHead-uint64(resetDepth))
				}
			}
			if c := twin.Chain.GetBlockHeaderByHeight(hh); c == nil || c.Hash() != r.Head().Hash() {
				t.Fatalf("after restart the head at %d is not the canonical block (%s)", hh, where)
			}
			// catch up with the never-crashed twin
			for x := hh + 1; x <= twin.Head().Height(); x++ {
				b := twin.Chain.GetBlockByHeight(x)
				if b == nil {
					t.Fatalf("twin has no block %d", x)
				}
				if err := r.AddBlock(b); err != nil {
					t.Fatalf("restarted node refuses block %d after %s: %v\nwrites: %v\nhistory:\n%s", x, where, err, writeLog, h.Summary())
				}
			}
			if r.Head().Hash() != twin.Head().Hash() || r.AppState.State.Root() != twin.AppState.State.Root() || r.AppState.IdentityState.Root() != twin.AppState.IdentityState.Root() {
				t.Fatalf("restarted node does not reach the twin's head/state after %s", where)
			}
			rt.run(t, cdb.Image(), where, interruptedDiff)
			if k > 1 && k <= W {
				bucket := (k * 4) / (W + 1)
				evid.NonTrivial(fmt.Sprintf("%s|q%d|%s", class, bucket, writeLog[k-1][:3]))
				evid.Count("crash.inside_operation")
			}
		}
		evid.Sample("scenario", fmt.Sprintf("%s: %d writes: %v", class, W, writeLog))
		if interrupted.Header.Flags() != 0 && scenario == "AddBlock" {
			evid.Count("scenario.AddBlock.special_flag")
		}
		if len(interrupted.Body.Transactions) > 0 && scenario == "AddBlock" {
			evid.Count("scenario.AddBlock.with_txs")
		}
		_ = types.Final
	})
}

// A crash at any storage write while switching to a fork: the node restarts
// into a consistent chain (own branch, common ancestor or part of the fork),
// resolves the fork again if it is still on its own branch, and ends on the
// fork tip like a node that never crashed.
func TestCrashDuringForkSwitch(t *testing.T) {
	rapid.Check(t, func(t *rapid.T) {
		h := sim.RunHistory(t, sim.Options{MinActors: 3, MaxActors: 7, Replicas: 1, MaxReplicas: 3, Steps: rapid.SampledFrom([]int{0, 3, 4, 5, 0, 6, 7, 8, 9, 1, 2}).Draw(t, "prefix"), MaxTxPerStep: 5,
			Params: func(p *sim.Params) { p.CeremonyIn = 100000 }})
		w := h.W
		base := w.Replicas[0]
		own := w.CopyOf(t, base, "own", w.God)
		forkSide := w.CopyOf(t, base, "fork", w.God)
		ownLen := rapid.IntRange(0, 2).Draw(t, "ownLen")
		if base.Head().Height() == base.Chain.GenesisInfo().Genesis.Height() {
			// young chain forking right at its genesis block: the rollback target is the genesis state itself
			evid.Count("fork.common_ancestor_is_genesis")
			if ownLen > 0 {
				evid.Count("fork.rollback_to_genesis")
			}
		}
		commonHeight := base.Head().Height()
		certEvery := rapid.IntRange(1, 3).Draw(t, "certEvery")
		ownPeer := &peerChain{name: "own", src: own, certs: map[common.Hash]*types.BlockCert{}, certEvery: certEvery}
		forkPeer := &peerChain{name: "fork", src: forkSide, certs: map[common.Hash]*types.BlockCert{}, certEvery: certEvery}
		var backBundles []types.BlockBundle
		extendOwn := func() {
			blk, cert := w.Extend(t, own, nil, func(blk *types.Block) *types.BlockCert { return w.MakeCert(own, blk, sim.CertValid) })
			ownPeer.certs[blk.Hash()] = cert
			backBundles = append(backBundles, types.BlockBundle{Block: blk, Cert: cert})
		}
		for i := 0; i < ownLen; i++ {
			extendOwn()
		}
		forkLen := ownLen + rapid.IntRange(1, 3).Draw(t, "forkExtra")
		var bundles []types.BlockBundle
		for i := 0; i < forkLen; i++ {
			blk, cert := w.Extend(t, forkSide, nil, func(blk *types.Block) *types.BlockCert { return w.MakeCert(forkSide, blk, sim.CertValid) })
			forkPeer.certs[blk.Hash()] = cert
			bundles = append(bundles, types.BlockBundle{Block: blk, Cert: cert})
		}
		preImage := sim.CopyDB(own.DB)
		// after the image was taken the own branch grows beyond the fork (on the node that never crashed): the way back,
		// i.e. a different block at every height the interrupted switch was writing
		for i := ownLen; i < forkLen+1; i++ {
			extendOwn()
		}
		fsBack := rapid.IntRange(0, 2).Draw(t, "fastSyncBack")
		rt := &routes{w: w, like: own, context: func() string { return h.Summary() }}
		switchFork := func(n *sim.Replica) error {
			resolver := consensus.NewForkResolver(nil, nil, n.Chain, collector.NewStatsCollector())
			if err := resolver.VerifProcessBlocks(bundles); err != nil {
				return err
			}
			_, err := resolver.ApplyFork()
			return err
		}
		dry := crashdb.New(preImage)
		n0, err := nodeOn(t, w, "dry", dry, own)
		if err != nil {
			t.Fatalf("start: %v", err)
		}
		dry.Arm(0)
		if err := switchFork(n0); err != nil {
			// (the fork weight rule may refuse an equally long fork: nothing to crash)
			evid.Count("fork.refused")
			return
		}
		W := dry.Writes()
		writeLog := append([]string{}, dry.Log...)
		evid.Count("scenario.ApplyFork")
		evid.CountN("writes.total", W)
		for k := 1; k <= W+1; k++ {
			evid.Eval()
			cdb := crashdb.New(preImage)
			n, err := nodeOn(t, w, "crash", cdb, own)
			if err != nil {
				t.Fatalf("start: %v", err)
			}
			cdb.Arm(k)
			crashed, other := runCrashing(func() {
				if err := switchFork(n); err != nil {
					t.Fatalf("fork switch on the crash node: %v", err)
				}
			})
			if other != nil {
				panic(other)
			}
			if crashed != (k <= W) {
				t.Fatalf("crash point %d of %d: crashed=%v", k, W, crashed)
			}
			where := fmt.Sprintf("ApplyFork(own=+%d, fork=+%d), crash before write %d of %d", ownLen, forkLen, k, W)
			r, err := nodeOn(t, w, "restarted", sim.CopyDB(cdb.Image()), own)
			if err != nil {
				t.Fatalf("start-up sequence fails after %s: %v\nwrites: %v", where, err, writeLog)
			}
			if r.Head().Root() != r.AppState.State.Root() || r.Head().IdentityRoot() != r.AppState.IdentityState.Root() {
				t.Fatalf("after restart head roots differ from the loaded state (%s)", where)
			}
			// where is the node? on the fork (incl. the common ancestor) or still on its own branch
			onFork := false
			if c := forkSide.Chain.GetBlockHeaderByHeight(r.Head().Height()); c != nil && c.Hash() == r.Head().Hash() {
				onFork = true
			}
			onOwn := false
			if c := own.Chain.GetBlockHeaderByHeight(r.Head().Height()); c != nil && c.Hash() == r.Head().Hash() {
				onOwn = true
			}
			if !onFork && !onOwn {
				t.Fatalf("after restart the head %d is on neither branch (%s)", r.Head().Height(), where)
			}
			if !onFork {
				// still on the own branch: the fork is offered again
				if err := switchFork(r); err != nil {
					t.Fatalf("restarted node cannot switch to the fork after %s: %v", where, err)
				}
			}
			for x := r.Head().Height() + 1; x <= forkSide.Head().Height(); x++ {
				if err := r.AddBlock(forkSide.Chain.GetBlockByHeight(x)); err != nil {
					t.Fatalf("restarted node refuses fork block %d after %s: %v\nwrites: %v", x, where, err, writeLog)
				}
			}
			if r.Head().Hash() != forkSide.Head().Hash() || r.AppState.State.Root() != forkSide.AppState.State.Root() || r.AppState.IdentityState.Root() != forkSide.AppState.IdentityState.Root() {
				t.Fatalf("restarted node does not reach the fork tip state after %s", where)
			}
			// the other routes from the same image: back to the (now longer) own branch by the fork resolver, and a
			// fast sync along the chain(s) the restarted head is on
			{
				nb := rt.start(t, cdb.Image(), "back", where)
				restartHead := nb.Head()
				hh := restartHead.Height()
				identityAhead := nb.AppState.IdentityState.HasVersion(hh + 1)
				for x := hh + 1; x <= commonHeight; x++ {
					if err := nb.AddBlock(base.Chain.GetBlockByHeight(x)); err != nil {
						t.Fatalf("restarted node refuses block %d after %s: %v", x, where, err)
					}
				}
				rt.forkTo(t, nb, backBundles, commonHeight, own, where+", then back to the longer own branch")
				evid.Count("route.fork_switch.back_to_longer_own_branch")
				if onFork && hh > commonHeight {
					evid.Count("route.fork_switch.back_from_a_partly_applied_fork")
				}
				for _, p := range []*peerChain{forkPeer, ownPeer} {
					if !p.has(restartHead) || p.tip() <= hh {
						continue
					}
					target := p.tip() - uint64(fsBack)
					if target <= hh {
						target = p.tip()
					}
					rt.fastSyncTo(t, cdb.Image(), p, target, where+", then fast sync along the "+p.name+" branch")
					evid.Count("route.fork_switch.fastsync." + p.name)
					if identityAhead {
						evid.Count("route.fork_switch.fastsync.identity_tree_ahead_of_head")
					}
				}
			}
			if k > 1 && k <= W {
				evid.NonTrivial(fmt.Sprintf("ApplyFork|own=%d|fork=%d|q%d|%s", ownLen, forkLen, (k*4)/(W+1), writeLog[k-1][:3]))
				evid.Count("crash.inside_fork_switch")
			}
		}
		evid.Sample("scenario", fmt.Sprintf("ApplyFork own=+%d fork=+%d: %d writes", ownLen, forkLen, W))
	})
}

// A crash at any storage write while finishing a fast sync (preliminary
// identity state, header writes, snapshot import, atomic switch): the node
// restarts consistently (old head or synced head) and then reaches the
// source's head by applying blocks.
func TestCrashDuringFastSync(t *testing.T) { crashDuringFastSync(t, 6, 16, 5, 25) }

// The same with the snapshot more than the number of kept state versions (100) above the syncing node's head, which is
// when fast sync is used at all: after the switch no state version is shared between the old and the new trees, so a
// start-up that finds the head and the trees on different sides of the switch cannot repair itself.
func TestCrashDuringFastSyncLongGap(t *testing.T) { crashDuringFastSync(t, 106, 124, 1, 4) }

func crashDuringFastSync(t *testing.T, minSteps, maxSteps, maxTx, earlySamples int) {
	rapid.Check(t, func(t *rapid.T) {
		steps := rapid.IntRange(minSteps, maxSteps).Draw(t, "steps")
		earlyAt := rapid.IntRange(0, 4).Draw(t, "syncFrom")
		var early dbm.DB
		opt := sim.Options{MinActors: 3, MaxActors: 7, Replicas: 1, MaxReplicas: 3, Steps: steps, MaxTxPerStep: maxTx}
		certs := map[common.Hash]*types.BlockCert{}
		opt.BeforeDeliver = func(h *sim.History, proposer *sim.Replica, blk *types.Block) bool {
			certs[blk.Hash()] = h.W.MakeCert(h.W.Replicas[0], blk, sim.CertValid)
			return true
		}
		opt.BetweenBlocks = func(h *sim.History) {
			if len(h.Blocks) == earlyAt && early == nil {
				early = sim.CopyDB(h.W.Replicas[0].DB)
			}
		}
		h := sim.RunHistory(t, opt)
		w := h.W
		src := w.Replicas[0]
		target := src.Head().Height() - uint64(rapid.IntRange(0, 2).Draw(t, "snapshotBack"))
		like := &sim.Replica{Key: w.Actors[1].Key, Addr: w.Actors[1].Addr, Ipfs: src.Ipfs}
		dry := crashdb.New(early)
		n0, err := nodeOn(t, w, "dry", dry, like)
		if err != nil {
			t.Fatalf("start: %v", err)
		}
		if target <= n0.Head().Height() {
			return
		}
		oldHead := n0.Head().Height()
		dry.Arm(0)
		switchAt := 0
		if _, err := sim.FastSync(src, n0, target, func() { switchAt = dry.Writes() }); err != nil {
			t.Fatalf("fast sync against an honest source fails: %v\nhistory:\n%s", err, h.Summary())
		}
		W := dry.Writes()
		writeLog := append([]string{}, dry.Log...)
		evid.Count("scenario.FastSync")
		evid.CountN("writes.total", W)
		// every write from the switch on, and a drawn sample of the (many) writes before it
		points := map[int]bool{W + 1: true}
		for k := switchAt + 1; k <= W; k++ {
			points[k] = true
		}
		if target-oldHead > 101 {
			evid.Count("scenario.FastSync.gap_over_100")
		}
		for i := 0; i < earlySamples && switchAt > 0; i++ {
			points[rapid.IntRange(1, switchAt).Draw(t, "earlyPoint")] = true
		}
		// a node that restarts at its old head goes on with a fast sync again (resumed from the stored preliminary head, or
		// from scratch), to the same snapshot or to a later one
		rt := &routes{w: w, like: like, context: func() string { return h.Summary() }}
		srcPeer := &peerChain{name: "source", src: src, certs: certs, certEvery: rapid.IntRange(1, 3).Draw(t, "certEvery")}
		againTo := target
		if rapid.Bool().Draw(t, "laterSnapshot") {
			againTo = src.Head().Height()
		}
		for k := 1; k <= W+1; k++ {
			if !points[k] {
				continue
			}
			evid.Eval()
			cdb := crashdb.New(early)
			n, err := nodeOn(t, w, "crash", cdb, like)
			if err != nil {
				t.Fatalf("start: %v", err)
			}
			cdb.Arm(k)
			crashed, other := runCrashing(func() {
				if _, err := sim.FastSync(src, n, target, nil); err != nil {
					t.Fatalf("fast sync on the crash node: %v", err)
				}
			})
			if other != nil {
				panic(other)
			}
			if crashed != (k <= W) {
				t.Fatalf("crash point %d of %d: crashed=%v", k, W, crashed)
			}
			phase := "before the switch"
			if k > switchAt {
				phase = "inside the atomic switch"
			}
			if k == W+1 {
				phase = "clean"
			}
			where := fmt.Sprintf("FastSync(%d -> %d), crash before write %d of %d (%s)", oldHead, target, k, W, phase)
			r, err := nodeOn(t, w, "restarted", sim.CopyDB(cdb.Image()), like)
			if err != nil {
				t.Fatalf("start-up sequence fails after %s: %v\nlast writes: %v", where, err, writeLog[max(0, k-4):min(len(writeLog), k+1)])
			}
			if r.Head().Root() != r.AppState.State.Root() || r.Head().IdentityRoot() != r.AppState.IdentityState.Root() {
				t.Fatalf("after restart head roots differ from the loaded state (%s)", where)
			}
			hh := r.Head().Height()
			if hh != oldHead && hh != target {
				t.Fatalf("after restart the head is at %d, neither the old head %d nor the synced head %d (%s)", hh, oldHead, target, where)
			}
			if k == W+1 && hh != target {
				t.Fatalf("clean restart after a finished fast sync: head %d, expected %d", hh, target)
			}
			if c := src.Chain.GetBlockHeaderByHeight(hh); c == nil || c.Hash() != r.Head().Hash() {
				t.Fatalf("after restart the head at %d is not canonical (%s)", hh, where)
			}
			for x := hh + 1; x <= src.Head().Height(); x++ {
				if err := r.AddBlock(src.Chain.GetBlockByHeight(x)); err != nil {
					t.Fatalf("restarted node refuses block %d after %s: %v", x, where, err)
				}
			}
			if r.Head().Hash() != src.Head().Hash() || r.AppState.State.Root() != src.AppState.State.Root() || r.AppState.IdentityState.Root() != src.AppState.IdentityState.Root() {
				t.Fatalf("restarted node does not reach the source's head/state after %s", where)
			}
			if hh == oldHead {
				st := rt.fastSyncTo(t, cdb.Image(), srcPeer, againTo, where+", then fast sync again")
				evid.Count("route.fast_sync_again")
				if !st.fresh {
					evid.Count("route.fast_sync_again.resumed_from_preliminary_head")
				}
			}
			if k <= W {
				evid.NonTrivial(fmt.Sprintf("FastSync|%s|%d|%s", phase, (k*8)/(W+1), writeLog[k-1][:3]))
				if k > switchAt {
					evid.Count("crash.inside_atomic_switch")
				} else {
					evid.Count("crash.during_fast_sync_before_switch")
				}
			}
		}
		evid.Sample("scenario", fmt.Sprintf("FastSync %d->%d: %d writes, switch starts after write %d", oldHead, target, W, switchAt))
	})
}

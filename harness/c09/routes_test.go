package c09

import (
	"bytes"
	"fmt"
	"strings"

	"github.com/idena-network/idena-go/blockchain/types"
	"github.com/idena-network/idena-go/common"
	"github.com/idena-network/idena-go/consensus"
	"github.com/idena-network/idena-go/core/state"
	"github.com/idena-network/idena-go/core/state/snapshot"
	"github.com/idena-network/idena-go/core/validators"
	"github.com/idena-network/idena-go/stats/collector"
	dbm "github.com/tendermint/tm-db"
	"pgregory.net/rapid"

	"verifharness/internal/evid"
	"verifharness/internal/sim"
)

// The routes a restarted node can take to move on, besides being fed the same next blocks by AddBlock:
//   - the fork resolver with a fork whose common block is the restarted head (or below it),
//   - the full sync, which rolls the state back to the head after a refused block and asks for the block again,
//   - a fast sync (preliminary copy of the identity state of the head, certificates checked against the validators
//     of that copy, snapshot import, atomic switch).
// Every route runs on its own copy of the surviving image, and is compared with what an honest peer holds.

// peerChain is what an honest peer serves: the canonical chain of src and the certificates the committees issued.
type peerChain struct {
	name  string
	src   *sim.Replica
	certs map[common.Hash]*types.BlockCert
	// ordinary blocks at heights divisible by certEvery travel with their certificate (the last requested block and
	// blocks with the IdentityUpdate / Snapshot / NewGenesis flag always do)
	certEvery int
	cache     map[uint64]*servedBlock
}

func (p *peerChain) tip() uint64 { return p.src.Head().Height() }

func (p *peerChain) has(h *types.Header) bool {
	c := p.src.Chain.GetBlockHeaderByHeight(h.Height())
	return c != nil && c.Hash() == h.Hash()
}

func certRequired(hdr *types.Header) bool {
	return hdr.Flags().HasFlag(types.IdentityUpdate|types.Snapshot|types.NewGenesis) || hdr.ProposedHeader != nil && hdr.ProposedHeader.Upgrade > 0
}

type servedBlock struct {
	hdr       *types.Header
	cert      *types.BlockCert
	must      bool // the peer always sends the certificate along
	changeGod bool
}

func (p *peerChain) block(h uint64) (*servedBlock, error) {
	if b := p.cache[h]; b != nil && p.has(b.hdr) {
		return b, nil
	}
	hdr := p.src.Chain.GetBlockHeaderByHeight(h)
	if hdr == nil {
		return nil, fmt.Errorf("peer %s has no header %d", p.name, h)
	}
	b := &servedBlock{hdr: hdr, cert: p.certs[hdr.Hash()]}
	if blk := p.src.Chain.GetBlockByHeight(h); blk != nil && blk.Body != nil {
		for _, tx := range blk.Body.Transactions {
			if tx.Type == types.ChangeGodAddressTx {
				b.changeGod = true
			}
		}
	}
	// Both syncs check a certificate against the validator view of the last APPLIED block, and apply blocks only when
	// one with a certificate arrives: a peer that did not keep the certificate of a block that changes the validators
	// (identity state diff, god address) cannot be followed across it, crash or no crash. That is not the subject here:
	// the peers of this check send these certificates.
	b.must = certRequired(hdr) || !p.src.Chain.GetIdentityDiff(h).Empty() || b.changeGod
	if p.cache == nil {
		p.cache = map[uint64]*servedBlock{}
	}
	p.cache[h] = b
	return b, nil
}

// serve is the range element for height h of a request that ends at last.
func (p *peerChain) serve(h, last uint64) (*types.Header, *types.BlockCert, error) {
	b, err := p.block(h)
	if err != nil {
		return nil, nil, err
	}
	cert := b.cert
	must := b.must || h == last
	if must && cert.Empty() {
		return nil, nil, fmt.Errorf("harness: no certificate for block %d (%s) of peer %s", h, sim.FlagNames(b.hdr.Flags()), p.name)
	}
	if !must && (p.certEvery <= 0 || h%uint64(p.certEvery) != 0) {
		cert = nil
	}
	return b.hdr, cert, nil
}

// godChanges reports whether a block in (from, to] carries a god address change. The fast sync takes the god address
// (the only signer while nobody is online) from the state of its old head and cannot see it change before the
// snapshot is imported: certificates are not checked by the emulation along such a range (as sim.FastSync never does).
func (p *peerChain) godChanges(from, to uint64) bool {
	for h := from + 1; h <= to; h++ {
		if b, err := p.block(h); err == nil && b.changeGod {
			return true
		}
	}
	return false
}

const maxAttemptsPerBatch = 10 // protocol.MaxAttemptsCountPerBatch

// fullSyncLike brings dst to height `to` of the peer's chain the way protocol/full.go does, without the network:
// headers are validated against the previous one (certificate, when served, against the node's validators), deferred
// until a block with a certificate arrives, then inserted with a check state; a refused block rolls the state back to
// the head (appState.ResetTo(head)) and the range is requested again from that block, at most
// MaxAttemptsCountPerBatch times.
func fullSyncLike(dst *sim.Replica, p *peerChain, to uint64) (attempts int, refusals []string, err error) {
	type deferredBlock struct {
		hdr  *types.Header
		cert *types.BlockCert
	}
	var deferred []deferredBlock
	from := dst.Head().Height() + 1
	for attempt := 1; ; attempt++ {
		if attempt > maxAttemptsPerBatch {
			return attempt - 1, refusals, fmt.Errorf("number of attempts exceeded limit (%d): %s", maxAttemptsPerBatch, strings.Join(refusals, "; "))
		}
		checkState, err := dst.AppState.ForCheckWithOverwrite(dst.Head().Height())
		if err != nil {
			return attempt, refusals, fmt.Errorf("ForCheckWithOverwrite(%d): %w", dst.Head().Height(), err)
		}
		again := false
		for h := from; h <= to && !again; h++ {
			hdr, cert, err := p.serve(h, to)
			if err != nil {
				return attempt, refusals, err
			}
			prev := dst.Head()
			if len(deferred) > 0 {
				prev = deferred[len(deferred)-1].hdr
			}
			err = dst.Chain.ValidateHeader(hdr, prev)
			if err == nil && !cert.Empty() {
				err = dst.Chain.ValidateBlockCert(prev, hdr, cert, dst.AppState.ValidatorsCache, nil)
			}
			if err != nil {
				refusals = append(refusals, fmt.Sprintf("attempt %d: header %d: %v", attempt, h, err))
				from, again = h, true
				break
			}
			deferred = append(deferred, deferredBlock{hdr, cert})
			if cert.Empty() {
				continue
			}
			// applyDeferredBlocks
			list := deferred
			deferred = nil
			for _, b := range list {
				blk := p.src.Chain.GetBlockByHeight(b.hdr.Height())
				if blk == nil {
					return attempt, refusals, fmt.Errorf("peer %s has no block %d", p.name, b.hdr.Height())
				}
				blk = sim.WireCopy(blk)
				if err := dst.Chain.AddBlock(blk, checkState, collector.NewStatsCollector()); err != nil {
					refusals = append(refusals, fmt.Sprintf("attempt %d: block %d: %v", attempt, blk.Height(), err))
					if err2 := dst.AppState.ResetTo(dst.Head().Height()); err2 != nil {
						refusals = append(refusals, fmt.Sprintf("attempt %d: reset to the head %d: %v", attempt, dst.Head().Height(), err2))
					}
					from, again = blk.Height(), true
					break
				}
				if !b.cert.Empty() {
					dst.Chain.WriteCertificate(blk.Hash(), b.cert, true)
				}
				if err := checkState.FinalizePrecommit(blk); err != nil {
					refusals = append(refusals, fmt.Sprintf("attempt %d: finalize check state at %d: %v", attempt, blk.Height(), err))
					from, again = blk.Height()+1, true
					break
				}
			}
		}
		if !again {
			return attempt, refusals, nil
		}
	}
}

type fastSyncStart struct {
	fresh   bool        // no stored preliminary head: the sync starts from a preliminary copy of the head's identity state
	from    uint64      // the height the preliminary identity state stands for
	root    common.Hash // its root
	version uint64      // its tree version
}

// fastSyncLike brings dst to height target of the peer's chain the way protocol/fast.go does, without the network
// (sim.FastSync plus what that emulation leaves out: the certificates a peer serves are checked against the validators
// the sync maintains over its preliminary identity state, and stored).
func fastSyncLike(dst *sim.Replica, p *peerChain, target uint64) (start fastSyncStart, vc *validators.ValidatorsCache, err error) {
	src := p.src
	head := dst.Head()
	if target <= head.Height() || target > src.Head().Height() {
		return start, nil, fmt.Errorf("harness: bad target %d (head %d, peer head %d)", target, head.Height(), src.Head().Height())
	}
	// preConsuming
	var ids *state.IdentityStateDB
	if ph := dst.Chain.PreliminaryHead; ph != nil {
		if ids, err = dst.AppState.IdentityState.LoadPreliminary(ph.Height()); err != nil {
			dst.Chain.RemovePreliminaryHead(nil)
			dst.AppState.IdentityState.DropPreliminary()
			ids = nil
		} else {
			start.from = ph.Height()
			if target < start.from {
				return start, nil, fmt.Errorf("harness: preliminary head %d is above the target %d", start.from, target)
			}
		}
	}
	if ids == nil {
		dst.Chain.PreliminaryHead = head
		if ids, err = dst.AppState.IdentityState.CreatePreliminaryCopy(head.Height()); err != nil {
			return start, nil, fmt.Errorf("CreatePreliminaryCopy(%d): %w", head.Height(), err)
		}
		start.fresh, start.from = true, head.Height()
	}
	start.root, start.version = ids.Root(), ids.Version()
	vc = validators.NewValidatorsCache(ids, dst.AppState.State.GodAddress())
	vc.Load()
	checkCerts := !p.godChanges(head.Height(), target) // (a resumed sync keeps the god address of the old head, too)
	if !checkCerts {
		evid.Count("route.fastsync.certificates_unchecked_god_address_changes")
	}
	type deferredHeader struct {
		hdr  *types.Header
		cert *types.BlockCert
		diff *state.IdentityStateDiff
	}
	var deferred []deferredHeader
	addrCache := map[string]common.Address{}
	for h := start.from + 1; h <= target; h++ {
		hdr, cert, err := p.serve(h, target)
		if err != nil {
			return start, vc, err
		}
		// validateHeader
		prev := dst.Chain.PreliminaryHead
		if len(deferred) > 0 {
			prev = deferred[len(deferred)-1].hdr
		}
		if err := dst.Chain.ValidateHeader(hdr, prev); err != nil {
			return start, vc, fmt.Errorf("header %d: %w", h, err)
		}
		if !cert.Empty() && checkCerts {
			if err := dst.Chain.ValidateBlockCert(prev, hdr, cert, vc, addrCache); err != nil {
				return start, vc, fmt.Errorf("certificate of block %d (%s): %w", h, sim.FlagNames(hdr.Flags()), err)
			}
		}
		deferred = append(deferred, deferredHeader{hdr, cert, src.Chain.GetIdentityDiff(h)})
		if cert.Empty() {
			continue
		}
		// applyDeferredBlocks
		list := deferred
		deferred = nil
		for _, b := range list {
			ids.AddDiff(b.hdr.Height(), b.diff)
			if ids.Root() != b.hdr.IdentityRoot() {
				ids.Reset()
				return start, vc, fmt.Errorf("identity root is invalid at %d", b.hdr.Height())
			}
			if !b.diff.Empty() {
				// (protocol/fast.go drops this error; the version of a height the node keeps a header for is then missing
				// or, worse, a leftover of another block)
				if _, _, err := ids.CommitTree(int64(b.hdr.Height())); err != nil {
					return start, vc, fmt.Errorf("identity state of height %d cannot be saved: %w", b.hdr.Height(), err)
				}
			}
			if err := dst.Chain.AddHeaderUnsafe(b.hdr); err != nil {
				return start, vc, err
			}
			if !b.diff.Empty() {
				vc.UpdateFromIdentityStateDiff(b.diff)
			}
			dst.Chain.WriteIdentityStateDiff(b.hdr.Height(), b.diff)
			if !b.cert.Empty() {
				dst.Chain.WriteCertificate(b.hdr.Hash(), b.cert, true)
			}
		}
	}
	// postConsuming
	if dst.Chain.PreliminaryHead.Height() != target {
		return start, vc, fmt.Errorf("preliminary head is lower than manifest's head")
	}
	var buf bytes.Buffer
	root, err := src.AppState.State.WriteSnapshot2(target, &buf)
	if err != nil {
		return start, vc, fmt.Errorf("harness: WriteSnapshot2: %w", err)
	}
	if err := dst.AppState.State.RecoverSnapshot2(target, dst.Chain.PreliminaryHead.Root(), &buf); err != nil {
		return start, vc, fmt.Errorf("RecoverSnapshot2: %w", err)
	}
	if err := ids.SaveForcedVersion(target); err != nil {
		return start, vc, fmt.Errorf("SaveForcedVersion: %w", err)
	}
	if err := dst.Chain.AtomicSwitchToPreliminary(&snapshot.Manifest{Height: target, Root: root}); err != nil {
		return start, vc, fmt.Errorf("AtomicSwitchToPreliminary: %w", err)
	}
	return start, vc, nil
}

// routes is what is offered to every restarted node of one scenario.
type routes struct {
	w    *sim.World
	like *sim.Replica // key / ipfs of the crashed node
	// the chain of the never-crashed twin (the restarted head is on it) and an alternative honest chain that leaves the
	// twin's chain after height common: a different block at the interrupted height
	twin, alt  *peerChain
	altBundles []types.BlockBundle
	common     uint64
	fsBack     int // the fast sync ends this many blocks below the peer's head
	context    func() string
}

func sameAs(n *sim.Replica, ref *sim.Replica) bool {
	return n.Head().Hash() == ref.Head().Hash() && n.AppState.State.Root() == ref.AppState.State.Root() &&
		n.AppState.IdentityState.Root() == ref.AppState.IdentityState.Root() &&
		n.Head().Root() == n.AppState.State.Root() && n.Head().IdentityRoot() == n.AppState.IdentityState.Root()
}

// buildAlt extends a node started on the (never crashed) image base by n honest blocks built now, i.e. blocks that
// differ from the twin's blocks at the same heights, each certified by its committee.
func buildAlt(t *rapid.T, w *sim.World, base dbm.DB, like *sim.Replica, n int, certEvery int) (*peerChain, []types.BlockBundle) {
	side, err := nodeOn(t, w, "alt", sim.CopyDB(base), like)
	if err != nil {
		t.Fatalf("start the alternative branch: %v", err)
	}
	p := &peerChain{name: "alt", src: side, certs: map[common.Hash]*types.BlockCert{}, certEvery: certEvery}
	var bundles []types.BlockBundle
	for i := 0; i < n; i++ {
		blk, cert := w.Extend(t, side, nil, func(blk *types.Block) *types.BlockCert { return w.MakeCert(side, blk, sim.CertValid) })
		p.certs[blk.Hash()] = cert
		bundles = append(bundles, types.BlockBundle{Block: blk, Cert: cert})
	}
	return p, bundles
}

// start is the node start-up on a copy of the surviving image.
func (rt *routes) start(t *rapid.T, img dbm.DB, name, where string) *sim.Replica {
	n, err := nodeOn(t, rt.w, name, sim.CopyDB(img), rt.like)
	if err != nil {
		t.Fatalf("start-up sequence fails on a second start after %s: %v", where, err)
	}
	return n
}

// forkTo offers the honest fork (bundles, leaving the node's chain after height common, held by tip) to the fork
// resolver of n and applies it.
func (rt *routes) forkTo(t *rapid.T, n *sim.Replica, bundles []types.BlockBundle, common uint64, tip *sim.Replica, where string) {
	hh := n.Head().Height()
	for i, b := range bundles {
		if (certRequired(b.Block.Header) || i == len(bundles)-1) && b.Cert.Empty() {
			harnessLimit(fmt.Errorf("harness: no certificate for fork block %d", b.Block.Height()))
			return
		}
	}
	resolver := consensus.NewForkResolver(nil, nil, n.Chain, collector.NewStatsCollector())
	if err := resolver.VerifProcessBlocks(bundles); err != nil {
		t.Fatalf("restarted node (head %d) refuses an honest longer fork that leaves its chain after %d, after %s: %v\n%s", hh, common, where, err, rt.context())
	}
	if _, err := resolver.ApplyFork(); err != nil {
		t.Fatalf("restarted node (head %d) cannot switch to an honest fork that leaves its chain after %d (a different block at height %d), after %s: %v\n%s",
			hh, common, common+1, where, err, rt.context())
	}
	if !sameAs(n, tip) {
		t.Fatalf("restarted node does not reach the fork tip / its roots by the fork resolver after %s\n%s", where, rt.context())
	}
}

// fastSyncTo starts a node on a copy of img and fast-syncs it to height target of the peer's chain (the restarted head
// must be on that chain), restarts it and walks to the peer's head by AddBlock.
func (rt *routes) fastSyncTo(t *rapid.T, img dbm.DB, p *peerChain, target uint64, where string) fastSyncStart {
	n := rt.start(t, img, "fastsync", where)
	head := n.Head()
	hh := head.Height()
	st, _, err := fastSyncLike(n, p, target)
	if st.fresh && st.root != head.IdentityRoot() {
		t.Fatalf("restarted node (head %d): the fast sync starts from an identity state that is not the one of the head (tree version %d, root %x, head has %x) after %s\n%s",
			hh, st.version, st.root, head.IdentityRoot(), where, rt.context())
	}
	if harnessLimit(err) {
		return st // the harness could not build what an honest peer would serve (no key for a committee member): no verdict
	}
	if err != nil {
		t.Fatalf("restarted node (head %d) refuses what an honest peer (%s chain) serves to its fast sync to %d after %s: %v\n%s", hh, p.name, target, where, err, rt.context())
	}
	// the synced node is restarted (clean restart) and walks to the peer's head
	n2, err := nodeOn(t, rt.w, "fastsynced", sim.CopyDB(n.DB), rt.like)
	if err != nil {
		t.Fatalf("start-up after the fast sync to %d fails (%s): %v\n%s", target, where, err, rt.context())
	}
	if n2.Head().Height() != target || !p.has(n2.Head()) || n2.Head().Root() != n2.AppState.State.Root() || n2.Head().IdentityRoot() != n2.AppState.IdentityState.Root() {
		t.Fatalf("after the fast sync to %d the node is at %d / roots differ from the loaded state (%s)\n%s", target, n2.Head().Height(), where, rt.context())
	}
	for x := target + 1; x <= p.tip(); x++ {
		if err := n2.AddBlock(p.src.Chain.GetBlockByHeight(x)); err != nil {
			t.Fatalf("fast-synced restarted node refuses block %d after %s: %v\n%s", x, where, err, rt.context())
		}
	}
	if !sameAs(n2, p.src) {
		t.Fatalf("fast-synced restarted node does not reach the head / roots of the %s chain after %s\n%s", p.name, where, rt.context())
	}
	return st
}

// run takes every route from the surviving image img (each on its own copy). interruptedDiff says that the operation
// the crash interrupted was the insertion of a block that changes the identity state.
func (rt *routes) run(t *rapid.T, img dbm.DB, where string, interruptedDiff bool) {
	probe := rt.start(t, img, "probe", where)
	restartHead := probe.Head()
	hh := restartHead.Height()
	stateAhead := probe.AppState.State.HasVersion(hh + 1)
	identityAhead := probe.AppState.IdentityState.HasVersion(hh + 1)
	if stateAhead {
		evid.Count("restart.state_tree_ahead_of_head")
	}
	if identityAhead {
		evid.Count("restart.identity_tree_ahead_of_head")
	}
	onAlt := rt.alt != nil && rt.alt.has(restartHead)

	// route 1: fork resolver, fork = the alternative branch
	if rt.alt != nil {
		n := probe
		for x := n.Head().Height() + 1; x <= rt.common; x++ {
			if err := n.AddBlock(rt.twin.src.Chain.GetBlockByHeight(x)); err != nil {
				t.Fatalf("restarted node refuses block %d after %s: %v", x, where, err)
			}
		}
		fromHead := n.Head().Height() == rt.common
		rt.forkTo(t, n, rt.altBundles, rt.common, rt.alt.src, where)
		if fromHead {
			evid.Count("route.fork.from_the_restarted_head")
			if stateAhead {
				evid.Count("route.fork.from_the_restarted_head.state_tree_ahead")
			}
		} else {
			evid.Count("route.fork.with_rollback")
		}
	}

	// route 2: full sync onto the alternative branch (possible when the restarted head is on that chain, otherwise
	// the parent hash does not fit and the node goes to the fork resolver)
	if rt.alt != nil {
		if !onAlt {
			evid.Count("route.fullsync.not_applicable_head_on_own_block")
		} else {
			n := rt.start(t, img, "fullsync", where)
			attempts, refusals, err := fullSyncLike(n, rt.alt, rt.alt.tip())
			if !harnessLimit(err) {
				if err != nil {
					t.Fatalf("restarted node (head %d) cannot follow an honest peer by the full sync (a different block at height %d than the interrupted one) after %s: %v\n%s",
						hh, rt.common+1, where, err, rt.context())
				}
				if !sameAs(n, rt.alt.src) {
					t.Fatalf("restarted node does not reach the peer's head / roots by the full sync after %s (refusals: %v)\n%s", where, refusals, rt.context())
				}
				evid.Count("route.fullsync")
				if attempts > 1 {
					evid.Count("route.fullsync.refused_block_then_reset_to_head")
				}
			}
		}
	}

	// route 3: fast sync, along the twin's chain (the same next blocks) and along the alternative one
	for _, p := range []*peerChain{rt.twin, rt.alt} {
		if p == nil {
			continue
		}
		if !p.has(restartHead) {
			evid.Count("route.fastsync.not_applicable_head_on_own_block")
			continue
		}
		target := p.tip() - uint64(rt.fsBack)
		if target <= hh {
			target = p.tip()
		}
		if target <= hh {
			evid.Count("route.fastsync.nothing_to_sync")
			continue
		}
		rt.fastSyncTo(t, img, p, target, where)
		evid.Count("route.fastsync." + p.name)
		if identityAhead {
			evid.Count("route.fastsync.identity_tree_ahead_of_head")
			if interruptedDiff {
				evid.Count("route.fastsync.identity_tree_ahead_of_head.by_a_block_with_identity_diff")
			}
		}
	}
}

// harnessLimit: the error says that the harness itself could not produce an honest input (its messages start with
// "harness: "), e.g. a block for which it owns no committee key and hence cannot build a certificate. Such a route ends
// without a verdict; it is counted.
func harnessLimit(err error) bool {
	if err != nil && strings.Contains(err.Error(), "harness: ") {
		evid.Count("routes.ended_without_verdict.harness_cannot_build_the_honest_input")
		return true
	}
	return false
}

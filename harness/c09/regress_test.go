package c09

import (
	"fmt"
	"math/big"
	"testing"
	"time"

	"github.com/idena-network/idena-go/blockchain/types"
	"github.com/idena-network/idena-go/common"
	"github.com/idena-network/idena-go/core/state"
	"github.com/idena-network/idena-go/stats/collector"
	dbm "github.com/tendermint/tm-db"

	"verifharness/internal/crashdb"
	"verifharness/internal/evid"
	"verifharness/internal/sim"
)

// Shrunk failure of TestCrashAtEveryWrite (fast-sync route along the alternative chain), found on the tree before the
// repair of IdentityStateDB.LoadPreliminary: the process dies while block N = 4 (KillTx of a1: the identity state
// changes) is inserted, after the identity tree commit and before the head write. The restart is consistent at height
// 3, the identity tree keeps the version 4 of the block that never became the head. The network goes on with ANOTHER
// block 4; the restarted node fast-syncs onto that chain. The preliminary copy of the identity state used to keep the
// leftover version 4, so that the version of height 4 of the synced chain could not be saved:
//   - the sync ends at 4 (block 4' does not change identities): SaveForcedVersion(4) "was already saved to different
//     hash" (protocol/fast.go drops the error, the switch then loads the LEFTOVER as the identity state of head 4');
//   - block 4" changes other identities: CommitTree(4) fails the same way, the leftover stays the version of height 4.
func TestRegressionFastSyncOverLeftoverIdentityVersion(t *testing.T) {
	p := sim.Params{KeySeed: 31, NActors: 3, Profile: "v12", SwitchRng: 50, DelegRng: 50, DiscrRng: 50, SnapRng: 1000,
		Start: time.Date(2030, 1, 5, 12, 0, 0, 0, time.UTC).Unix(), CeremonyIn: 100000, Interval: 3600, LotteryDur: 30, ShortDur: 30, LongDur: 30}
	p.States = []state.IdentityState{state.Verified, state.Verified, state.Verified}
	p.Balances = []*big.Int{sim.Dna(1000), sim.Dna(1000), sim.Dna(1000)}
	p.Stakes = []*big.Int{sim.Dna(10), sim.Dna(10), sim.Dna(10)}
	w := sim.NewWorld(p)
	a, err := w.AddReplica("A", w.God.Key, nil)
	if err != nil {
		t.Fatal(err)
	}
	on := func(name string, db dbm.DB) *sim.Replica {
		r := &sim.Replica{W: w, Name: name, Key: w.God.Key, Addr: w.God.Addr, DB: db, Ipfs: a.Ipfs, Loc: time.UTC}
		if err := r.Start(); err != nil {
			t.Fatalf("start %s: %v", name, err)
		}
		return r
	}
	// extend builds, certifies and inserts one block on r (optionally with a KillTx of the given actor)
	extend := func(r *sim.Replica, pc *peerChain, killer *sim.Actor) *types.Block {
		w.Advance(20 * time.Second)
		if killer != nil {
			kill, _ := types.SignTx(&types.Transaction{Type: types.KillTx, AccountNonce: 1, MaxFee: sim.Dna(100)}, killer.Key)
			if err := r.Pool.AddInternalTx(kill); err != nil {
				t.Fatalf("pool: %v", err)
			}
		}
		blk := r.Propose().Block
		if killer != nil && len(blk.Body.Transactions) != 1 {
			t.Fatalf("setup: the kill transaction was not mined")
		}
		if pc != nil {
			pc.certs[blk.Hash()] = w.MakeCert(r, blk, sim.CertValid)
		}
		if err := r.AddBlock(blk); err != nil {
			t.Fatalf("add: %v", err)
		}
		return blk
	}
	extend(a, nil, nil)
	extend(a, nil, nil)
	pre := sim.CopyDB(a.DB)
	preHead := a.Head().Height() // 3 (the genesis block is block 1)
	// the two continuations of the network, built by nodes that never crashed
	sideEmptyDiff := &peerChain{name: "N' without identity changes", src: on("B", sim.CopyDB(pre)), certs: map[common.Hash]*types.BlockCert{}, certEvery: 1}
	sideOtherDiff := &peerChain{name: "N'' with other identity changes", src: on("C", sim.CopyDB(pre)), certs: map[common.Hash]*types.BlockCert{}, certEvery: 1}
	// the block the victim was inserting when it died
	interrupted := extend(a, nil, w.Actors[1])
	N := interrupted.Height()
	if a.Chain.GetIdentityDiff(N).Empty() {
		t.Fatalf("setup: the interrupted block has no identity diff")
	}
	extend(sideEmptyDiff.src, sideEmptyDiff, nil)
	extend(sideEmptyDiff.src, sideEmptyDiff, nil)
	if !sideEmptyDiff.src.Chain.GetIdentityDiff(N).Empty() {
		t.Fatalf("setup: block N' changes identities")
	}
	extend(sideOtherDiff.src, sideOtherDiff, w.Actors[2])
	extend(sideOtherDiff.src, sideOtherDiff, nil)
	if sideOtherDiff.src.Chain.GetIdentityDiff(N).Empty() {
		t.Fatalf("setup: block N'' has no identity diff")
	}

	insert := func(n *sim.Replica) {
		if err := n.Chain.AddBlock(sim.WireCopy(interrupted), nil, collector.NewStatsCollector()); err != nil {
			t.Fatalf("AddBlock on the crash node: %v", err)
		}
	}
	dry := crashdb.New(pre)
	n0 := on("dry", dry)
	dry.Arm(0)
	insert(n0)
	W := dry.Writes()
	leftovers := 0
	for k := 1; k <= W; k++ {
		cdb := crashdb.New(pre)
		n := on("crash", cdb)
		cdb.Arm(k)
		if crashed, other := runCrashing(func() { insert(n) }); other != nil || !crashed {
			t.Fatalf("crash point %d of %d: crashed=%v, %v", k, W, crashed, other)
		}
		r := on("restarted", sim.CopyDB(cdb.Image()))
		if r.Head().Height() != preHead || !r.AppState.IdentityState.HasVersion(N) {
			continue // not the image this test is about
		}
		leftovers++
		for _, c := range []struct {
			peer   *peerChain
			target uint64
		}{{sideEmptyDiff, N}, {sideEmptyDiff, N + 1}, {sideOtherDiff, N}, {sideOtherDiff, N + 1}} {
			evid.Eval()
			where := fmt.Sprintf("crash before write %d of %d of the insertion of block %d (KillTx), restart at %d, fast sync to %d of the chain %s", k, W, N, preHead, c.target, c.peer.name)
			n := on("fastsync", sim.CopyDB(cdb.Image()))
			head := n.Head()
			st, _, err := fastSyncLike(n, c.peer, c.target)
			if !st.fresh || st.root != head.IdentityRoot() {
				t.Fatalf("%s: the sync starts from an identity state that is not the one of the head (version %d)", where, st.version)
			}
			if err != nil {
				t.Fatalf("%s: %v", where, err)
			}
			n2 := on("fastsynced", sim.CopyDB(n.DB))
			hdr := c.peer.src.Chain.GetBlockHeaderByHeight(c.target)
			if n2.Head().Hash() != hdr.Hash() || n2.AppState.IdentityState.Root() != hdr.IdentityRoot() || n2.AppState.State.Root() != hdr.Root() {
				t.Fatalf("%s: after the sync and a restart the node is at %d, identity root %x (header %d of the peer has %x)", where, n2.Head().Height(), n2.AppState.IdentityState.Root(), c.target, hdr.IdentityRoot())
			}
			for x := c.target + 1; x <= c.peer.tip(); x++ {
				if err := n2.AddBlock(c.peer.src.Chain.GetBlockByHeight(x)); err != nil {
					t.Fatalf("%s: block %d is refused afterwards: %v", where, x, err)
				}
			}
			if !sameAs(n2, c.peer.src) {
				t.Fatalf("%s: the node does not reach the peer's head / roots", where)
			}
		}
	}
	if leftovers == 0 {
		t.Fatalf("setup: no crash point of the insertion leaves the identity tree ahead of the head")
	}
}

package c17

// Grades that do not count. The published qualification rules say whose grades of
// the long session are left out:
//
//   - since consensus v11: ALL grades (approves, increased grades and reports) of a
//     participant that reported 34 % of its flips or more, or approved nothing, or
//     gave more than one grade above D;
//   - before v11: the REPORTS of a participant that reported 34 % of its flips or more.
//
// "Left out" is checked as a metamorphic relation on the real ApplyNewEpoch: the
// same ledger and the same blocks, except that the long answers of every such
// participant carry no grade at all (before v11: no report) - the answers
// themselves stay - must give the same epoch result and the same roots. No
// threshold of the committee rules is modelled here; only who is ignored.

import (
	"fmt"
	"sort"
	"strings"
	"testing"

	"github.com/idena-network/idena-go/blockchain/attachments"
	"github.com/idena-network/idena-go/blockchain/types"
	"github.com/idena-network/idena-go/config"
	"github.com/idena-network/idena-go/core/ceremony"
	dbm "github.com/tendermint/tm-db"

	"verifharness/internal/evid"
)

const (
	ignoredTooManyReports = 1 << iota
	ignoredNoApprove
	ignoredTooManyIncreased
)

type graderView struct {
	Ident    int
	Msg      int // index of the original long answers message in Msgs
	Shard    int // index into tables
	Flips    []int
	Grades   []types.Grade
	Ignored  int    // reasons (0: the grades count)
	Twin     []byte // long answers payload without the ignored grades (nil: nothing to change)
	Reported int
}

type gradingViewT struct {
	V11     bool
	Graders []graderView
	Wiped   []int // indexes into Graders
	// shape counters (per flip of a shard): reports and approves that count, approves of ignored graders
	IgnoredApproveOnReportedFlip int // flips with >= 2 counting reports that an ignored grader approved (grade D or better)
	IgnoredPlainDOnReportedFlip  int // ... with exactly grade D
	FlipsWithCountingReports     int
}

func reasonNames(r int) string {
	var n []string
	if r&ignoredTooManyReports != 0 {
		n = append(n, "reports>=34%")
	}
	if r&ignoredNoApprove != 0 {
		n = append(n, "no approve")
	}
	if r&ignoredTooManyIncreased != 0 {
		n = append(n, ">1 increased grade")
	}
	return strings.Join(n, "+")
}

func (g *gradingViewT) describe(s *caseSpec) string {
	var x []string
	for _, k := range g.Wiped {
		gr := g.Graders[k]
		x = append(x, fmt.Sprintf("id%d (%s; long flips %v grades %v)", gr.Ident, reasonNames(gr.Ignored), gr.Flips, gr.Grades))
	}
	return "ignored: " + strings.Join(x, ", ")
}

// gradingView reads the grades recorded in blocks (the original long answers of
// every candidate, decoded with the chain's own answer codec) and decides by the
// rule above whose grades are ignored.
func gradingView(s *caseSpec, tables []ceremony.VerifC17Shard) *gradingViewT {
	g := &gradingViewT{V11: config.ConsensusVersions[s.Version].EnableUpgrade11}
	longMsg := map[int]int{}
	for mi, m := range s.Msgs {
		if m.Type == types.SubmitLongAnswersTx && !m.Dup {
			if _, ok := longMsg[m.From]; !ok {
				longMsg[m.From] = mi
			}
		}
	}
	for si, sh := range tables {
		type flipCount struct{ reports, approves, ignoredApproves, ignoredD int }
		perFlip := make([]flipCount, len(sh.Flips))
		for ci, addr := range sh.Candidates {
			idx := s.byAddr[addr]
			mi, ok := longMsg[idx]
			if !ok {
				continue
			}
			att := attachments.ParseLongAnswerBytesAttachment(s.Msgs[mi].Payload)
			list := sh.LongFlips[ci]
			if att == nil || len(att.Answers) == 0 || len(list) == 0 {
				continue
			}
			n := uint(len(list))
			answers := types.NewAnswersFromBits(n, att.Answers)
			gv := graderView{Ident: idx, Msg: mi, Shard: si, Flips: list}
			reported := map[int]bool{}
			hasApprove, increased := false, 0
			for j := uint(0); j < n; j++ {
				_, grade := answers.Answer(j)
				gv.Grades = append(gv.Grades, grade)
				if list[j] >= len(sh.Flips) {
					continue // placeholder flip of a shard without flips
				}
				switch {
				case grade == types.GradeReported:
					reported[list[j]] = true
				case grade != types.GradeNone:
					hasApprove = true
					if grade > types.GradeD {
						increased++
					}
				}
			}
			gv.Reported = len(reported)
			if float32(len(reported))/float32(n) >= 0.34 {
				gv.Ignored |= ignoredTooManyReports
			}
			if g.V11 {
				if !hasApprove {
					gv.Ignored |= ignoredNoApprove
				}
				if increased > 1 {
					gv.Ignored |= ignoredTooManyIncreased
				}
			}
			for j := range list {
				if list[j] >= len(sh.Flips) {
					continue
				}
				f := &perFlip[list[j]]
				grade := gv.Grades[j]
				switch {
				case grade == types.GradeReported && gv.Ignored == 0:
					f.reports++
				case grade >= types.GradeD && (gv.Ignored == 0 || !g.V11):
					f.approves++
				case grade >= types.GradeD:
					f.ignoredApproves++
					if grade == types.GradeD {
						f.ignoredD++
					}
				}
			}
			if gv.Ignored != 0 {
				// the same answers without the grades that do not count
				twin := types.NewAnswers(n)
				changed := false
				for j := uint(0); j < n; j++ {
					answer, grade := answers.Answer(j)
					switch answer {
					case types.Left:
						twin.Left(j)
					case types.Right:
						twin.Right(j)
					}
					drop := g.V11 || grade == types.GradeReported
					if grade != types.GradeNone {
						if drop {
							changed = true
						} else {
							twin.Grade(j, grade)
						}
					}
				}
				if bits := twin.Bytes(); changed && len(bits) > 0 { // empty bits would read as "sent no long answers"
					gv.Twin, _ = (&attachments.LongAnswerAttachment{Answers: bits, Proof: att.Proof, Key: att.Key, Salt: att.Salt}).ToBytes()
				}
			}
			g.Graders = append(g.Graders, gv)
			if gv.Twin != nil {
				g.Wiped = append(g.Wiped, len(g.Graders)-1)
			}
		}
		for _, f := range perFlip {
			if f.reports > 0 {
				g.FlipsWithCountingReports++
			}
			if f.reports >= 2 && f.ignoredApproves > 0 {
				g.IgnoredApproveOnReportedFlip++
			}
			if f.reports >= 2 && f.ignoredD > 0 {
				g.IgnoredPlainDOnReportedFlip++
			}
		}
	}
	return g
}

// wipedTwin evaluates the chain in which the long answers of all ignored graders
// carry none of the ignored grades (same senders, same arrival order, same blocks).
func wipedTwin(s *caseSpec, ledger dbm.DB, g *gradingViewT) outcome {
	t := *s
	t.Msgs = append([]message(nil), s.Msgs...)
	var who []string
	for _, k := range g.Wiped {
		gr := g.Graders[k]
		m := &t.Msgs[gr.Msg]
		m.Payload, m.tx = gr.Twin, nil
		who = append(who, fmt.Sprintf("id%d", gr.Ident))
	}
	t.signAll()
	n := freshNode(&t, ledger)
	deliver(n, t.blocks(t.Order1, t.Split1))
	sort.Strings(who)
	return n.evaluate(s, fmt.Sprintf("same chain, but the long answers of %s (grades ignored by the rules) carry no such grade", strings.Join(who, ", ")))
}

func (s *caseSpec) recordGrading(g *gradingViewT, o *outcome) {
	counting, reasons := 0, 0
	for _, gr := range g.Graders {
		if gr.Ignored == 0 {
			counting++
			if gr.Reported > 0 {
				evid.Count("grading.counting-grader-with-reports")
			}
		}
		reasons |= gr.Ignored
	}
	if counting > 0 {
		evid.Count("grading.case-with-counting-graders")
	}
	pre := ""
	if !g.V11 {
		pre = "pre-v11."
	}
	if reasons&ignoredTooManyReports != 0 {
		evid.Count("grading.ignored." + pre + "too-many-reports")
	}
	if reasons&ignoredNoApprove != 0 {
		evid.Count("grading.ignored.no-approve")
	}
	if reasons&ignoredTooManyIncreased != 0 {
		evid.Count("grading.ignored.too-many-increased-grades")
	}
	if len(g.Wiped) > 0 {
		evid.Count("grading.twin-without-ignored-grades-evaluated")
		if counting > 0 {
			evid.Count("grading.twin-evaluated-with-counting-graders-present")
		}
	}
	if g.FlipsWithCountingReports > 0 {
		evid.Count("grading.flip-with-counting-reports")
	}
	if g.IgnoredApproveOnReportedFlip > 0 {
		evid.Count("grading.ignored-approve-on-flip-with-2+-counting-reports")
	}
	if g.IgnoredPlainDOnReportedFlip > 0 {
		evid.Count("grading.ignored-plain-D-on-flip-with-2+-counting-reports")
	}
	if o.Failed {
		return
	}
	for _, sr := range o.res.ShardResults {
		for _, reason := range sr.BadAuthors {
			if reason == types.WrongWordsBadAuthor {
				evid.Count("grading.outcome-has-reported-flip")
				return
			}
		}
	}
}

// Plain scenario on the hand-made ceremony (consensus v12 and v10): one verified
// identity gives three increased grades (ignored since v11) and a plain D to a
// flip that two careful graders report; a second one reports half of its flips.
// The twin without their grades has to evaluate identically, and the scenario
// must contain the shape (an ignored approve on a flip with two counting reports).
func TestIgnoredGradesDoNotCount(t *testing.T) {
	for _, ver := range []config.ConsensusVerson{config.ConsensusV12, config.ConsensusV10} {
		evid.Eval()
		s := chainSpec(ver)
		s.Idents[2].Delegatee = nil
		tables := lotteryTables(s)
		parts := allFull(s)
		parts[6].Class = partAbsent
		parts[7].Grading = gradeOverIncrease
		parts[8].Grading = gradeOverReport
		s.Msgs = buildMessages(s, tables, parts)
		s.plainArrival()
		// hand-made grades on top of the generated ones: flip F = first long flip of identity 7 is reported by
		// identities 2 and 3 and gets a plain D from identity 7
		regrade := func(ident int, f func(list []int, grades []types.Grade)) {
			for _, sh := range tables {
				for ci, addr := range sh.Candidates {
					if s.byAddr[addr] != ident {
						continue
					}
					for mi := range s.Msgs {
						m := &s.Msgs[mi]
						if m.From != ident || m.Type != types.SubmitLongAnswersTx {
							continue
						}
						att := attachments.ParseLongAnswerBytesAttachment(m.Payload)
						list := sh.LongFlips[ci]
						old := types.NewAnswersFromBits(uint(len(list)), att.Answers)
						grades := make([]types.Grade, len(list))
						for j := range list {
							_, grades[j] = old.Answer(uint(j))
						}
						f(list, grades)
						na := types.NewAnswers(uint(len(list)))
						for j := range list {
							switch a, _ := old.Answer(uint(j)); a {
							case types.Left:
								na.Left(uint(j))
							case types.Right:
								na.Right(uint(j))
							}
							if grades[j] != types.GradeNone {
								na.Grade(uint(j), grades[j])
							}
						}
						m.Payload, _ = (&attachments.LongAnswerAttachment{Answers: na.Bytes(), Proof: att.Proof, Key: att.Key, Salt: att.Salt}).ToBytes()
					}
				}
			}
		}
		target := -1
		regrade(7, func(list []int, grades []types.Grade) {
			if len(list) < 3 {
				return
			}
			target = list[0]
			for j := range grades {
				grades[j] = types.GradeD
			}
			grades[1], grades[2] = types.GradeA, types.GradeB
		})
		if target < 0 {
			t.Fatalf("harness: identity 7 has fewer than three long flips")
		}
		for _, reporter := range []int{2, 3} {
			regrade(reporter, func(list []int, grades []types.Grade) {
				for j, f := range list {
					switch {
					case f == target:
						grades[j] = types.GradeReported
					case grades[j] == types.GradeReported || grades[j] > types.GradeD:
						grades[j] = types.GradeD
					}
				}
			})
		}
		g := gradingView(s, tables)
		if len(g.Wiped) == 0 || ver == config.ConsensusV12 && g.IgnoredPlainDOnReportedFlip == 0 {
			t.Fatalf("harness: the scenario does not contain the intended shape: %+v", g)
		}
		checkCase(t, s, tables)
		evid.Count("regression.ignored-grades-scenario-agrees")
	}
}

package c17

import (
	"fmt"
	"math/big"
	"strings"
	"testing"
	"time"

	"github.com/idena-network/idena-go/blockchain/attachments"
	"github.com/idena-network/idena-go/blockchain/types"
	"github.com/idena-network/idena-go/common"
	"github.com/idena-network/idena-go/common/vclock"
	"github.com/idena-network/idena-go/config"
	"github.com/idena-network/idena-go/core/ceremony"
	"github.com/idena-network/idena-go/core/state"
	"github.com/idena-network/idena-go/crypto"
	"pgregory.net/rapid"

	"verifharness/internal/evid"
	"verifharness/internal/sim"
)

type reporter interface {
	Fatalf(format string, args ...interface{})
	Helper()
}

func (s *caseSpec) setClock(i int) {
	off := int64(0)
	if len(s.Clocks) > 0 {
		off = s.Clocks[i%len(s.Clocks)]
	}
	vclock.Set(time.Unix(s.ValidationT+off, 0).UTC())
}

// lotteryTables runs the lottery on a ledger without ceremony transactions; the
// tables tell the generator which flips every candidate has to answer.
func lotteryTables(s *caseSpec) []ceremony.VerifC17Shard {
	saved := s.Msgs
	s.Msgs = nil
	defer func() { s.Msgs = saved }()
	s.setClock(0)
	n := freshNode(s, buildLedger(s))
	return n.vc.VerifC17Shards()
}

func deliver(n *node, blocks []*types.Block) {
	for _, b := range blocks {
		n.vc.VerifC17AddBlock(b)
	}
}

// checkCase evaluates the epoch in all variants and applies the oracle.
func checkCase(t reporter, s *caseSpec, tables []ceremony.VerifC17Shard) {
	t.Helper()
	defer func() {
		time.Local = time.UTC
		vclock.Reset()
	}()
	time.Local = time.UTC
	s.signAll()
	ledger := buildLedger(s)
	blocks1 := s.blocks(s.Order1, s.Split1)
	blocks2 := s.blocks(s.Order2, s.Split2)

	// (i) first evaluation
	s.setClock(0)
	n0 := freshNode(s, ledger)
	deliver(n0, blocks1)
	first := n0.evaluate(s, "first evaluation")
	if first.Panic != "" {
		t.Fatalf("case:\n%s\n%s\nApplyNewEpoch PANICKED (every node applying the validation-finished block crashes): %s", s.describe(), first.Stack, first.Panic)
	}
	outs := []*outcome{&first}

	// (ii) the same object again: per-height cache
	if _, _, ok := n0.vc.VerifC17Cached(epochHeight); !ok {
		t.Fatalf("harness: no cache entry for the evaluated height")
	}
	for k := 0; k < 2; k++ {
		o := n0.evaluate(s, fmt.Sprintf("re-evaluation #%d from the per-height cache", k+1))
		outs = append(outs, &o)
	}

	// (iii) restart between phases: blocks before the restart are handled by one object, the
	// database is reopened, answers restored and candidates recomputed from the epoch database
	{
		s.setClock(1)
		a := freshNode(s, ledger)
		deliver(a, blocks1[:s.RestartK])
		s.setClock(2)
		b := openNode(s, a.db)
		b.vc.VerifC17Restore()
		if !b.vc.VerifC17LotteryFinished() {
			t.Fatalf("harness: restarted node did not recompute the lottery")
		}
		if s.RestartK > 0 {
			deliver(b, blocks1[s.RestartK-1:s.RestartK]) // Initialize re-delivers the head block
		}
		deliver(b, blocks1[s.RestartK:])
		o := b.evaluate(s, fmt.Sprintf("node restarted after %d of %d blocks", s.RestartK, len(blocks1)))
		outs = append(outs, &o)
		o2 := b.evaluate(s, "restarted node, re-evaluation from cache")
		outs = append(outs, &o2)
	}

	// (iv) another arrival order / block split
	{
		s.setClock(3)
		n := freshNode(s, ledger)
		deliver(n, blocks2)
		o := n.evaluate(s, "other arrival order")
		outs = append(outs, &o)
	}

	// (v) another host time zone
	{
		time.Local = time.FixedZone("other", s.Zone)
		s.setClock(4)
		n := freshNode(s, ledger)
		deliver(n, blocks1)
		o := n.evaluate(s, fmt.Sprintf("host zone UTC%+ds", s.Zone))
		outs = append(outs, &o)
		time.Local = time.UTC
	}

	// (vi) independent nodes (fresh maps, fresh iteration orders)
	for k := 0; k < 6; k++ {
		s.setClock(5 + k)
		n := freshNode(s, ledger)
		deliver(n, blocks1)
		o := n.evaluate(s, fmt.Sprintf("independent node #%d", k+1))
		outs = append(outs, &o)
	}

	// (vii) a node that followed an abandoned branch, was reset (and possibly restarted) before the winning branch
	if s.Reset != nil {
		o := resetVariant(s, ledger, blocks1)
		outs = append(outs, &o)
	}

	// (viii) a node that also hears gossiped transactions which are not in its blocks
	if s.Mempool != nil {
		o := mempoolVariant(s, ledger, blocks1)
		outs = append(outs, &o)
	}

	// (ix) a node with another sync status (live / syncing / catching up with an old head) that handles the
	// blocks in the validation periods they were mined in (short session, long session, after long session)
	if s.Sync != nil {
		o := syncVariant(s, ledger)
		outs = append(outs, &o)
	}

	var diffs []string
	for _, o := range outs[1:] {
		if d := difference(s, &first, o); d != "" {
			diffs = append(diffs, d)
		}
	}

	if len(diffs) > 0 {
		t.Fatalf("case:\n%s\nfirst result:\n%s\nTWO EVALUATIONS OF THE SAME CHAIN DATA DISAGREE:\n%s", s.describe(), first.Canon, strings.Join(diffs, "\n"))
	}

	if v := statementOnOutcome(s, &first, tables); v != "" {
		t.Fatalf("case:\n%s\nresult:\n%s\nSTATEMENT BROKEN: %s", s.describe(), first.Canon, v)
	}

	// (x) the rule "grades of such a participant are ignored": the same chain with the ignored grades left out
	gr := gradingView(s, tables)
	if len(gr.Wiped) > 0 {
		s.setClock(11)
		o := wipedTwin(s, ledger, gr)
		if d := difference(s, &first, &o); d != "" {
			t.Fatalf("case:\n%s\nfirst result:\n%s\nGRADES THAT THE RULES SAY ARE IGNORED CHANGED THE EPOCH RESULT (%s):\n%s", s.describe(), first.Canon, gr.describe(s), d)
		}
	}
	s.recordGrading(gr, &first)
	if s.Sync != nil {
		s.recordSync()
	}
	s.record(&first, tables)
	if s.Reset != nil {
		s.recordReset(blocks1)
	}
	if s.Mempool != nil {
		s.recordMempool()
	}
}

// record counts the classes of a checked case and registers it as non-trivial
// when >=1 candidate was promoted, >=1 candidate failed and a delegated
// candidate took part.
func (s *caseSpec) record(o *outcome, tables []ceremony.VerifC17Shard) {
	longest, sensitive := delegationChains(s)
	evid.Count(fmt.Sprintf("chain.length-%d", longest))
	if len(sensitive) > 0 {
		evid.Count("chain.order-sensitive-shape")
		for _, c := range sensitive {
			if !o.Failed && o.After[s.Idents[c.A].Addr].NewbieOrBetter() && o.After[s.Idents[c.B].Addr].NewbieOrBetter() {
				// both delegations are candidates for transitive removal: the application order decides which one survives
				evid.Count("chain.order-sensitive-both-revalidated")
				break
			}
		}
	}
	candidates := map[common.Address]bool{}
	for _, sh := range tables {
		switch len(sh.Flips) {
		case 0:
			if len(sh.Candidates) > 0 {
				evid.Count("shard.zero-flips-with-candidates")
			} else {
				evid.Count("shard.zero-flips-no-candidates")
			}
		case 1:
			evid.Count("shard.one-flip")
		default:
			evid.Count("shard.many-flips")
		}
		for _, c := range sh.Candidates {
			candidates[c] = true
		}
	}
	if len(fliplessLongAnswers(s, tables)) > 0 {
		evid.Count("shard.zero-flips-with-long-answers-on-chain")
	}
	s.recordEvidence(tables)
	evid.Count(fmt.Sprintf("shards.%d", s.ShardsNum))
	evid.Count(fmt.Sprintf("consensus.v%d", s.Version))
	switch {
	case s.Epoch == 0:
		evid.Count("epoch.0")
	case s.Epoch < 93:
		evid.Count("epoch.1-92")
	default:
		evid.Count("epoch.93+")
	}
	evid.Count("variant.cache-hit")
	evid.Count(fmt.Sprintf("variant.restart-after-%s-blocks", map[bool]string{true: "0", false: "some"}[s.RestartK == 0]))
	if s.RestartK == len(s.Split1) {
		evid.Count("variant.restart-after-all-blocks")
	}
	dups := 0
	for _, m := range s.Msgs {
		if m.Dup {
			dups++
		}
	}
	if dups > 0 {
		evid.Count("arrival.with-conflicting-duplicates")
	}
	if dups > 1 {
		evid.Count("arrival.conflicting-duplicates-in-opposite-orders")
	}
	if fmt.Sprint(s.Order1) != fmt.Sprint(s.Order2) {
		evid.Count("arrival.orders-differ")
	}
	if o.Failed {
		evid.Count("outcome.failed-validation-nobody-validated")
		return
	}
	promoted, failed, delegated, delegatedValidated, kept := 0, 0, 0, 0, 0
	for i := range s.Idents {
		id := &s.Idents[i]
		after := o.After[id.Addr]
		evid.Count("transition." + stateName(id.State) + "->" + stateName(after))
		if !candidates[id.Addr] {
			continue
		}
		if improved(id.State, after) {
			promoted++
		} else if after.NewbieOrBetter() {
			kept++
		}
		if !after.NewbieOrBetter() {
			failed++
		}
		if effectiveDelegatee(id) != nil {
			delegated++
			if after.NewbieOrBetter() {
				delegatedValidated++
			}
		}
	}
	if promoted > 0 {
		evid.Count("outcome.some-promoted")
	}
	if failed > 0 {
		evid.Count("outcome.some-failed")
	}
	if delegated > 0 {
		evid.Count("outcome.delegated-candidate")
	}
	if delegatedValidated > 0 {
		evid.Count("outcome.delegated-candidate-validated")
	}
	if len(o.res.Pools) > 0 {
		evid.Count("outcome.pools-nonempty")
	}
	for _, sr := range o.res.ShardResults {
		if len(sr.BadAuthors) > 0 {
			evid.Count("outcome.bad-authors")
		}
		if len(sr.GoodInviters) > 0 {
			evid.Count("outcome.good-inviters")
		}
		if len(sr.ReportersToRewardByFlip) > 0 {
			evid.Count("outcome.reporters-rewarded")
		}
	}
	if promoted > 0 && failed > 0 && delegated > 0 {
		evid.NonTrivial(s.describe())
		evid.Sample("epoch", map[string]interface{}{"identities": len(s.Idents), "epoch": s.Epoch, "consensus": s.Version, "shards": s.ShardsNum, "messages": len(s.Msgs),
			"promoted": promoted, "failed": failed, "kept": kept, "delegatedCandidates": delegated, "longestDelegationChain": longest, "blocks": len(s.Split1), "restartAfter": s.RestartK})
	}
}

// recordEvidence counts the shapes in which approval by the own shard's evidence matters.
func (s *caseSpec) recordEvidence(tables []ceremony.VerifC17Shard) {
	appr := approvalModel(s, tables)
	if s.ShardsNum >= 2 && appr.ShardsWithMaps >= 2 {
		evid.Count("evidence.senders-in-2+-shards")
	}
	hasShort, hasLong := map[int]bool{}, map[int]bool{}
	for _, m := range s.Msgs {
		if m.Type == types.SubmitShortAnswersTx {
			hasShort[m.From] = true
		} else if m.Type == types.SubmitLongAnswersTx {
			hasLong[m.From] = true
		}
	}
	answeredNotApproved, foreignBit, pooled, noOwnMaps := false, false, false, false
	for _, sh := range tables {
		for _, a := range sh.Candidates {
			i := s.byAddr[a]
			if !hasShort[i] || !hasLong[i] || appr.Approved[i] || len(s.Idents[i].Flips) < int(s.Idents[i].Required) {
				continue
			}
			answeredNotApproved = true
			if appr.OwnMaps[i] == 0 {
				noOwnMaps = true
			}
			if appr.ForeignBitSet[i] {
				foreignBit = true
			}
			if appr.PooledApproves[i] {
				pooled = true
			}
		}
	}
	if answeredNotApproved {
		evid.Count("evidence.answered-but-not-approved-by-own-shard")
	}
	if noOwnMaps {
		evid.Count("evidence.answered-in-shard-without-any-map")
	}
	if foreignBit {
		evid.Count("evidence.answered-not-approved-but-bit-set-in-foreign-shard-map")
	}
	if pooled {
		evid.Count("evidence.answered-not-approved-but-maps-of-all-shards-pooled-would-approve")
	}
}

// ---------------------------------------------------------------------------
// generators
// ---------------------------------------------------------------------------

func pick(t *rapid.T, label string, weights ...int) int {
	total := 0
	for _, w := range weights {
		total += w
	}
	v := rapid.IntRange(0, total-1).Draw(t, label)
	for i, w := range weights {
		if v < w {
			return i
		}
		v -= w
	}
	return len(weights) - 1
}

func drawBytes(t *rapid.T, label string, n int) []byte {
	return rapid.SliceOfN(rapid.Byte(), n, n).Draw(t, label)
}

const (
	shardNormal = iota
	shardZeroFlips
	shardOneFlip
)

func drawLayout(t *rapid.T) *caseSpec {
	s := &caseSpec{}
	s.KeySeed = rapid.Uint64().Draw(t, "keySeed")
	n := rapid.IntRange(3, 30).Draw(t, "identities")
	s.Epoch = rapid.SampledFrom([]uint16{150, 93, 92, 3, 2, 1, 0}).Draw(t, "epoch")
	s.Version = rapid.SampledFrom([]config.ConsensusVerson{config.ConsensusV12, config.ConsensusV12, config.ConsensusV11, config.ConsensusV10, config.ConsensusV9}).Draw(t, "consensus")
	s.ShardsNum = uint32(rapid.SampledFrom([]int{1, 1, 1, 2, 2, 3}).Draw(t, "shards"))
	s.Period = rapid.SampledFrom([]state.ValidationPeriod{state.AfterLongSessionPeriod, state.LongSessionPeriod}).Draw(t, "period")
	s.ValidationT = 1893456000 + int64(rapid.IntRange(0, 7*86400).Draw(t, "validationTime"))
	s.LotterySeed = drawBytes(t, "lotterySeed", 32)
	copy(s.WordsSeed[:], drawBytes(t, "wordsSeed", 32))
	shardMode := make([]int, s.ShardsNum+1)
	for sh := 1; sh <= int(s.ShardsNum); sh++ {
		shardMode[sh] = pick(t, "shardMode", 6, 2, 2)
	}

	// delegation chain members are fixed first: their statuses are steered towards the re-validating ones
	chainLen := []int{0, 3, 2}[pick(t, "chainLen", 60, 30, 10)]
	if n < chainLen+1 {
		chainLen = 0
	}
	idxs := make([]int, n)
	for i := range idxs {
		idxs[i] = i
	}
	var chain []int
	if chainLen > 0 {
		chain = rapid.Permutation(idxs).Draw(t, "chainMembers")[:chainLen+1]
	}
	steer := chainLen > 0 && pick(t, "steerChainStatuses", 8, 2) == 0

	statuses := []state.IdentityState{state.Verified, state.Newbie, state.Candidate, state.Human, state.Suspended, state.Zombie, state.Invite, state.Undefined}
	oneFlipGiven := map[common.ShardId]bool{}
	for i := 0; i < n; i++ {
		key := sim.DeriveKey(s.KeySeed, i)
		id := identSpec{Key: key, Addr: crypto.PubkeyToAddress(key.PublicKey), Pub: crypto.FromECDSAPub(&key.PublicKey)}
		id.State = statuses[pick(t, "status", 5, 4, 4, 3, 2, 2, 1, 1)]
		if steer && (chainLen >= 2 && (i == chain[0] || i == chain[1])) {
			id.State = []state.IdentityState{state.Candidate, state.Suspended, state.Zombie}[pick(t, "chainStatus", 2, 1, 1)]
		}
		id.Shard = common.ShardId(1 + rapid.IntRange(0, int(s.ShardsNum)-1).Draw(t, "shard"))
		id.StoredId = id.Shard
		if s.ShardsNum == 1 && rapid.Bool().Draw(t, "storedShardZero") {
			id.StoredId = 0
		}
		canAuthor := id.State != state.Candidate && id.State != state.Invite && id.State != state.Undefined
		made := 0
		switch shardMode[id.Shard] {
		case shardNormal:
			if canAuthor {
				id.Required = []uint8{3, 4, 5, 0, 1}[pick(t, "required", 6, 1, 1, 1, 1)]
				switch pick(t, "made", 8, 1, 1) {
				case 0:
					made = int(id.Required)
				case 1:
					made = rapid.IntRange(0, int(id.Required)).Draw(t, "madeFewer")
				case 2:
					made = int(id.Required)
					if id.State == state.Verified {
						made++
					} else if id.State == state.Human {
						made += 2
					}
				}
			}
		case shardZeroFlips:
			if canAuthor && pick(t, "lackingInFlipless", 8, 2) == 1 {
				id.Required = 3
			}
		case shardOneFlip:
			if canAuthor && !oneFlipGiven[id.Shard] {
				oneFlipGiven[id.Shard] = true
				id.Required = uint8(rapid.IntRange(0, 1).Draw(t, "requiredOfSingleAuthor"))
				made = 1
			} else if canAuthor && pick(t, "lackingInOneFlip", 8, 2) == 1 {
				id.Required = 3
			}
		}
		for j := 0; j < made; j++ {
			cid := []byte{0x01, 0x55, byte(id.Shard), byte(i), byte(j), 0, 0, 0, 0, 0, 0, 0, 0}
			for k := 0; k < 8; k++ {
				cid[5+k] = byte(s.KeySeed >> (8 * k))
			}
			id.Flips = append(id.Flips, cid)
		}
		switch pick(t, "stake", 2, 1, 4) {
		case 0:
			id.Stake = big.NewInt(0)
		case 1:
			id.Stake = big.NewInt(int64(rapid.IntRange(1, 1000).Draw(t, "stakeWei")))
		default:
			id.Stake = sim.Dna(int64(rapid.IntRange(1, 3000).Draw(t, "stakeDna")))
		}
		switch pick(t, "balance", 2, 3) {
		case 0:
			id.Balance = big.NewInt(0)
		default:
			id.Balance = sim.Dna(int64(rapid.IntRange(1, 500).Draw(t, "balanceDna")))
		}
		if canAuthor {
			age := rapid.IntRange(0, 12).Draw(t, "age")
			if int(s.Epoch) >= age {
				id.Birthday = s.Epoch - uint16(age)
			}
		}
		if canAuthor {
			cnt := rapid.IntRange(0, 10).Draw(t, "scoresCount")
			if id.State != state.Newbie && cnt < 3 && pick(t, "shortHistory", 8, 2) == 0 {
				cnt += 3 // an identity verified earlier has usually solved flips in several epochs
			}
			mode := pick(t, "history", 5, 2, 2)
			for k := 0; k < cnt; k++ {
				switch mode {
				case 0:
					id.Scores = append(id.Scores, 0xC6)
				case 1:
					id.Scores = append(id.Scores, []byte{0x66, 0x06, 0x00}[pick(t, "poorScore", 1, 1, 1)])
				default:
					id.Scores = append(id.Scores, []byte{0xC6, 0xA6, 0x86, 0x66, 0x05}[pick(t, "mixedScore", 1, 1, 1, 1, 1)])
				}
			}
		}
		s.Idents = append(s.Idents, id)
	}
	s.index()

	outsider := func(k int) common.Address {
		key := sim.DeriveKey(s.KeySeed^0x9e3779b97f4a7c15, 1000+k)
		return crypto.PubkeyToAddress(key.PublicKey)
	}
	if pick(t, "god", 3, 1) == 0 {
		s.God = s.Idents[0].Addr
	} else {
		s.God = outsider(0)
	}
	for i := range s.Idents {
		id := &s.Idents[i]
		if (id.State == state.Candidate || id.State == state.Newbie) && rapid.Bool().Draw(t, "invited") {
			inv := &state.Inviter{EpochHeight: uint32(rapid.IntRange(0, 5000).Draw(t, "inviteEpochHeight"))}
			copy(inv.TxHash[:], drawBytes(t, "inviteTx", 4))
			j := rapid.IntRange(-1, n-1).Draw(t, "inviter")
			if j < 0 || j == i {
				inv.Address = s.God
			} else {
				inv.Address = s.Idents[j].Addr
			}
			id.Inviter = inv
		}
	}

	// pools and delegations
	inChain := map[int]bool{}
	for _, c := range chain {
		inChain[c] = true
	}
	for k := 0; k+1 < len(chain); k++ {
		d := s.Idents[chain[k+1]].Addr
		s.Idents[chain[k]].Delegatee = &d
	}
	var pools []common.Address
	for k, cnt := 0, rapid.IntRange(0, 3).Draw(t, "pools"); k < cnt; k++ {
		if pick(t, "poolKind", 4, 1) == 1 {
			pools = append(pools, outsider(1+k))
		} else {
			pools = append(pools, s.Idents[rapid.IntRange(0, n-1).Draw(t, "poolOwner")].Addr)
		}
	}
	isPool := map[common.Address]bool{}
	for _, p := range pools {
		isPool[p] = true
	}
	for i := range s.Idents {
		id := &s.Idents[i]
		if inChain[i] || isPool[id.Addr] || len(pools) == 0 || id.State == state.Undefined || id.State == state.Invite {
			continue
		}
		if pick(t, "delegates", 7, 3) == 1 {
			p := pools[rapid.IntRange(0, len(pools)-1).Draw(t, "pool")]
			id.Delegatee = &p
		}
	}
	if s.Version == config.ConsensusV9 {
		for i := range s.Idents {
			if s.Idents[i].Delegatee != nil && pick(t, "pendingUndelegation", 85, 15) == 1 {
				s.Idents[i].PendingUn = true
			}
		}
	}
	return s
}

func drawParticipation(t *rapid.T, s *caseSpec, tables []ceremony.VerifC17Shard) []participation {
	parts := make([]participation, len(s.Idents))
	for i := range parts {
		p := &parts[i]
		p.Class = pick(t, "participation", 62, 8, 6, 5, 5, 4, 3, 3)
		p.Skill = []int{100, 90, 75, 50, 0}[pick(t, "skill", 55, 15, 10, 10, 10)]
		p.Seed = rapid.Int64().Draw(t, "answerSeed")
		p.ShortBits = pick(t, "shortBits", 85, 5, 5, 3, 2)
		p.LongBits = pick(t, "longBits", 85, 5, 5, 3, 2)
		p.Evidence = pick(t, "sendsEvidence", 85, 15) == 0
		p.EvNoise = []int{0, 5, 30}[pick(t, "evidenceNoise", 70, 20, 10)]
		p.Grading = pick(t, "grading", 55, 15, 10, 10, 10)
	}
	// Several shards: in a good part of the cases one shard's own evidence does not approve candidates that
	// did answer (nobody of the shard sends a map, or a few answer hashes came late), while the other
	// shards' maps are plentiful and clean - approval has to be decided by the shard's own maps only.
	var populated []int
	for si, sh := range tables {
		if len(sh.Candidates) > 0 {
			populated = append(populated, si)
		}
	}
	if len(populated) >= 2 && pick(t, "quietShard", 5, 5) == 1 {
		quiet := populated[rapid.IntRange(0, len(populated)-1).Draw(t, "quietShardIdx")]
		mode := pick(t, "quietMode", 5, 3, 2) // nobody sends evidence / one sender, late hashes / only late hashes
		lateLeft := rapid.IntRange(1, 3).Draw(t, "lateHashes")
		sendersLeft := 1
		for si, sh := range tables {
			for _, a := range sh.Candidates {
				p := &parts[s.byAddr[a]]
				if si != quiet {
					if p.Class != partAbsent {
						p.Evidence, p.EvNoise = true, 0
					}
					continue
				}
				switch mode {
				case 0:
					p.Evidence = false
				case 1, 2:
					if mode == 1 {
						if p.Evidence && canSendEvidence(s, &s.Idents[s.byAddr[a]]) && p.Class != partAbsent {
							if sendersLeft == 0 {
								p.Evidence = false
							} else {
								sendersLeft--
							}
						}
					}
					p.EvNoise = 0
					if lateLeft > 0 && p.Class == partFull && rapid.Bool().Draw(t, "lateHash") {
						p.Class, p.Skill = partNoHash, 100
						p.ShortBits, p.LongBits = bitsWellFormed, bitsWellFormed
						lateLeft--
					}
				}
			}
		}
	}
	return parts
}

func invert(b []byte) []byte {
	if len(b) == 0 {
		return []byte{1}
	}
	res := make([]byte, len(b))
	for i := range b {
		res[i] = ^b[i]
	}
	return res
}

// conflictingDuplicate builds another message of the same type from the same
// sender with other content (variant distinguishes several duplicates).
func conflictingDuplicate(m message, variant byte) message {
	d := message{From: m.From, Type: m.Type, Dup: true}
	other := func(b []byte) []byte { // differs from the original and from the other variants in the lowest answer bits
		r := invert(b)
		r[len(r)-1] ^= 1 + variant
		return r
	}
	switch m.Type {
	case types.SubmitAnswersHashTx:
		d.Payload = invert(m.Payload)
		d.Payload[0] ^= variant
	case types.SubmitShortAnswersTx:
		if att := attachments.ParseShortAnswerBytesAttachment(m.Payload); att != nil {
			d.Payload = attachments.CreateShortAnswerAttachment(other(att.Answers), att.Rnd, 1)
		}
	case types.SubmitLongAnswersTx:
		if att := attachments.ParseLongAnswerBytesAttachment(m.Payload); att != nil {
			d.Payload, _ = (&attachments.LongAnswerAttachment{Answers: other(att.Answers), Proof: att.Proof, Key: att.Key, Salt: att.Salt}).ToBytes()
		}
	}
	if d.Payload == nil {
		d.Payload = append(append([]byte(nil), m.Payload...), 0x08, 1+variant)
	}
	return d
}

// opposeDuplicates makes the conflicting duplicates of a (sender, type) group
// arrive in the second order in the reverse of their relative order in the first
// one (originals stay first in both).
func (s *caseSpec) opposeDuplicates() {
	type key struct {
		from int
		typ  types.TxType
	}
	inFirst := map[key][]int{}
	for _, mi := range s.Order1 {
		if m := s.Msgs[mi]; m.Dup {
			k := key{m.From, m.Type}
			inFirst[k] = append(inFirst[k], mi)
		}
	}
	next := map[key]int{}
	for pos, mi := range s.Order2 {
		if m := s.Msgs[mi]; m.Dup {
			k := key{m.From, m.Type}
			seq := inFirst[k]
			s.Order2[pos] = seq[len(seq)-1-next[k]]
			next[k]++
		}
	}
}

func drawSplit(t *rapid.T, label string, n int) []int {
	if n == 0 {
		return []int{0}
	}
	blocks := rapid.IntRange(1, 5).Draw(t, label+"Blocks")
	split := make([]int, blocks)
	for i := 0; i < n; i++ {
		split[rapid.IntRange(0, blocks-1).Draw(t, label+"BlockOf")]++
	}
	return split
}

func drawArrival(t *rapid.T, s *caseSpec) {
	if len(s.Msgs) > 0 && pick(t, "duplicates", 70, 30) == 1 {
		var answerMsgs []int
		for i, m := range s.Msgs {
			if m.Type != types.EvidenceTx {
				answerMsgs = append(answerMsgs, i)
			}
		}
		if len(answerMsgs) > 0 {
			// several conflicting duplicates of ONE message: their relative order is permuted between the arrival orders
			src := answerMsgs[rapid.IntRange(0, len(answerMsgs)-1).Draw(t, "duplicateOf")]
			for k, cnt := 0, []int{2, 3, 1}[pick(t, "duplicateCount", 5, 3, 2)]; k < cnt; k++ {
				s.Msgs = append(s.Msgs, conflictingDuplicate(s.Msgs[src], byte(k)))
			}
		}
	}
	idx := make([]int, len(s.Msgs))
	for i := range idx {
		idx[i] = i
	}
	s.Order1 = validOrder(s, rapid.Permutation(idx).Draw(t, "order1"))
	s.Split1 = drawSplit(t, "split1", len(idx))
	if pick(t, "sameOrder", 9, 1) == 1 {
		s.Order2 = append([]int(nil), s.Order1...)
	} else {
		s.Order2 = validOrder(s, rapid.Permutation(idx).Draw(t, "order2"))
	}
	s.opposeDuplicates()
	s.Split2 = drawSplit(t, "split2", len(idx))
	s.RestartK = rapid.IntRange(0, len(s.Split1)).Draw(t, "restartAfterBlocks")
	s.Zone = rapid.SampledFrom([]int{14 * 3600, -12 * 3600, 5*3600 + 45*60, 9 * 3600, -3*3600 - 30*60}).Draw(t, "zone")
	for k := 0; k < 12; k++ {
		s.Clocks = append(s.Clocks, int64(rapid.IntRange(-3600, 3*3600).Draw(t, "nodeClock")))
	}
}

// TestEpochReproducible: generated ledgers and ceremonies, all evaluation variants.
func TestEpochReproducible(t *testing.T) {
	rapid.Check(t, func(t *rapid.T) {
		evid.Eval()
		s := drawLayout(t)
		tables := lotteryTables(s)
		parts := drawParticipation(t, s, tables)
		s.Msgs = buildMessages(s, tables, parts)
		drawArrival(t, s)
		drawReset(t, s, tables)
		drawMempool(t, s, tables)
		drawSync(t, s)
		checkCase(t, s, tables)
	})
}

package c17

// Chain resets: a node that first followed an abandoned branch X (with ceremony
// transactions of its own), was reset, then followed the winning branch W - and
// possibly was restarted from its database in between - must evaluate the epoch
// exactly like a node that only ever saw W.
//
// The node of this variant is initialised by the real ValidationCeremony.Initialize
// (bus subscriptions, restoreState, head block delivery); blocks and the reset reach
// it only as events on its bus (events.NewBlockEvent, events.BlockchainResetEvent with
// the transactions of the abandoned blocks in block order, as Blockchain.ResetTo
// publishes them).

import (
	"fmt"
	"testing"
	"time"

	"github.com/idena-network/idena-go/blockchain/attachments"
	"github.com/idena-network/idena-go/blockchain/types"
	"github.com/idena-network/idena-go/common/eventbus"
	"github.com/idena-network/idena-go/common/vclock"
	"github.com/idena-network/idena-go/config"
	"github.com/idena-network/idena-go/core/appstate"
	"github.com/idena-network/idena-go/core/ceremony"
	"github.com/idena-network/idena-go/core/mempool"
	"github.com/idena-network/idena-go/core/state"
	"github.com/idena-network/idena-go/database"
	"github.com/idena-network/idena-go/events"
	dbm "github.com/tendermint/tm-db"
	"pgregory.net/rapid"

	"verifharness/internal/evid"
	"verifharness/internal/sim"
)

type resetSpec struct {
	ForkAt  int       // blocks of the winning branch that both branches share
	XMsgs   []message // ceremony transactions mined only on the abandoned branch
	XKinds  []string  // per XMsgs entry: "alternative" (the sender's transaction of that type on W has other content) or "only-here" (no such transaction on W at all)
	XFromW  []int     // transactions of W (indices into Msgs, mined after the fork there) that the abandoned branch had mined too
	XOrder  []int     // arrival order on X over XFromW ++ XMsgs
	XSplit  []int     // block sizes on X
	WBefore int       // blocks of W delivered between the reset and the restart
	Restart bool
}

func (r *resetSpec) String() string {
	var x []string
	for i, m := range r.XMsgs {
		x = append(x, fmt.Sprintf("id%d type=%d %s payload=%x", m.From, m.Type, r.XKinds[i], m.Payload))
	}
	return fmt.Sprintf("forkAfterBlocks=%d abandonedOnly=%v alsoOnAbandoned=%v xOrder=%v xSplit=%v winningBlocksBeforeRestart=%d restart=%v", r.ForkAt, x, r.XFromW, r.XOrder, r.XSplit, r.WBefore, r.Restart)
}

func isAnswers(t types.TxType) bool {
	return t == types.SubmitShortAnswersTx || t == types.SubmitLongAnswersTx
}

// realNode starts a node the way node.Start does for the ceremony: the exported
// constructor and the real Initialize with the current head block.
func realNode(s *caseSpec, db dbm.DB, head *types.Block, clock int64) *realNodeT {
	deps()
	vclock.Set(time.Unix(s.ValidationT+3600+clock, 0).UTC()) // after the validation time: Initialize starts no short-session timer
	bus := eventbus.New()
	as, err := appstate.NewAppState(db, bus)
	if err != nil {
		panic(err)
	}
	if err := as.Initialize(ledgerHeight); err != nil {
		panic(err)
	}
	kp := mempool.NewKeysPool(db, as, bus, depSec)
	vc := ceremony.NewValidationCeremony(as, bus, depFlipper, depSec, db, nil, nil, idleSyncer{}, kp, nodeConfig(s))
	vc.Initialize(head)
	if !vc.VerifC17LotteryFinished() {
		panic("harness: Initialize did not run the lottery")
	}
	return &realNodeT{node: node{db: db, appState: as, vc: vc}, bus: bus}
}

type realNodeT struct {
	node
	bus eventbus.Bus
}

func (n *realNodeT) addBlocks(blocks []*types.Block) {
	for _, b := range blocks {
		n.bus.Publish(&events.NewBlockEvent{Block: b})
	}
}

func plainBlock(height uint64, t int64, txs []*types.Transaction) *types.Block {
	return &types.Block{Header: &types.Header{ProposedHeader: &types.ProposedHeader{Height: height, Time: t}}, Body: &types.Body{Transactions: txs}}
}

func (s *caseSpec) signReset() {
	r := s.Reset
	for i := range r.XMsgs {
		m := &r.XMsgs[i]
		if m.tx != nil {
			continue
		}
		tx := &types.Transaction{AccountNonce: uint32(10000 + i), Epoch: s.Epoch, Type: m.Type, Payload: m.Payload}
		signed, err := types.SignTx(tx, s.Idents[m.From].Key)
		if err != nil {
			panic(err)
		}
		m.tx = signed
	}
}

// resetVariant runs the scenario and returns the node's evaluation.
func resetVariant(s *caseSpec, ledger dbm.DB, blocksW []*types.Block) outcome {
	r := s.Reset
	s.signReset()
	db := sim.CopyDB(ledger)
	// the lottery block came before: its seed is in the epoch database (handleFlipLotteryPeriod)
	database.NewEpochDb(db, s.Epoch).WriteLotterySeed(append([]byte(nil), s.LotterySeed...))
	genesisLike := plainBlock(90, s.ValidationT-60, nil)
	n := realNode(s, db, genesisLike, 0)
	n.addBlocks(blocksW[:r.ForkAt])

	// abandoned branch
	var xBlocks []*types.Block
	var reverted []*types.Transaction
	pos := 0
	for bi, size := range r.XSplit {
		var txs []*types.Transaction
		for k := 0; k < size; k++ {
			o := r.XOrder[pos]
			pos++
			if o < len(r.XFromW) {
				txs = append(txs, s.Msgs[r.XFromW[o]].tx)
			} else {
				txs = append(txs, r.XMsgs[o-len(r.XFromW)].tx)
			}
		}
		xBlocks = append(xBlocks, plainBlock(uint64(100+r.ForkAt+bi), s.ValidationT+int64(20*(r.ForkAt+bi))+7, txs))
		reverted = append(reverted, txs...)
	}
	n.addBlocks(xBlocks)

	// reset to the fork point (Blockchain.ResetTo: head = fork block, transactions of the abandoned blocks in block order)
	head := genesisLike
	if r.ForkAt > 0 {
		head = blocksW[r.ForkAt-1]
	}
	n.bus.Publish(&events.BlockchainResetEvent{Header: head.Header, RevertedTxs: reverted})

	rest := blocksW[r.ForkAt:]
	n.addBlocks(rest[:r.WBefore])
	label := fmt.Sprintf("node that followed an abandoned branch (%d blocks, %d txs), was reset", len(xBlocks), len(reverted))
	if r.Restart {
		if r.WBefore > 0 {
			head = rest[r.WBefore-1]
		}
		n = realNode(s, db, head, 60) // the old objects are dropped; Initialize delivers the head block again
		label += fmt.Sprintf(" and restarted after %d further blocks", r.WBefore)
	}
	n.addBlocks(rest[r.WBefore:])
	return n.evaluate(s, label)
}

func (s *caseSpec) recordReset(blocksW []*types.Block) {
	r := s.Reset
	if r.Restart {
		evid.Count("reset.then-restart")
	} else {
		evid.Count("reset.only")
	}
	if len(r.XFromW)+len(r.XMsgs) == 0 {
		evid.Count("reset.nothing-reverted")
	}
	abandonedAnswers := false
	for i, m := range r.XMsgs {
		evid.Count("reset.abandoned-only." + r.XKinds[i])
		if isAnswers(m.Type) {
			abandonedAnswers = true
		}
	}
	if abandonedAnswers {
		evid.Count("reset.answers-only-on-abandoned-branch")
	}
	if abandonedAnswers && r.Restart {
		further := false
		for _, b := range blocksW[r.ForkAt : r.ForkAt+r.WBefore] {
			for _, tx := range b.Body.Transactions {
				if isAnswers(tx.Type) {
					further = true
				}
			}
		}
		if !further {
			evid.Count("reset.abandoned-answers-then-restart-before-any-further-answers")
		}
	}
	wOnly := false
	onX := map[int]bool{}
	for _, i := range r.XFromW {
		onX[i] = true
	}
	pos := 0
	for bi, size := range s.Split1 {
		for k := 0; k < size; k++ {
			mi := s.Order1[pos]
			pos++
			if bi >= r.ForkAt && !onX[mi] && isAnswers(s.Msgs[mi].Type) {
				wOnly = true
			}
		}
	}
	if wOnly {
		evid.Count("reset.answers-only-on-winning-branch")
	}
}

// alternativePayload: other well-formed content for the same (sender, type).
func alternativePayload(m message) []byte {
	if m.Type == types.EvidenceTx {
		alt := []byte{0x02, 0x01}
		if string(alt) == string(m.Payload) {
			alt = []byte{0x02, 0x02}
		}
		return alt
	}
	return conflictingDuplicate(m, 0).Payload
}

// onlyHerePayload: a plausible transaction of the given type for a sender that has none on W.
func onlyHerePayload(s *caseSpec, from int, typ types.TxType, seed int64) []byte {
	// another sender's transaction of that type from the same shard serves as template
	for _, m := range s.Msgs {
		if m.Type == typ && !m.Dup && m.From != from && s.Idents[m.From].Shard == s.Idents[from].Shard {
			return append([]byte(nil), m.Payload...)
		}
	}
	b := make([]byte, 32+129+32)
	for i := range b {
		b[i] = byte(seed>>uint(8*(i%8))) ^ byte(i*31)
	}
	switch typ {
	case types.SubmitAnswersHashTx:
		return b[:32]
	case types.SubmitShortAnswersTx:
		return attachments.CreateShortAnswerAttachment([]byte{0x15}, uint64(seed)|1, 1)
	case types.SubmitLongAnswersTx:
		p, _ := (&attachments.LongAnswerAttachment{Answers: []byte{0x2b}, Proof: b[32 : 32+129], Key: b[:32], Salt: b[32+129:]}).ToBytes()
		return p
	}
	return []byte{0x02, 0x03}
}

func drawReset(t *rapid.T, s *caseSpec, tables []ceremony.VerifC17Shard) {
	r := &resetSpec{}
	nb := len(s.Split1)
	r.ForkAt = rapid.IntRange(0, nb).Draw(t, "forkAfterBlocks")
	type key struct {
		from int
		typ  types.TxType
	}
	onW := map[key]bool{}
	var postFork []int // originals mined on W after the fork
	pos := 0
	for bi, size := range s.Split1 {
		for k := 0; k < size; k++ {
			mi := s.Order1[pos]
			pos++
			m := s.Msgs[mi]
			onW[key{m.From, m.Type}] = true
			if bi >= r.ForkAt && !m.Dup {
				postFork = append(postFork, mi)
			}
		}
	}
	var candidates []int
	for _, sh := range tables {
		for _, a := range sh.Candidates {
			candidates = append(candidates, s.byAddr[a])
		}
	}
	usedX := map[key]bool{}
	typesByWeight := []types.TxType{types.SubmitShortAnswersTx, types.SubmitLongAnswersTx, types.SubmitAnswersHashTx, types.EvidenceTx}
	for k, cnt := 0, []int{1, 2, 3, 0}[pick(t, "abandonedOnlyCount", 5, 3, 1, 1)]; k < cnt; k++ {
		alternative := len(postFork) > 0 && pick(t, "abandonedKind", 6, 4) == 0
		if alternative {
			pool := postFork
			if pick(t, "preferAnswers", 8, 2) == 0 {
				var ans []int
				for _, mi := range postFork {
					if isAnswers(s.Msgs[mi].Type) {
						ans = append(ans, mi)
					}
				}
				if len(ans) > 0 {
					pool = ans
				}
			}
			mi := pool[rapid.IntRange(0, len(pool)-1).Draw(t, "alternativeOf")]
			m := s.Msgs[mi]
			if usedX[key{m.From, m.Type}] {
				continue
			}
			usedX[key{m.From, m.Type}] = true
			r.XMsgs = append(r.XMsgs, message{From: m.From, Type: m.Type, Payload: alternativePayload(m)})
			r.XKinds = append(r.XKinds, "alternative")
			continue
		}
		if len(candidates) == 0 {
			continue
		}
		for try := 0; try < 8; try++ {
			from := candidates[rapid.IntRange(0, len(candidates)-1).Draw(t, "onlyHereSender")]
			typ := typesByWeight[pick(t, "onlyHereType", 4, 4, 1, 1)]
			kk := key{from, typ}
			if onW[kk] || usedX[kk] || typ == types.EvidenceTx && !canSendEvidence(s, &s.Idents[from]) {
				continue
			}
			usedX[kk] = true
			r.XMsgs = append(r.XMsgs, message{From: from, Type: typ, Payload: onlyHerePayload(s, from, typ, rapid.Int64().Draw(t, "onlyHereSeed"))})
			r.XKinds = append(r.XKinds, "only-here")
			break
		}
	}
	for _, mi := range postFork {
		m := s.Msgs[mi]
		if usedX[key{m.From, m.Type}] {
			continue
		}
		if rapid.Bool().Draw(t, "alsoOnAbandoned") {
			r.XFromW = append(r.XFromW, mi)
		}
	}
	total := len(r.XFromW) + len(r.XMsgs)
	idx := make([]int, total)
	for i := range idx {
		idx[i] = i
	}
	r.XOrder = rapid.Permutation(idx).Draw(t, "xOrder")
	if total == 0 {
		r.XSplit = []int{0}
	} else {
		blocks := rapid.IntRange(1, 3).Draw(t, "xBlocks")
		r.XSplit = make([]int, blocks)
		for i := 0; i < total; i++ {
			r.XSplit[rapid.IntRange(0, blocks-1).Draw(t, "xBlockOf")]++
		}
	}
	r.WBefore = []int{0, 1, 2}[pick(t, "winningBlocksBeforeRestart", 60, 25, 15)]
	if r.WBefore > nb-r.ForkAt {
		r.WBefore = nb - r.ForkAt
	}
	r.Restart = rapid.Bool().Draw(t, "restartAfterReset")
	s.Reset = r
}

// Plain scenario: hand-made ceremony; the abandoned branch carries other short
// answers of candidate A, long answers of a newbie that never answers on the
// winning branch, and two transactions the winning branch mines too; the node is
// reset and restarted at once.
func TestResetThenRestart(t *testing.T) {
	for _, restart := range []bool{true, false} {
		evid.Eval()
		s := chainSpec(config.ConsensusV12)
		s.Idents[2].Delegatee = nil
		tables := lotteryTables(s)
		parts := allFull(s)
		parts[6].Class = partAbsent
		s.Msgs = buildMessages(s, tables, parts)
		s.plainArrival()
		half := len(s.Msgs) / 2
		s.Split1 = []int{half, len(s.Msgs) - half}
		r := &resetSpec{ForkAt: 1, Restart: restart}
		var altOf = -1
		for k := half; k < len(s.Msgs); k++ {
			mi := s.Order1[k]
			m := s.Msgs[mi]
			if altOf < 0 && m.Type == types.SubmitShortAnswersTx && s.Idents[m.From].State == state.Candidate {
				altOf = mi
				continue
			}
			if len(r.XFromW) < 2 {
				r.XFromW = append(r.XFromW, mi)
			}
		}
		if altOf < 0 {
			t.Fatalf("harness: no short answers of a candidate after the fork")
		}
		r.XMsgs = []message{
			{From: s.Msgs[altOf].From, Type: types.SubmitShortAnswersTx, Payload: alternativePayload(s.Msgs[altOf])},
			{From: 6, Type: types.SubmitLongAnswersTx, Payload: onlyHerePayload(s, 6, types.SubmitLongAnswersTx, 99)},
		}
		r.XKinds = []string{"alternative", "only-here"}
		for i := 0; i < len(r.XFromW)+len(r.XMsgs); i++ {
			r.XOrder = append(r.XOrder, i)
		}
		r.XSplit = []int{2, len(r.XOrder) - 2}
		s.Reset = r
		checkCase(t, s, tables)
		evid.Count("regression.reset-scenario-agrees")
	}
}

package c17

// Part (b): reproducibility of the real epoch evaluation (ValidationCeremony.ApplyNewEpoch)
// over generated ledgers, flips, answers, evidence and arrival orders.

import (
	"bytes"
	"crypto/ecdsa"
	"encoding/binary"
	"fmt"
	"math/big"
	"math/rand"
	"runtime/debug"
	"sort"
	"strings"
	"sync"
	"time"

	"github.com/idena-network/idena-go/blockchain/attachments"
	"github.com/idena-network/idena-go/blockchain/types"
	"github.com/idena-network/idena-go/common"
	"github.com/idena-network/idena-go/common/eventbus"
	"github.com/idena-network/idena-go/config"
	"github.com/idena-network/idena-go/core/appstate"
	"github.com/idena-network/idena-go/core/ceremony"
	"github.com/idena-network/idena-go/core/flip"
	"github.com/idena-network/idena-go/core/mempool"
	"github.com/idena-network/idena-go/core/state"
	"github.com/idena-network/idena-go/crypto"
	"github.com/idena-network/idena-go/crypto/vrf"
	"github.com/idena-network/idena-go/secstore"
	dbm "github.com/tendermint/tm-db"

	"verifharness/internal/sim"
)

// ---------------------------------------------------------------------------
// case description (pure data; everything below is a function of it)
// ---------------------------------------------------------------------------

type identSpec struct {
	Key       *ecdsa.PrivateKey
	Addr      common.Address
	Pub       []byte
	State     state.IdentityState
	Shard     common.ShardId // shard the identity is counted in (1-based)
	StoredId  common.ShardId // value stored in the ledger (0 is read as 1)
	Required  uint8
	Flips     [][]byte
	Stake     *big.Int
	Balance   *big.Int
	Birthday  uint16
	Scores    []byte
	Inviter   *state.Inviter
	Delegatee *common.Address
	PendingUn bool // pre-upgrade10 "pending undelegation" flag
}

const (
	partFull        = iota // answer hash, short answers, long answers
	partAbsent             // nothing at all
	partNoLong             // hash + short answers only
	partNoShort            // hash + long answers only
	partNoHash             // short + long answers, no answer hash on chain
	partSaltMismatch       // long answers carry a salt that does not open the answer hash
	partRndMismatch        // short answers carry a words-rnd that is not the one of the proof
	partGarbageLong        // long answers payload that does not parse (epoch 0 only: later epochs verify the proof)
)

const (
	bitsWellFormed = iota
	bitsTruncated
	bitsOverLong
	bitsRandom
	bitsEmpty
)

// grading styles: how a participant fills the grade bits of its long answers
const (
	gradeCareful      = iota // the way the rules ask for: D by default, at most one increased grade, reports only for flips it finds bad and for fewer than 34 % of its flips
	gradeLegacyRandom        // independent random grade per flip (mostly several increased grades)
	gradeOverIncrease        // like careful, but two or more grades above D
	gradeOverReport          // reports 34 % of its flips or more
	gradeNoApprove           // no approving grade at all (none / a few reports)
)

type participation struct {
	Class     int
	Grading   int
	Skill     int // percent of flips answered like the majority truth
	Seed      int64
	ShortBits int
	LongBits  int
	Evidence  bool // sends an evidence map (only if the chain would accept it from this identity)
	EvNoise   int  // percent of bits flipped in its map
}

type message struct {
	From    int
	Type    types.TxType
	Payload []byte
	Dup     bool // conflicting second message of the same type from the same sender (never on one chain; exercises the store's own guard)
	EvBits  []uint32 // evidence maps only: the candidate indexes (inside the sender's shard) the map was written from
	tx      *types.Transaction
}

type caseSpec struct {
	KeySeed     uint64
	Epoch       uint16
	Version     config.ConsensusVerson
	ShardsNum   uint32
	God         common.Address
	Idents      []identSpec
	LotterySeed []byte
	WordsSeed   types.Seed
	Period      state.ValidationPeriod
	ValidationT int64

	Msgs     []message
	Order1   []int
	Split1   []int // block sizes
	Order2   []int
	Split2   []int
	RestartK int // blocks delivered before the restart
	Zone     int // seconds east of UTC for the other-zone node
	Clocks   []int64
	Reset    *resetSpec // chain-reset scenario (nil: not run)
	Mempool  *mempoolSpec // gossiped, un-mined transactions scenario (nil: not run)
	Sync     *syncSpec    // node with another sync status handling the blocks period by period (nil: not run)

	byAddr map[common.Address]int
}

func (s *caseSpec) index() {
	s.byAddr = map[common.Address]int{}
	for i := range s.Idents {
		s.byAddr[s.Idents[i].Addr] = i
	}
}

func (s *caseSpec) name(a common.Address) string {
	if i, ok := s.byAddr[a]; ok {
		return fmt.Sprintf("id%d", i)
	}
	if a == s.God {
		return "god"
	}
	return fmt.Sprintf("%x", a[:4])
}

func (s *caseSpec) describe() string {
	var b strings.Builder
	fmt.Fprintf(&b, "epoch=%d consensus=v%d shards=%d period=%d god=%s\n", s.Epoch, s.Version, s.ShardsNum, s.Period, s.name(s.God))
	for i := range s.Idents {
		id := &s.Idents[i]
		d := "-"
		if id.Delegatee != nil {
			d = s.name(*id.Delegatee)
			if id.PendingUn {
				d += "(pending-undelegation)"
			}
		}
		inv := "-"
		if id.Inviter != nil {
			inv = s.name(id.Inviter.Address)
		}
		fmt.Fprintf(&b, "  id%d %x %s shard=%d(stored %d) requiredFlips=%d flips=%d birthday=%d scores=%x stake=%s delegatee=%s inviter=%s\n",
			i, id.Addr[:4], stateName(id.State), id.Shard, id.StoredId, id.Required, len(id.Flips), id.Birthday, id.Scores, id.Stake, d, inv)
	}
	for i, m := range s.Msgs {
		dup := ""
		if m.Dup {
			dup = " DUP"
		}
		fmt.Fprintf(&b, "  msg%d id%d type=%d payload=%x%s\n", i, m.From, m.Type, m.Payload, dup)
	}
	fmt.Fprintf(&b, "  order1=%v split1=%v order2=%v split2=%v restartAfterBlocks=%d zone=%+ds\n", s.Order1, s.Split1, s.Order2, s.Split2, s.RestartK, s.Zone)
	if s.Reset != nil {
		fmt.Fprintf(&b, "  reset scenario: %s\n", s.Reset)
	}
	if s.Mempool != nil {
		fmt.Fprintf(&b, "  gossip scenario: %s\n", s.Mempool)
	}
	if s.Sync != nil {
		fmt.Fprintf(&b, "  sync-status scenario: %s\n", s.Sync)
	}
	return b.String()
}

// ---------------------------------------------------------------------------
// process-wide node dependencies that do not take part in the evaluation
// ---------------------------------------------------------------------------

type idleSyncer struct{}

func (idleSyncer) IsSyncing() bool { return false }

var (
	depsOnce   sync.Once
	depSec     *secstore.SecStore
	depFlipper *flip.Flipper
)

func deps() {
	depsOnce.Do(func() {
		k := sim.DeriveKey(0xC17C17C17, 0) // the node's own key: an outsider that never takes part in the ceremony
		depSec = secstore.NewSecStore()
		depSec.AddKey(crypto.FromECDSA(k))
		depFlipper = flip.NewFlipper(dbm.NewMemDB(), sim.NewIpfs(), nil, nil, depSec, nil, eventbus.New())
	})
}

func nodeConfig(s *caseSpec) *config.Config {
	cons := *config.ConsensusVersions[s.Version]
	return &config.Config{
		Consensus: &cons,
		Validation: &config.ValidationConfig{
			ValidationInterval:   time.Hour,
			FlipLotteryDuration:  5 * time.Minute,
			ShortSessionDuration: 2 * time.Minute,
			LongSessionDuration:  30 * time.Minute,
		},
		Sync:       &config.SyncConfig{},
	}
}

// ---------------------------------------------------------------------------
// ledger
// ---------------------------------------------------------------------------

const (
	ledgerHeight = 2 // the state the validation-finished block is applied on
	epochHeight  = 3 // height of the validation-finished block
)

// buildLedger writes the generated ledger into a fresh database: version 1 holds
// the identities as they were when the flip lottery ran, version 2 additionally
// the "has sent ceremony transaction" bits the chain sets for every included
// ceremony transaction. The epoch database stays empty.
func buildLedger(s *caseSpec) dbm.DB {
	db := dbm.NewMemDB()
	as, err := appstate.NewAppState(db, eventbus.New())
	if err != nil {
		panic(err)
	}
	if err := as.Initialize(0); err != nil {
		panic(err)
	}
	st := as.State
	st.SetGlobalEpoch(s.Epoch)
	st.SetGodAddress(s.God)
	if s.ShardsNum > 1 {
		st.SetShardsNum(s.ShardsNum)
	}
	st.SetValidationPeriod(s.Period)
	st.SetNextValidationTime(time.Unix(s.ValidationT, 0).UTC())
	st.SetFlipWordsSeed(s.WordsSeed)
	for i := range s.Idents {
		id := &s.Idents[i]
		st.SetState(id.Addr, id.State)
		st.SetPubKey(id.Addr, append([]byte(nil), id.Pub...))
		if id.StoredId != 0 {
			st.SetShardId(id.Addr, id.StoredId)
		}
		st.SetRequiredFlips(id.Addr, id.Required)
		for j, cid := range id.Flips {
			st.AddFlip(id.Addr, append([]byte(nil), cid...), uint8(j))
		}
		if id.Stake.Sign() > 0 {
			st.AddStake(id.Addr, new(big.Int).Set(id.Stake))
		}
		if id.Balance.Sign() > 0 {
			st.AddBalance(id.Addr, new(big.Int).Set(id.Balance))
		}
		st.SetBirthday(id.Addr, id.Birthday)
		for _, sc := range id.Scores {
			st.AddNewScore(id.Addr, sc)
		}
		if id.Inviter != nil {
			st.SetInviter(id.Addr, id.Inviter.Address, id.Inviter.TxHash, id.Inviter.EpochHeight)
		}
		if id.Delegatee != nil {
			st.SetDelegatee(id.Addr, *id.Delegatee)
			if s.Epoch > 0 {
				st.SetDelegationEpoch(id.Addr, s.Epoch-1)
			}
			if id.PendingUn {
				st.SetPendingUndelegation(id.Addr)
			}
		}
		if id.State.NewbieOrBetter() {
			as.IdentityState.SetValidated(id.Addr, true)
			if id.Delegatee != nil && !id.PendingUn {
				as.IdentityState.SetDelegatee(id.Addr, *id.Delegatee)
			}
		}
	}
	if err := as.Commit(nil); err != nil {
		panic(err)
	}
	for _, m := range s.Msgs {
		st.SetValidationTxBit(s.Idents[m.From].Addr, m.Type)
	}
	if len(s.Msgs) == 0 {
		st.AddBlockBit(true) // something must change, otherwise no new version is saved
	}
	if err := as.Commit(nil); err != nil {
		panic(err)
	}
	if !st.HasVersion(ledgerHeight) {
		panic("harness: ledger version 2 was not saved")
	}
	return db
}

// ---------------------------------------------------------------------------
// node = application state + ceremony object over one database
// ---------------------------------------------------------------------------

type node struct {
	db       dbm.DB
	appState *appstate.AppState
	vc       *ceremony.ValidationCeremony
}

// openNode is what a starting node does as far as the epoch evaluation is
// concerned: load the head state from the database, build the ceremony object
// (exported constructor) and open the epoch database / answer store.
func openNode(s *caseSpec, db dbm.DB) *node {
	deps()
	bus := eventbus.New()
	as, err := appstate.NewAppState(db, bus)
	if err != nil {
		panic(err)
	}
	if err := as.Initialize(ledgerHeight); err != nil {
		panic(err)
	}
	kp := mempool.NewKeysPool(db, as, bus, depSec)
	vc := ceremony.NewValidationCeremony(as, bus, depFlipper, depSec, db, nil, nil, idleSyncer{}, kp, nodeConfig(s))
	vc.VerifC17Open()
	return &node{db: db, appState: as, vc: vc}
}

// freshNode: a node that has seen the lottery block (seed written as
// handleFlipLotteryPeriod does, then the lottery calculation).
func freshNode(s *caseSpec, ledger dbm.DB) *node {
	n := openNode(s, sim.CopyDB(ledger))
	n.vc.VerifC17EpochDb().WriteLotterySeed(append([]byte(nil), s.LotterySeed...))
	n.vc.VerifC17FlipLottery()
	if !n.vc.VerifC17LotteryFinished() {
		panic("harness: lottery did not run")
	}
	return n
}

func (s *caseSpec) blocks(order, split []int) []*types.Block {
	var res []*types.Block
	pos := 0
	for bi, size := range split {
		var txs []*types.Transaction
		for k := 0; k < size; k++ {
			txs = append(txs, s.Msgs[order[pos]].tx)
			pos++
		}
		res = append(res, &types.Block{
			Header: &types.Header{ProposedHeader: &types.ProposedHeader{Height: uint64(100 + bi), Time: s.ValidationT + int64(20*bi)}},
			Body:   &types.Body{Transactions: txs},
		})
	}
	if pos != len(order) {
		panic("harness: split does not cover the order")
	}
	return res
}

func (s *caseSpec) signAll() {
	for i := range s.Msgs {
		m := &s.Msgs[i]
		if m.tx != nil {
			continue
		}
		tx := &types.Transaction{AccountNonce: uint32(i + 1), Epoch: s.Epoch, Type: m.Type, Payload: m.Payload}
		signed, err := types.SignTx(tx, s.Idents[m.From].Key)
		if err != nil {
			panic(err)
		}
		if from, _ := types.Sender(signed); from != s.Idents[m.From].Addr {
			panic("harness: sender mismatch")
		}
		m.tx = signed
	}
}

// ---------------------------------------------------------------------------
// evaluation
// ---------------------------------------------------------------------------

type outcome struct {
	Label  string
	Panic  string
	Stack  string
	Canon  string
	Failed bool
	Root   common.Hash
	IdRoot common.Hash
	After  map[common.Address]state.IdentityState // as left by ApplyNewEpoch, before empty objects are dropped
	check  *appstate.AppState
	res    types.TotalValidationResult
}

func (n *node) evaluate(s *caseSpec, label string) (o outcome) {
	o.Label = label
	cs, err := n.appState.ForCheck(ledgerHeight)
	if err != nil {
		panic(fmt.Sprintf("harness: ForCheck: %v", err))
	}
	defer func() {
		if r := recover(); r != nil {
			o.Panic = fmt.Sprint(r)
			o.Stack = string(debug.Stack())
		}
	}()
	res := n.vc.ApplyNewEpoch(epochHeight, cs, nil)
	o.res = res
	o.Failed = res.Failed
	o.Canon = canonResult(s, res)
	o.After = map[common.Address]state.IdentityState{}
	for i := range s.Idents {
		o.After[s.Idents[i].Addr] = cs.State.GetIdentity(s.Idents[i].Addr).State
	}
	cs.Precommit()
	o.Root = cs.State.Root()
	o.IdRoot = cs.IdentityState.Root()
	o.check = cs
	return o
}

func sortedAddrs[V any](m map[common.Address]V) []common.Address {
	res := make([]common.Address, 0, len(m))
	for a := range m {
		res = append(res, a)
	}
	sort.Slice(res, func(i, j int) bool { return string(res[i][:]) < string(res[j][:]) })
	return res
}

// canonResult renders every field of the epoch result with maps in key order.
func canonResult(s *caseSpec, r types.TotalValidationResult) string {
	var b strings.Builder
	fmt.Fprintf(&b, "identitiesCount=%d failed=%v\n", r.IdentitiesCount, r.Failed)
	var shards []int
	for id := range r.ShardResults {
		shards = append(shards, int(id))
	}
	sort.Ints(shards)
	for _, id := range shards {
		sr := r.ShardResults[common.ShardId(id)]
		fmt.Fprintf(&b, "shard %d\n", id)
		if sr == nil {
			b.WriteString(" nil\n")
			continue
		}
		for _, a := range sortedAddrs(sr.BadAuthors) {
			fmt.Fprintf(&b, " badAuthor %s reason=%d\n", s.name(a), sr.BadAuthors[a])
		}
		for _, a := range sortedAddrs(sr.GoodAuthors) {
			v := sr.GoodAuthors[a]
			fmt.Fprintf(&b, " goodAuthor %s missed=%v newState=%d flips=", s.name(a), v.Missed, v.NewIdentityState)
			for _, f := range v.FlipsToReward {
				fmt.Fprintf(&b, "[%x grade=%d score=%s]", f.Cid, f.Grade, f.GradeScore.String())
			}
			b.WriteString("\n")
		}
		for _, a := range sortedAddrs(sr.AuthorResults) {
			v := sr.AuthorResults[a]
			fmt.Fprintf(&b, " authorResult %s reported=%v notQualified=%v allNotQualified=%v\n", s.name(a), v.HasOneReportedFlip, v.HasOneNotQualifiedFlip, v.AllFlipsNotQualified)
		}
		for _, a := range sortedAddrs(sr.GoodInviters) {
			v := sr.GoodInviters[a]
			fmt.Fprintf(&b, " goodInviter %s newState=%d pay=%v invites=", s.name(a), v.NewIdentityState, v.PayInvitationReward)
			for _, si := range v.SuccessfulInvites {
				fmt.Fprintf(&b, "[%s age=%d tx=%x epochHeight=%d penalized=%v]", s.name(si.Address), si.Age, si.TxHash[:4], si.EpochHeight, si.Penalized)
			}
			b.WriteString("\n")
		}
		var flips []int
		for f := range sr.ReportersToRewardByFlip {
			flips = append(flips, f)
		}
		sort.Ints(flips)
		for _, f := range flips {
			fmt.Fprintf(&b, " reporters flip %d:", f)
			for _, a := range sortedAddrs(sr.ReportersToRewardByFlip[f]) {
				c := sr.ReportersToRewardByFlip[f][a]
				fmt.Fprintf(&b, " %s(addr=%s newState=%d)", s.name(a), s.name(c.Address), c.NewIdentityState)
			}
			b.WriteString("\n")
		}
	}
	for _, a := range sortedAddrs(r.Pools) {
		fmt.Fprintf(&b, "pool %s\n", s.name(a))
	}
	for _, a := range sortedAddrs(r.NonValidatedStakes) {
		v := r.NonValidatedStakes[a]
		vs := "nil"
		if v != nil {
			vs = v.String()
		}
		fmt.Fprintf(&b, "nonValidatedStake %s %s\n", s.name(a), vs)
	}
	return b.String()
}

func firstDiffLine(a, b string) string {
	la, lb := strings.Split(a, "\n"), strings.Split(b, "\n")
	for i := 0; i < len(la) || i < len(lb); i++ {
		var x, y string
		if i < len(la) {
			x = la[i]
		}
		if i < len(lb) {
			y = lb[i]
		}
		if x != y {
			return fmt.Sprintf("line %d: %q vs %q", i+1, x, y)
		}
	}
	return "(no textual difference)"
}

// difference returns "" when two evaluations agree on the epoch result and on
// both roots, otherwise a description.
func difference(s *caseSpec, a, b *outcome) string {
	if a.Panic != "" || b.Panic != "" {
		if a.Panic == b.Panic {
			return ""
		}
		return fmt.Sprintf("%s: panic=%q, %s: panic=%q", a.Label, a.Panic, b.Label, b.Panic)
	}
	var d []string
	if a.Canon != b.Canon {
		d = append(d, "epoch result differs at "+firstDiffLine(a.Canon, b.Canon))
	}
	if a.Root != b.Root {
		diff := sim.DiffImages(sim.Image(a.check), sim.Image(b.check), s.name)
		if len(diff) > 8 {
			diff = diff[:8]
		}
		d = append(d, fmt.Sprintf("state root %x vs %x; ledger difference: %v", a.Root[:6], b.Root[:6], diff))
	}
	if a.IdRoot != b.IdRoot {
		d = append(d, fmt.Sprintf("identity-state root %x vs %x", a.IdRoot[:6], b.IdRoot[:6]))
	}
	if len(d) == 0 {
		return ""
	}
	return fmt.Sprintf("[%s] vs [%s]: %s", a.Label, b.Label, strings.Join(d, "; "))
}

// ---------------------------------------------------------------------------
// shapes of the two hypotheses from reading (H11, H7)
// ---------------------------------------------------------------------------

// fliplessLongAnswers lists senders of parseable long answers that are candidates
// of a shard without any flip. Non-empty answer bits make qualifyFlips index its
// zero-length table with the placeholder flip 0 ("index out of range"); empty
// bits get past it and addFlipAnswersToStats dereferences the missing statistics
// entry of flip 0 ("nil pointer dereference") - same root cause, same key.
func fliplessLongAnswers(s *caseSpec, tables []ceremony.VerifC17Shard) []int {
	flipless := map[common.Address]bool{}
	for _, sh := range tables {
		if len(sh.Flips) == 0 {
			for _, c := range sh.Candidates {
				flipless[c] = true
			}
		}
	}
	var res []int
	seen := map[int]bool{}
	for _, m := range s.Msgs {
		if m.Type != types.SubmitLongAnswersTx || seen[m.From] || !flipless[s.Idents[m.From].Addr] {
			continue
		}
		if att := attachments.ParseLongAnswerBytesAttachment(m.Payload); att != nil {
			res = append(res, m.From)
			seen[m.From] = true
		}
	}
	return res
}

func effectiveDelegatee(id *identSpec) *common.Address {
	if id.PendingUn {
		return nil
	}
	return id.Delegatee
}

func revalidatable(st state.IdentityState) bool {
	return st == state.Candidate || st == state.Suspended || st == state.Zombie
}

// delegationChains reports the longest chain of effective delegations among
// generated identities and whether the layout has the order-sensitive shape:
// A -> B -> C -> (somebody) where A and B are ceremony candidates whose prior
// status is Candidate, Suspended or Zombie (the statuses whose re-validation
// triggers removal of a transitive delegation).
type chainShape struct {
	A, B int
	Desc string
}

func delegationChains(s *caseSpec) (longest int, sensitive []chainShape) {
	next := func(a common.Address) *common.Address {
		i, ok := s.byAddr[a]
		if !ok {
			return nil
		}
		return effectiveDelegatee(&s.Idents[i])
	}
	for i := range s.Idents {
		l := 0
		cur := s.Idents[i].Addr
		seen := map[common.Address]bool{}
		for {
			n := next(cur)
			if n == nil || seen[*n] {
				break
			}
			seen[cur] = true
			l++
			cur = *n
		}
		if l > longest {
			longest = l
		}
		a := &s.Idents[i]
		if !revalidatable(a.State) || len(a.Flips) < int(a.Required) || effectiveDelegatee(a) == nil {
			continue
		}
		bi, ok := s.byAddr[*effectiveDelegatee(a)]
		if !ok {
			continue
		}
		b := &s.Idents[bi]
		if !revalidatable(b.State) || len(b.Flips) < int(b.Required) || effectiveDelegatee(b) == nil {
			continue
		}
		if next(*effectiveDelegatee(b)) != nil {
			sensitive = append(sensitive, chainShape{A: i, B: bi, Desc: fmt.Sprintf("id%d->id%d->%s->%s", i, bi, s.name(*effectiveDelegatee(b)), s.name(*next(*effectiveDelegatee(b))))})
		}
	}
	return longest, sensitive
}

// ---------------------------------------------------------------------------
// message construction (deterministic given spec, lottery tables and participation)
// ---------------------------------------------------------------------------

func mutateBits(bits []byte, kind int, rng *rand.Rand) []byte {
	switch kind {
	case bitsTruncated:
		if len(bits) <= 1 {
			return nil
		}
		return append([]byte(nil), bits[1:]...)
	case bitsOverLong:
		extra := make([]byte, 1+rng.Intn(3))
		for i := range extra {
			extra[i] = byte(1 + rng.Intn(255))
		}
		return append(extra, bits...)
	case bitsRandom:
		r := make([]byte, rng.Intn(40))
		rng.Read(r)
		return r
	case bitsEmpty:
		return nil
	}
	return bits
}

// canSendEvidence mirrors validateEvidenceTx for the generated ledgers (network
// size is never 0 when a Candidate could matter, no stake discrimination threshold).
func canSendEvidence(s *caseSpec, id *identSpec) bool {
	if len(id.Flips) < int(id.Required) {
		return false
	}
	if id.Delegatee != nil {
		return false // identity.Delegatee() != nil, or pending undelegation -> discriminated
	}
	switch id.State {
	case state.Verified, state.Human, state.Suspended, state.Zombie:
		return true
	case state.Newbie:
		return s.Epoch <= 2 || id.Addr == s.God
	}
	return false
}

type flipTruth struct {
	right bool
	bad   bool // deserves a report
}

// drawGrades fills the grades of one long answer list according to the participant's grading style.
func drawGrades(rng *rand.Rand, p participation, longList []int, truth []flipTruth) []types.Grade {
	n := len(longList)
	res := make([]types.Grade, n)
	if n == 0 {
		return res
	}
	findsBad := func(f int) bool { return truth[f%len(truth)].bad && rng.Intn(100) < p.Skill }
	tooMany := func(reports int) bool { return float32(reports)/float32(n) >= 0.34 }
	increased := func() types.Grade { return types.Grade(3 + rng.Intn(3)) }
	reports := 0
	switch p.Grading {
	case gradeLegacyRandom:
		for i, f := range longList {
			switch {
			case findsBad(f):
				res[i] = types.GradeReported
			case rng.Intn(12) == 0:
				// no grade
			case rng.Intn(15) == 0:
				res[i] = types.GradeReported
			default:
				res[i] = types.Grade(2 + rng.Intn(4))
			}
		}
		return res
	case gradeNoApprove:
		for i, f := range longList {
			if findsBad(f) && !tooMany(reports+1) {
				res[i] = types.GradeReported
				reports++
			}
		}
		return res
	}
	// careful / over-increase / over-report: D by default, some flips without a grade, bad flips reported
	for i, f := range longList {
		switch {
		case findsBad(f) && (p.Grading == gradeOverReport || !tooMany(reports+1)):
			res[i] = types.GradeReported
			reports++
		case rng.Intn(12) == 0:
			// no grade
		default:
			res[i] = types.GradeD
		}
	}
	if p.Grading == gradeOverReport {
		for _, i := range rng.Perm(n) {
			if tooMany(reports) {
				break
			}
			if res[i] != types.GradeReported {
				res[i] = types.GradeReported
				reports++
			}
		}
	}
	var approved []int
	for i, g := range res {
		if g == types.GradeD {
			approved = append(approved, i)
		}
	}
	if len(approved) == 0 && p.Grading != gradeOverReport {
		for _, i := range rng.Perm(n) {
			if res[i] == types.GradeNone {
				res[i] = types.GradeD
				approved = append(approved, i)
				break
			}
		}
	}
	rng.Shuffle(len(approved), func(a, b int) { approved[a], approved[b] = approved[b], approved[a] })
	up := 0
	switch p.Grading {
	case gradeOverIncrease:
		up = 2 + rng.Intn(3)
	default:
		up = rng.Intn(2)
	}
	for k := 0; k < up && k < len(approved); k++ {
		res[approved[k]] = increased()
	}
	return res
}

// buildMessages creates the ceremony transactions of all participants.
func buildMessages(s *caseSpec, tables []ceremony.VerifC17Shard, parts []participation) []message {
	var msgs []message
	for _, sh := range tables {
		truthRng := rand.New(rand.NewSource(int64(binary.LittleEndian.Uint64(s.LotterySeed)) ^ int64(sh.Id)*7919))
		truth := make([]flipTruth, len(sh.Flips)+1)
		for i := range truth {
			truth[i] = flipTruth{right: truthRng.Intn(2) == 0, bad: truthRng.Intn(10) == 0}
		}
		present := map[int]bool{}
		for ci, addr := range sh.Candidates {
			idx := s.byAddr[addr]
			p := parts[idx]
			if p.Class == partAbsent {
				continue
			}
			rng := rand.New(rand.NewSource(p.Seed))
			answerFor := func(flip int) types.Answer {
				tr := truth[flip%len(truth)]
				if rng.Intn(100) < p.Skill {
					if tr.right {
						return types.Right
					}
					return types.Left
				}
				switch rng.Intn(3) {
				case 0:
					return types.None
				case 1:
					return types.Left
				}
				return types.Right
			}
			shortList, longList := sh.ShortFlips[ci], sh.LongFlips[ci]
			sa := types.NewAnswers(uint(len(shortList)))
			for i, f := range shortList {
				switch answerFor(f) {
				case types.Left:
					sa.Left(uint(i))
				case types.Right:
					sa.Right(uint(i))
				}
			}
			la := types.NewAnswers(uint(len(longList)))
			for i, f := range longList {
				switch answerFor(f) {
				case types.Left:
					la.Left(uint(i))
				case types.Right:
					la.Right(uint(i))
				}
			}
			for i, g := range drawGrades(rng, p, longList, truth) {
				if g != types.GradeNone {
					la.Grade(uint(i), g)
				}
			}
			shortBits := mutateBits(sa.Bytes(), p.ShortBits, rng)
			longBits := mutateBits(la.Bytes(), p.LongBits, rng)

			proof := make([]byte, 129)
			rng.Read(proof)
			h, err := vrf.HashFromProof(proof)
			if err != nil {
				panic(err)
			}
			rnd := ceremony.VerifC17WordsRnd(h)
			if p.Class == partRndMismatch {
				rnd++
			}
			salt := make([]byte, 32)
			rng.Read(salt)
			hash := crypto.Hash(append(append([]byte(nil), shortBits...), salt...))
			if p.Class == partSaltMismatch {
				salt[0] ^= 0x55
			}
			flipKey := make([]byte, 32)
			rng.Read(flipKey)

			if p.Class != partNoHash {
				msgs = append(msgs, message{From: idx, Type: types.SubmitAnswersHashTx, Payload: hash[:]})
				present[ci] = true
			}
			if p.Class != partNoShort {
				msgs = append(msgs, message{From: idx, Type: types.SubmitShortAnswersTx, Payload: attachments.CreateShortAnswerAttachment(shortBits, rnd, 1)})
			}
			if p.Class != partNoLong {
				var payload []byte
				if p.Class == partGarbageLong && s.Epoch == 0 {
					payload = []byte{0xff, 0xff, 0xff, byte(rng.Intn(256))}
				} else {
					payload, _ = (&attachments.LongAnswerAttachment{Answers: longBits, Proof: proof, Key: flipKey, Salt: salt}).ToBytes()
				}
				msgs = append(msgs, message{From: idx, Type: types.SubmitLongAnswersTx, Payload: payload})
			}
		}
		// evidence maps: what each sender saw, i.e. the present set with some noise
		for ci, addr := range sh.Candidates {
			idx := s.byAddr[addr]
			p := parts[idx]
			if !p.Evidence || p.Class == partAbsent || !canSendEvidence(s, &s.Idents[idx]) {
				continue
			}
			_ = ci
			rng := rand.New(rand.NewSource(p.Seed ^ 0x5bd1e995))
			bm := common.NewBitmap(uint32(len(sh.Candidates)))
			bits := []uint32{}
			for k := range sh.Candidates {
				in := present[k]
				if rng.Intn(100) < p.EvNoise {
					in = !in
				}
				if in {
					bm.Add(uint32(k))
					bits = append(bits, uint32(k))
				}
			}
			var buf bytes.Buffer
			bm.WriteTo(&buf)
			payload := append([]byte(nil), buf.Bytes()...)
			// harness self-check: the serialized map reads back as the set it was written from
			back := common.NewBitmap(uint32(len(sh.Candidates)))
			back.Read(payload)
			if fmt.Sprint(back.ToArray()) != fmt.Sprint(bits) {
				panic(fmt.Sprintf("harness: evidence map %x reads back as %v, written from %v", payload, back.ToArray(), bits))
			}
			msgs = append(msgs, message{From: idx, Type: types.EvidenceTx, Payload: payload, EvBits: bits})
		}
	}
	return msgs
}

// validOrder moves, inside the positions a (sender, type) group occupies, the
// group's original message to the earliest position and leaves the conflicting
// duplicates in their drawn relative order: first-write-wins then selects the
// same winner in every order, any other rule need not.
func validOrder(s *caseSpec, order []int) []int {
	type key struct {
		from int
		typ  types.TxType
	}
	groups := map[key][]int{} // positions
	for pos, mi := range order {
		k := key{s.Msgs[mi].From, s.Msgs[mi].Type}
		groups[k] = append(groups[k], pos)
	}
	res := append([]int(nil), order...)
	for _, positions := range groups {
		if len(positions) < 2 {
			continue
		}
		var members []int
		for _, p := range positions {
			if !s.Msgs[order[p]].Dup {
				members = append(members, order[p])
			}
		}
		if len(members) != 1 {
			panic("harness: a (sender, type) group needs exactly one original message")
		}
		for _, p := range positions {
			if s.Msgs[order[p]].Dup {
				members = append(members, order[p])
			}
		}
		for i, p := range positions {
			res[p] = members[i]
		}
	}
	return res
}

// ---------------------------------------------------------------------------
// the statement's implications on the real outcome
// ---------------------------------------------------------------------------

// approvalModel is the harness' own reading of "approved candidates from on-chain
// evidence maps", written from the rule and not from the node's code path: per
// shard, the evidence maps recorded in blocks from senders that are candidates of
// THAT shard (one per sender, the first), bit k of a map = k-th candidate of the
// shard; a candidate is approved iff more than half of those maps name it
// (at least len(maps)/2+1). No map -> nobody approved.
type approvalView struct {
	Approved       map[int]bool // identity index -> approved by the maps of its own shard
	OwnVotes       map[int]int  // identity index -> own-shard maps naming it
	OwnMaps        map[int]int  // identity index -> number of maps of its own shard
	ShardsWithMaps int
	// what a node would see that pooled in the maps of other shards whose sender's index inside
	// its own shard happens to be a valid index here (used for class counting only)
	ForeignBitSet  map[int]bool
	PooledApproves map[int]bool
}

func approvalModel(s *caseSpec, tables []ceremony.VerifC17Shard) *approvalView {
	v := &approvalView{Approved: map[int]bool{}, OwnVotes: map[int]int{}, OwnMaps: map[int]int{}, ForeignBitSet: map[int]bool{}, PooledApproves: map[int]bool{}}
	type evMap struct {
		shard  int
		ownIdx int
		bits   map[uint32]bool
	}
	shardOf, ownIdx := map[int]int{}, map[int]int{}
	for si, sh := range tables {
		for k, a := range sh.Candidates {
			shardOf[s.byAddr[a]], ownIdx[s.byAddr[a]] = si, k
		}
	}
	var maps []evMap
	seen := map[int]bool{}
	for _, m := range s.Msgs {
		if m.Type != types.EvidenceTx || m.Dup || seen[m.From] || len(m.Payload) == 0 {
			continue
		}
		si, ok := shardOf[m.From]
		if !ok {
			continue // not a ceremony candidate: the chain refuses its evidence
		}
		seen[m.From] = true
		e := evMap{shard: si, ownIdx: ownIdx[m.From], bits: map[uint32]bool{}}
		for _, b := range m.EvBits {
			e.bits[b] = true
		}
		maps = append(maps, e)
	}
	for si, sh := range tables {
		own := 0
		for _, e := range maps {
			if e.shard == si {
				own++
			}
		}
		if own > 0 {
			v.ShardsWithMaps++
		}
		for k, a := range sh.Candidates {
			i := s.byAddr[a]
			votes, pooledMaps, pooledVotes := 0, 0, 0
			for _, e := range maps {
				if e.shard == si {
					if e.bits[uint32(k)] {
						votes++
					}
				} else if e.ownIdx < len(sh.Candidates) {
					pooledMaps++
					if e.bits[uint32(k)] {
						pooledVotes++
						v.ForeignBitSet[i] = true
					}
				}
			}
			v.OwnVotes[i], v.OwnMaps[i] = votes, own
			v.Approved[i] = votes >= own/2+1
			v.PooledApproves[i] = votes+pooledVotes >= (own+pooledMaps)/2+1
		}
	}
	return v
}

func statementOnOutcome(s *caseSpec, o *outcome, tables []ceremony.VerifC17Shard) string {
	if o.Failed {
		return "" // "validation failed, nobody is validated, identities remain the same": no new statuses were decided
	}
	hasShort, hasLong := map[int]bool{}, map[int]bool{}
	for _, m := range s.Msgs {
		if len(m.Payload) == 0 {
			continue
		}
		switch m.Type {
		case types.SubmitShortAnswersTx:
			hasShort[m.From] = true
		case types.SubmitLongAnswersTx:
			hasLong[m.From] = true
		}
	}
	appr := approvalModel(s, tables)
	for i := range s.Idents {
		id := &s.Idents[i]
		after := o.After[id.Addr]
		lacking := len(id.Flips) < int(id.Required)
		// missed the session: no answers of one of its parts in blocks, or the evidence of its own shard
		// (the on-chain record of who was there in time) does not approve it
		missedSession := !hasShort[i] || !hasLong[i] || !appr.Approved[i]
		if (lacking || missedSession) && after.NewbieOrBetter() {
			return fmt.Sprintf("id%d (%s, requiredFlips=%d madeFlips=%d, short answers recorded=%v, long answers recorded=%v, named by %d of the %d evidence maps of its own shard -> approved=%v) is %s after the validation: an identity that missed the session or lacked its required flips was promoted or left validated",
				i, stateName(id.State), id.Required, len(id.Flips), hasShort[i], hasLong[i], appr.OwnVotes[i], appr.OwnMaps[i], appr.Approved[i], stateName(after))
		}
		if id.State == state.Invite && after != state.Killed {
			return fmt.Sprintf("id%d was an unactivated invitation and is %s after the validation (expected terminated)", i, stateName(after))
		}
		if id.State == state.Undefined && after != state.Undefined && after != state.Killed {
			return fmt.Sprintf("id%d had status Undefined and is %s after the validation", i, stateName(after))
		}
	}
	return ""
}

func improved(prev, after state.IdentityState) bool {
	rank := func(s state.IdentityState) int {
		switch s {
		case state.Newbie:
			return 1
		case state.Verified:
			return 2
		case state.Human:
			return 3
		}
		return 0
	}
	return rank(after) > rank(prev)
}

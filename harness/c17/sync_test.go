package c17

// Node-local sync status. What a node records from the blocks of a ceremony must
// not depend on facts that are not chain data: whether its syncer reports
// "syncing" and how old the block it handles is compared with its wall clock (the
// ceremony uses both to decide whether it publishes keys / answers / evidence).
//
// The node of this variant handles every block in the validation period the block
// was mined in - short session, long session, after long session - through the
// node's own block handler of that period; the other variants handle all blocks
// in the ledger's final period. Only transactions the chain admits in a period are
// put into its blocks (short session: answer hashes and long answers; short answers
// and evidence from the long session on).

import (
	"fmt"
	"testing"
	"time"

	"github.com/idena-network/idena-go/blockchain"
	"github.com/idena-network/idena-go/blockchain/types"
	"github.com/idena-network/idena-go/common/eventbus"
	"github.com/idena-network/idena-go/common/vclock"
	"github.com/idena-network/idena-go/config"
	"github.com/idena-network/idena-go/core/appstate"
	"github.com/idena-network/idena-go/core/ceremony"
	"github.com/idena-network/idena-go/core/mempool"
	"github.com/idena-network/idena-go/core/state"
	dbm "github.com/tendermint/tm-db"
	"pgregory.net/rapid"

	"verifharness/internal/evid"
	"verifharness/internal/sim"
)

type fixedSyncer struct{ syncing bool }

func (f fixedSyncer) IsSyncing() bool { return f.syncing }

type syncSpec struct {
	Syncing    bool
	HeadAge    int64 // node's wall clock minus the timestamp of the block it handles (= its head), seconds
	Early      []int // messages (indexes into Msgs) mined during the short session, in mined order
	ShortSplit []int // sizes of the short-session blocks (nil: the node sees no short-session block)
	StartFlag  bool  // the first short-session block carries the ShortSessionStarted flag
	LongBlocks int   // number of later blocks handled in the long session period; the rest in the after-long period (if the ledger ends there)
}

// the ceremony treats a syncing node as "catching up" when its head is older than
// flip lottery + short session + long session + 15 minutes (nodeConfig: 5 + 2 + 30 + 15)
const catchUpAge = int64((5 + 2 + 30 + 15) * 60)

func (y *syncSpec) status() string {
	switch {
	case y.Syncing && y.HeadAge >= catchUpAge:
		return "catching-up"
	case y.Syncing:
		return "syncing-with-fresh-head"
	case y.HeadAge >= catchUpAge:
		return "not-syncing-with-old-head"
	}
	return "live"
}

func (y *syncSpec) String() string {
	return fmt.Sprintf("%s (syncing=%v headAge=%ds) shortSessionBlocks=%v minedInShortSession=%v startFlag=%v longSessionBlocks=%d", y.status(), y.Syncing, y.HeadAge, y.ShortSplit, y.Early, y.StartFlag, y.LongBlocks)
}

// syncBlocks arranges the winning chain's transactions by period: the early ones in
// the short-session blocks, everything else in the order and split of the first
// arrival order.
func (s *caseSpec) syncBlocks() (blocks []*types.Block, periods []state.ValidationPeriod) {
	y := s.Sync
	early := map[int]bool{}
	for _, mi := range y.Early {
		early[mi] = true
	}
	add := func(txs []*types.Transaction, period state.ValidationPeriod, flag types.BlockFlag) {
		bi := len(blocks)
		blocks = append(blocks, &types.Block{
			Header: &types.Header{ProposedHeader: &types.ProposedHeader{Height: uint64(100 + bi), Time: s.ValidationT + int64(20*bi), Flags: flag}},
			Body:   &types.Body{Transactions: txs},
		})
		periods = append(periods, period)
	}
	pos := 0
	for bi, size := range y.ShortSplit {
		var txs []*types.Transaction
		for k := 0; k < size; k++ {
			txs = append(txs, s.Msgs[y.Early[pos]].tx)
			pos++
		}
		var flag types.BlockFlag
		if bi == 0 && y.StartFlag {
			flag = types.ShortSessionStarted
		}
		add(txs, state.ShortSessionPeriod, flag)
	}
	if pos != len(y.Early) {
		panic("harness: short-session split does not cover the early transactions")
	}
	pos = 0
	for bi, size := range s.Split1 {
		var txs []*types.Transaction
		for k := 0; k < size; k++ {
			if mi := s.Order1[pos]; !early[mi] {
				txs = append(txs, s.Msgs[mi].tx)
			}
			pos++
		}
		period, flag := state.LongSessionPeriod, types.BlockFlag(0)
		if bi == 0 {
			flag = types.LongSessionStarted
		}
		if s.Period == state.AfterLongSessionPeriod && bi >= y.LongBlocks {
			period = state.AfterLongSessionPeriod
			if bi == y.LongBlocks {
				flag = types.AfterLongSessionStarted
			}
		}
		add(txs, period, flag)
	}
	return blocks, periods
}

// syncVariant: a node built like the others (exported constructor, epoch database and
// answer store opened as Initialize does, lottery), but with a blockchain object whose
// head is the block being handled, the drawn syncer status and the drawn distance
// between wall clock and head. The validation period of its head state follows the
// blocks (set on the node's in-memory head state, as applying the blocks would).
func syncVariant(s *caseSpec, ledger dbm.DB) outcome {
	y := s.Sync
	deps()
	db := sim.CopyDB(ledger)
	bus := eventbus.New()
	as, err := appstate.NewAppState(db, bus)
	if err != nil {
		panic(err)
	}
	if err := as.Initialize(ledgerHeight); err != nil {
		panic(err)
	}
	cfg := nodeConfig(s)
	kp := mempool.NewKeysPool(db, as, bus, depSec)
	chain := blockchain.NewBlockchain(cfg, db, nil, as, nil, depSec, bus, nil, nil, nil, nil)
	chain.Head = &types.Header{ProposedHeader: &types.ProposedHeader{Height: 99, Time: s.ValidationT - 20}}
	vclock.Set(time.Unix(chain.Head.Time()+y.HeadAge, 0).UTC())
	vc := ceremony.NewValidationCeremony(as, bus, depFlipper, depSec, db, nil, chain, fixedSyncer{y.Syncing}, kp, cfg)
	vc.VerifC17Open()
	n := &node{db: db, appState: as, vc: vc}
	n.vc.VerifC17EpochDb().WriteLotterySeed(append([]byte(nil), s.LotterySeed...))
	n.vc.VerifC17FlipLottery()
	if !n.vc.VerifC17LotteryFinished() {
		panic("harness: lottery did not run")
	}
	blocks, periods := s.syncBlocks()
	for i, b := range blocks {
		as.State.SetValidationPeriod(periods[i])
		chain.Head = b.Header
		vclock.Set(time.Unix(b.Header.Time()+y.HeadAge, 0).UTC())
		n.vc.VerifC17AddBlock(b)
	}
	as.State.SetValidationPeriod(s.Period)
	return n.evaluate(s, fmt.Sprintf("node with sync status %q that handled %d short-session blocks (%d transactions) and %d later blocks", y.status(), len(y.ShortSplit), len(y.Early), len(s.Split1)))
}

func (s *caseSpec) recordSync() {
	y := s.Sync
	evid.Count("sync." + y.status())
	hashes, longs := 0, 0
	for _, mi := range y.Early {
		switch s.Msgs[mi].Type {
		case types.SubmitAnswersHashTx:
			hashes++
		case types.SubmitLongAnswersTx:
			longs++
		}
	}
	if len(y.ShortSplit) > 0 {
		evid.Count("sync.short-session-blocks-handled")
	}
	if hashes > 0 {
		evid.Count("sync.answer-hashes-mined-in-short-session")
	}
	if longs > 0 {
		evid.Count("sync.long-answers-mined-in-short-session")
	}
	if hashes+longs > 0 {
		evid.Count("sync." + y.status() + ".with-short-session-transactions")
	}
	if y.StartFlag && len(y.ShortSplit) > 0 {
		evid.Count("sync.short-session-start-block-handled")
	}
	if s.Period == state.AfterLongSessionPeriod && y.LongBlocks < len(s.Split1) {
		evid.Count("sync.after-long-blocks-handled")
	}
}

func drawSync(t *rapid.T, s *caseSpec) {
	y := &syncSpec{}
	switch pick(t, "syncStatus", 5, 2, 2, 1) {
	case 0: // catching up: syncing, old head
		y.Syncing = true
		y.HeadAge = catchUpAge + int64([]int{0, 1, 60, 3600, 86400, 40 * 86400}[pick(t, "headAgeBeyond", 1, 1, 2, 3, 2, 1)])
	case 1: // syncing, but the head is fresh
		y.Syncing = true
		y.HeadAge = int64(rapid.IntRange(0, int(catchUpAge)-1).Draw(t, "headAge"))
	case 2: // live
		y.HeadAge = int64(rapid.IntRange(0, 120).Draw(t, "headAge"))
	default: // not syncing although the head is old (a node alone on its chain)
		y.HeadAge = catchUpAge + int64(rapid.IntRange(0, 86400).Draw(t, "headAge"))
	}
	// what was mined during the short session: answer hashes mostly, long answers sometimes
	if pick(t, "shortSessionBlocks", 85, 15) == 0 {
		hashShare := []int{100, 80, 50, 20}[pick(t, "hashesMinedEarly", 4, 3, 2, 1)]
		longShare := []int{0, 10, 40}[pick(t, "longAnswersMinedEarly", 5, 3, 2)]
		for _, mi := range s.Order1 {
			m := s.Msgs[mi]
			if m.Dup {
				continue
			}
			share := 0
			switch m.Type {
			case types.SubmitAnswersHashTx:
				share = hashShare
			case types.SubmitLongAnswersTx:
				share = longShare
			}
			if share > 0 && rapid.IntRange(0, 99).Draw(t, "minedEarly") < share {
				y.Early = append(y.Early, mi)
			}
		}
		nb := rapid.IntRange(1, 3).Draw(t, "shortBlocks")
		y.ShortSplit = make([]int, nb)
		for range y.Early {
			y.ShortSplit[rapid.IntRange(0, nb-1).Draw(t, "shortBlockOf")]++
		}
		y.StartFlag = rapid.Bool().Draw(t, "shortSessionStartBlockSeen")
	}
	y.LongBlocks = rapid.IntRange(0, len(s.Split1)).Draw(t, "longSessionBlocks")
	s.Sync = y
}

// Plain scenario on the hand-made ceremony: every answer hash and the long answers
// of candidate A are mined during the short session; a node that is catching up
// (syncing, head 10 hours old), a syncing node with a fresh head and a live node
// handle the same blocks.
func TestCatchingUpNodeAgrees(t *testing.T) {
	for _, y := range []syncSpec{{Syncing: true, HeadAge: 36000}, {Syncing: true, HeadAge: 30}, {HeadAge: 5}} {
		evid.Eval()
		s := chainSpec(config.ConsensusV12)
		s.Idents[2].Delegatee = nil
		tables := lotteryTables(s)
		parts := allFull(s)
		parts[6].Class = partAbsent
		s.Msgs = buildMessages(s, tables, parts)
		s.plainArrival()
		half := len(s.Msgs) / 2
		s.Split1 = []int{half, len(s.Msgs) - half}
		sp := y
		for mi, m := range s.Msgs {
			if m.Type == types.SubmitAnswersHashTx || m.Type == types.SubmitLongAnswersTx && m.From == 0 {
				sp.Early = append(sp.Early, mi)
			}
		}
		sp.ShortSplit = []int{len(sp.Early) / 2, len(sp.Early) - len(sp.Early)/2}
		sp.StartFlag = true
		sp.LongBlocks = 1
		s.Sync = &sp
		checkCase(t, s, tables)
		evid.Count("regression.sync-status-scenario-agrees")
	}
}

package c17

// Gossiped, not (yet) mined ceremony transactions: the tx pool publishes
// events.NewTxEvent for every transaction it accepts; the ceremony listens
// (Initialize -> addNewTx -> newTxLoop). Whatever a node hears this way is not
// chain data: a node that got such events - transactions that are never mined,
// or another version of a transaction whose sender gets a different one mined -
// before / between / after the blocks, also across a restart, must evaluate the
// epoch like a node that only saw the blocks.

import (
	"fmt"
	"sync/atomic"
	"testing"
	"time"

	"github.com/idena-network/idena-go/blockchain/attachments"
	"github.com/idena-network/idena-go/blockchain/types"
	"github.com/idena-network/idena-go/config"
	"github.com/idena-network/idena-go/core/ceremony"
	"github.com/idena-network/idena-go/crypto"
	"github.com/idena-network/idena-go/database"
	"github.com/idena-network/idena-go/events"
	dbm "github.com/tendermint/tm-db"
	"pgregory.net/rapid"

	"verifharness/internal/evid"
	"verifharness/internal/sim"
)

type mempoolTx struct {
	Msg      message
	Kind     string // "other-version" (the sender gets different content mined) or "never-mined" (no such transaction of the sender on chain)
	At       int    // delivered before block At of the chain (At = number of blocks: after the last one)
	MinedIn  int    // other-version: block that holds the mined version; -1 otherwise
	Own      bool
	Deferred bool
}

type mempoolSpec struct {
	Txs       []mempoolTx
	RestartAt int // the node is restarted after that many blocks (-1: never); events of the same position come after the restart
}

func (m *mempoolSpec) String() string {
	var x []string
	for _, tx := range m.Txs {
		x = append(x, fmt.Sprintf("id%d type=%d %s beforeBlock=%d minedVersionInBlock=%d own=%v deferred=%v payload=%x", tx.Msg.From, tx.Msg.Type, tx.Kind, tx.At, tx.MinedIn, tx.Own, tx.Deferred, tx.Msg.Payload))
	}
	return fmt.Sprintf("restartAfterBlocks=%d gossiped=%v", m.RestartAt, x)
}

var (
	sentinelKey  = sim.DeriveKey(0xC17C17C17, 7)
	sentinelAddr = crypto.PubkeyToAddress(sentinelKey.PublicKey)
	sentinelSeq  uint64
)

// gossip publishes the events the way TxPool.add does and waits until the
// ceremony's mempool loop has handled them (sentinel barrier, see the hook).
func (n *realNodeT) gossip(s *caseSpec, txs []mempoolTx) {
	for i := range txs {
		tx := &txs[i]
		n.bus.Publish(&events.NewTxEvent{Tx: tx.Msg.tx, Own: tx.Own, ShardId: s.Idents[tx.Msg.From].Shard, Deferred: tx.Deferred})
	}
	seq := atomic.AddUint64(&sentinelSeq, 1) + 1<<40
	st, err := types.SignTx(&types.Transaction{AccountNonce: uint32(seq), Epoch: s.Epoch, Type: types.SubmitShortAnswersTx,
		Payload: attachments.CreateShortAnswerAttachment(nil, seq, 1)}, sentinelKey)
	if err != nil {
		panic(err)
	}
	n.bus.Publish(&events.NewTxEvent{Tx: st, ShardId: 1})
	deadline := time.Now().Add(20 * time.Second)
	for {
		if v, ok := n.vc.VerifC17MempoolWordsRnd(sentinelAddr); ok && v == seq {
			return
		}
		if time.Now().After(deadline) {
			panic("harness: the ceremony's mempool loop did not handle the sentinel transaction")
		}
		time.Sleep(20 * time.Microsecond)
	}
}

func (s *caseSpec) signMempool() {
	for i := range s.Mempool.Txs {
		m := &s.Mempool.Txs[i].Msg
		if m.tx != nil {
			continue
		}
		signed, err := types.SignTx(&types.Transaction{AccountNonce: uint32(20000 + i), Epoch: s.Epoch, Type: m.Type, Payload: m.Payload}, s.Idents[m.From].Key)
		if err != nil {
			panic(err)
		}
		m.tx = signed
	}
}

func mempoolVariant(s *caseSpec, ledger dbm.DB, blocks []*types.Block) outcome {
	mp := s.Mempool
	s.signMempool()
	db := sim.CopyDB(ledger)
	database.NewEpochDb(db, s.Epoch).WriteLotterySeed(append([]byte(nil), s.LotterySeed...))
	head := plainBlock(90, s.ValidationT-60, nil)
	n := realNode(s, db, head, 120)
	for bi := 0; bi <= len(blocks); bi++ {
		if mp.RestartAt == bi {
			n = realNode(s, db, head, 180) // Initialize delivers the head block again
		}
		var now []mempoolTx
		for _, tx := range mp.Txs {
			if tx.At == bi {
				now = append(now, tx)
			}
		}
		if len(now) > 0 {
			n.gossip(s, now)
		}
		if bi < len(blocks) {
			n.addBlocks(blocks[bi : bi+1])
			head = blocks[bi]
		}
	}
	label := fmt.Sprintf("node that also heard %d gossiped transactions which are not in its blocks", len(mp.Txs))
	if mp.RestartAt >= 0 {
		label += fmt.Sprintf(" and was restarted after %d blocks", mp.RestartAt)
	}
	return n.evaluate(s, label)
}

func (s *caseSpec) recordMempool() {
	mp := s.Mempool
	if len(mp.Txs) == 0 {
		evid.Count("mempool.nothing-gossiped")
		return
	}
	unminedShort, twoVersion, twoVersionFirst, beforeRestart, persistedBeforeRestart := false, false, false, false, false
	for _, tx := range mp.Txs {
		if tx.Deferred {
			evid.Count("mempool.deferred-event")
			continue
		}
		if tx.Own {
			evid.Count("mempool.own-event")
		}
		if tx.Msg.Type == types.SubmitShortAnswersTx {
			unminedShort = true
			evid.Count("mempool.unmined-short-answers." + tx.Kind)
		}
		if tx.Kind == "other-version" {
			twoVersion = true
			if tx.At <= tx.MinedIn {
				twoVersionFirst = true
			}
		}
		if mp.RestartAt >= 0 && tx.At < mp.RestartAt {
			beforeRestart = true // at least one block (and its persist) lies between the event and the restart
			if tx.Msg.Type == types.SubmitShortAnswersTx && (tx.Kind == "never-mined" || tx.At <= tx.MinedIn) {
				persistedBeforeRestart = true
			}
		}
	}
	if unminedShort {
		evid.Count("mempool.unmined-short-answers-delivered")
	}
	if twoVersion {
		evid.Count("mempool.two-version-sender")
	}
	if twoVersionFirst {
		evid.Count("mempool.two-version-sender.unmined-version-heard-first")
	}
	if beforeRestart {
		evid.Count("mempool.delivered-before-restart")
	}
	if persistedBeforeRestart {
		evid.Count("mempool.unmined-short-answers-then-block-then-restart")
	}
	if mp.RestartAt >= 0 {
		evid.Count("mempool.with-restart")
	} else {
		evid.Count("mempool.no-restart")
	}
}

func drawMempool(t *rapid.T, s *caseSpec, tables []ceremony.VerifC17Shard) {
	mp := &mempoolSpec{RestartAt: -1}
	nb := len(s.Split1)
	type key struct {
		from int
		typ  types.TxType
	}
	minedIn := map[key]int{}
	origOf := map[key]int{}
	pos := 0
	for bi, size := range s.Split1 {
		for k := 0; k < size; k++ {
			mi := s.Order1[pos]
			pos++
			m := s.Msgs[mi]
			if !m.Dup {
				minedIn[key{m.From, m.Type}] = bi
				origOf[key{m.From, m.Type}] = mi
			}
		}
	}
	var candidates []int
	for _, sh := range tables {
		for _, a := range sh.Candidates {
			candidates = append(candidates, s.byAddr[a])
		}
	}
	var minedShort, minedOther []int // message indexes
	for k, mi := range origOf {
		if k.typ == types.SubmitShortAnswersTx {
			minedShort = append(minedShort, mi)
		} else {
			minedOther = append(minedOther, mi)
		}
	}
	sortInts(minedShort)
	sortInts(minedOther)
	var noShort, noShortButLong []int // candidates without short answers on chain
	for _, c := range candidates {
		if _, ok := minedIn[key{c, types.SubmitShortAnswersTx}]; !ok {
			noShort = append(noShort, c)
			if _, ok := minedIn[key{c, types.SubmitLongAnswersTx}]; ok {
				noShortButLong = append(noShortButLong, c)
			}
		}
	}
	used := map[key]bool{}
	typesByWeight := []types.TxType{types.SubmitShortAnswersTx, types.SubmitLongAnswersTx, types.SubmitAnswersHashTx, types.EvidenceTx}
	for k, cnt := 0, []int{1, 2, 3, 4, 0}[pick(t, "gossipedCount", 4, 3, 2, 1, 1)]; k < cnt; k++ {
		var tx mempoolTx
		tx.MinedIn = -1
		switch kind := pick(t, "gossipedKind", 4, 3, 3); {
		case kind == 0 && len(minedShort) > 0, kind == 2 && len(minedOther) > 0 && rapid.Bool().Draw(t, "otherVersionOfOtherType"):
			pool := minedShort
			if kind == 2 {
				pool = minedOther
			}
			m := s.Msgs[pool[rapid.IntRange(0, len(pool)-1).Draw(t, "otherVersionOf")]]
			tx.Msg = message{From: m.From, Type: m.Type, Payload: alternativePayload(m)}
			tx.Kind = "other-version"
			tx.MinedIn = minedIn[key{m.From, m.Type}]
			if pick(t, "heardFirst", 8, 2) == 0 {
				tx.At = rapid.IntRange(0, tx.MinedIn).Draw(t, "gossipedBeforeBlock")
			} else {
				tx.At = rapid.IntRange(0, nb).Draw(t, "gossipedBeforeBlock")
			}
		case kind == 1 && len(noShort) > 0:
			pool := noShort
			if len(noShortButLong) > 0 && pick(t, "preferLongOnChain", 8, 2) == 0 {
				pool = noShortButLong
			}
			from := pool[rapid.IntRange(0, len(pool)-1).Draw(t, "neverMinedSender")]
			tx.Msg = message{From: from, Type: types.SubmitShortAnswersTx, Payload: onlyHerePayload(s, from, types.SubmitShortAnswersTx, rapid.Int64().Draw(t, "neverMinedSeed"))}
			tx.Kind = "never-mined"
			tx.At = rapid.IntRange(0, nb).Draw(t, "gossipedBeforeBlock")
		default:
			if len(candidates) == 0 {
				continue
			}
			found := false
			for try := 0; try < 8 && !found; try++ {
				from := candidates[rapid.IntRange(0, len(candidates)-1).Draw(t, "neverMinedSender")]
				typ := typesByWeight[pick(t, "neverMinedType", 3, 3, 2, 2)]
				if _, ok := minedIn[key{from, typ}]; ok || typ == types.EvidenceTx && !canSendEvidence(s, &s.Idents[from]) {
					continue
				}
				tx.Msg = message{From: from, Type: typ, Payload: onlyHerePayload(s, from, typ, rapid.Int64().Draw(t, "neverMinedSeed"))}
				tx.Kind = "never-mined"
				tx.At = rapid.IntRange(0, nb).Draw(t, "gossipedBeforeBlock")
				found = true
			}
			if !found {
				continue
			}
		}
		kk := key{tx.Msg.From, tx.Msg.Type}
		if used[kk] {
			continue // the pool holds one transaction per sender and type
		}
		used[kk] = true
		tx.Own = pick(t, "ownEvent", 9, 1) == 1
		tx.Deferred = pick(t, "deferredEvent", 9, 1) == 1
		mp.Txs = append(mp.Txs, tx)
	}
	if rapid.Bool().Draw(t, "restartGossipNode") {
		mp.RestartAt = rapid.IntRange(0, nb).Draw(t, "restartGossipNodeAfterBlocks")
		if nb > 0 && pick(t, "restartLate", 5, 5) == 1 {
			mp.RestartAt = nb - rapid.IntRange(0, nb-1).Draw(t, "restartBeforeLastBlocks")
		}
	}
	s.Mempool = mp
}

func sortInts(a []int) {
	for i := 1; i < len(a); i++ {
		for j := i; j > 0 && a[j] < a[j-1]; j-- {
			a[j], a[j-1] = a[j-1], a[j]
		}
	}
}

// Plain scenario on the hand-made ceremony: candidate A's other short answers are
// gossiped before the block that mines its real ones; a Verified identity that has
// hash and long answers on chain but never gets short answers mined has some
// gossiped; the node is restarted after the first block.
func TestGossipedTransactionsDoNotCount(t *testing.T) {
	for _, restartAt := range []int{1, -1} {
		evid.Eval()
		s := chainSpec(config.ConsensusV12)
		s.Idents[2].Delegatee = nil
		tables := lotteryTables(s)
		parts := allFull(s)
		parts[6].Class = partAbsent
		parts[7].Class = partNoShort
		s.Msgs = buildMessages(s, tables, parts)
		s.plainArrival()
		half := len(s.Msgs) / 2
		s.Split1 = []int{half, len(s.Msgs) - half}
		var aShort *message
		for i := range s.Msgs {
			if s.Msgs[i].From == 0 && s.Msgs[i].Type == types.SubmitShortAnswersTx {
				aShort = &s.Msgs[i]
			}
		}
		if aShort == nil {
			t.Fatalf("harness: candidate A has no short answers")
		}
		s.Mempool = &mempoolSpec{RestartAt: restartAt, Txs: []mempoolTx{
			{Msg: message{From: 0, Type: types.SubmitShortAnswersTx, Payload: alternativePayload(*aShort)}, Kind: "other-version", At: 0, MinedIn: 1},
			{Msg: message{From: 7, Type: types.SubmitShortAnswersTx, Payload: onlyHerePayload(s, 7, types.SubmitShortAnswersTx, 5)}, Kind: "never-mined", At: 0, MinedIn: -1},
			{Msg: message{From: 6, Type: types.SubmitAnswersHashTx, Payload: onlyHerePayload(s, 6, types.SubmitAnswersHashTx, 6)}, Kind: "never-mined", At: 1, MinedIn: -1},
		}}
		checkCase(t, s, tables)
		evid.Count("regression.gossip-scenario-agrees")
	}
}

package c17

// Part (a): the status decision table (ceremony.determineNewIdentityState through
// the re-export VerifDetermineNewIdentityState). The oracle consists of the
// implications the property statement spells out and nothing else:
//
//	(i)   missed the session OR lacks required flips  =>  new status not in {Newbie, Verified, Human}
//	(ii)  prior status Invite                         =>  new status Killed
//	(iii) prior status Killed or Undefined            =>  new status in {Killed, Undefined}
//	(iv)  same inputs twice                           =>  same output
//
// Which threshold promotes whom is NOT checked here (the statement does not say).

import (
	"fmt"
	"math"
	"testing"

	"github.com/idena-network/idena-go/common"
	"github.com/idena-network/idena-go/core/ceremony"
	"github.com/idena-network/idena-go/core/state"
	"pgregory.net/rapid"

	"verifharness/internal/evid"
)

func TestMain(m *testing.M) { evid.Main(m) }

var allStates = []state.IdentityState{state.Undefined, state.Invite, state.Candidate, state.Newbie, state.Verified, state.Human, state.Suspended, state.Zombie, state.Killed}

func stateName(s state.IdentityState) string {
	switch s {
	case state.Undefined:
		return "Undefined"
	case state.Invite:
		return "Invite"
	case state.Candidate:
		return "Candidate"
	case state.Newbie:
		return "Newbie"
	case state.Verified:
		return "Verified"
	case state.Human:
		return "Human"
	case state.Suspended:
		return "Suspended"
	case state.Zombie:
		return "Zombie"
	case state.Killed:
		return "Killed"
	}
	return fmt.Sprintf("state(%d)", uint8(s))
}

type tableInput struct {
	Prior                        state.IdentityState
	Required                     uint8
	Made                         int
	Short, Long, Total           float32
	TotalFlips                   uint32
	Missed, NoQualS, NoQualL     bool
	NewbieFix, Upgrade10, Upgr12 bool
	ShortCnt                     uint32
}

func (in tableInput) String() string {
	return fmt.Sprintf("prior=%s requiredFlips=%d madeFlips=%d short=%v(bits %08x) long=%v(%08x) total=%v(%08x) totalQualifiedFlips=%d missed=%v noQualShort=%v noQualLong=%v candidateToNewbieFix=%v upgrade10=%v upgrade12=%v shortQualifiedFlips=%d",
		stateName(in.Prior), in.Required, in.Made, in.Short, math.Float32bits(in.Short), in.Long, math.Float32bits(in.Long), in.Total, math.Float32bits(in.Total),
		in.TotalFlips, in.Missed, in.NoQualS, in.NoQualL, in.NewbieFix, in.Upgrade10, in.Upgr12, in.ShortCnt)
}

var flipSlices = func() [][]state.IdentityFlip {
	res := make([][]state.IdentityFlip, 8)
	for n := range res {
		for i := 0; i < n; i++ {
			res[n] = append(res[n], state.IdentityFlip{Cid: []byte{1, byte(n), byte(i)}, Pair: uint8(i)})
		}
	}
	return res
}()

func decide(in tableInput) state.IdentityState {
	id := state.Identity{State: in.Prior, RequiredFlips: in.Required, Flips: flipSlices[in.Made]}
	return ceremony.VerifDetermineNewIdentityState(id, in.Short, in.Long, in.Total, in.TotalFlips, in.Missed, in.NoQualS, in.NoQualL, in.NewbieFix, in.Upgrade10, in.ShortCnt, in.Upgr12)
}

// statementViolation returns "" or the clause of the statement the decision breaks.
func statementViolation(in tableInput, out state.IdentityState) string {
	lacking := in.Made < int(in.Required)
	if (in.Missed || lacking) && out.NewbieOrBetter() {
		return "an identity that missed the session or lacked its required flips was promoted or left validated"
	}
	if in.Prior == state.Invite && out != state.Killed {
		return "an invitation that was not activated was not terminated"
	}
	if (in.Prior == state.Killed || in.Prior == state.Undefined) && out != state.Killed && out != state.Undefined {
		return "a terminated or undefined identity came back through validation"
	}
	return ""
}

func around(v float32) []float32 {
	return []float32{math.Nextafter32(v, -1), v, math.Nextafter32(v, 2)}
}

// TestDecisionTableGrid enumerates the full product of the value lists below.
func TestDecisionTableGrid(t *testing.T) {
	minShort, minLong, minTotal, minHuman := float32(common.MinShortScore), float32(common.MinLongScore), float32(common.MinTotalScore), float32(common.MinHumanTotalScore)
	nan := float32(math.NaN())
	shorts := append([]float32{0, math.SmallestNonzeroFloat32}, append(around(minShort), 1)...)
	longs := append([]float32{0}, append(around(minLong), 1)...)
	totals := append(append(append([]float32{0}, around(minTotal)...), around(minHuman)...), 1, nan) // 0/0 (no qualified flip ever) gives NaN in calculateNewTotalScore
	totalFlips := []uint32{0, common.MinFlipsForVerified - 1, common.MinFlipsForVerified, common.MinFlipsForVerified + 1, common.MinFlipsForHuman - 1, common.MinFlipsForHuman, common.MinFlipsForHuman + 1}
	shortCnts := []uint32{0, 1, 2, 3, 6}
	flipsDone := []struct {
		req  uint8
		made int
	}{{0, 0}, {3, 3}, {3, 4}, {3, 2}, {1, 0}}
	bools := []bool{false, true}

	n := 0
	perPrior := map[state.IdentityState]map[state.IdentityState]int{}
	for _, prior := range allStates {
		outs := map[state.IdentityState]int{}
		perPrior[prior] = outs
		for _, fd := range flipsDone {
			for _, missed := range bools {
				for _, nqs := range bools {
					for _, nql := range bools {
						for flags := 0; flags < 8; flags++ {
							for _, sc := range shortCnts {
								for _, tf := range totalFlips {
									for _, s := range shorts {
										for _, l := range longs {
											for _, tot := range totals {
												in := tableInput{Prior: prior, Required: fd.req, Made: fd.made, Short: s, Long: l, Total: tot, TotalFlips: tf,
													Missed: missed, NoQualS: nqs, NoQualL: nql, NewbieFix: flags&1 != 0, Upgrade10: flags&2 != 0, Upgr12: flags&4 != 0, ShortCnt: sc}
												out := decide(in)
												n++
												if v := statementViolation(in, out); v != "" {
													t.Fatalf("decision table: %s: %s -> %s", v, in, stateName(out))
												}
												if again := decide(in); again != out {
													t.Fatalf("decision table is not a function of its inputs: %s -> %s, then %s", in, stateName(out), stateName(again))
												}
												outs[out]++
											}
										}
									}
								}
							}
						}
					}
				}
			}
		}
	}
	evid.EvalN(n)
	evid.Extra("grid.points", n)
	evid.Extra("grid.dimensions", map[string]int{"prior": len(allStates), "requiredFlips-x-made": len(flipsDone), "missed": 2, "noQualShort": 2, "noQualLong": 2, "flags": 8,
		"shortQualifiedFlips": len(shortCnts), "totalQualifiedFlips": len(totalFlips), "shortScore": len(shorts), "longScore": len(longs), "totalScore": len(totals)})
	dist := map[string]int{}
	for p, outs := range perPrior {
		for o, c := range outs {
			dist[stateName(p)+"->"+stateName(o)] = c
			evid.CountN("grid."+stateName(p)+"->"+stateName(o), c)
		}
	}
	t.Logf("grid points: %d; transitions seen: %v", n, dist)
	// the grid must actually reach promotions, otherwise clause (i) is vacuous
	for _, tr := range []string{"Candidate->Newbie", "Newbie->Verified", "Verified->Human", "Suspended->Verified", "Zombie->Verified", "Human->Human", "Human->Suspended", "Suspended->Zombie", "Newbie->Killed"} {
		if dist[tr] == 0 {
			t.Fatalf("harness: the grid never produces %s - value lists do not straddle the thresholds", tr)
		}
	}
}

// TestDecisionTableNearBoundaries draws float32 scores a few ulps around every
// threshold (and anywhere in [0,1]) together with arbitrary discrete inputs.
func TestDecisionTableNearBoundaries(t *testing.T) {
	bounds := []float32{0, float32(common.MinShortScore), float32(common.MinLongScore), float32(common.MinTotalScore), float32(common.MinHumanTotalScore), 1, 0.5}
	score := rapid.Custom(func(t *rapid.T) float32 {
		switch rapid.IntRange(0, 5).Draw(t, "scoreKind") {
		case 0:
			return rapid.Float32Range(0, 1).Draw(t, "anyScore")
		case 1:
			// a quotient points/flips as the ceremony computes it
			fl := rapid.IntRange(1, 40).Draw(t, "flips")
			halfPoints := rapid.IntRange(0, 2*fl).Draw(t, "halfPoints")
			return float32(halfPoints) / 2 / float32(fl)
		case 2:
			if rapid.IntRange(0, 9).Draw(t, "nan") == 0 {
				return float32(math.NaN())
			}
			fallthrough
		default:
			b := rapid.SampledFrom(bounds).Draw(t, "bound")
			k := rapid.IntRange(-3, 3).Draw(t, "ulps")
			for ; k > 0; k-- {
				b = math.Nextafter32(b, 2)
			}
			for ; k < 0; k++ {
				b = math.Nextafter32(b, -1)
			}
			return b
		}
	})
	rapid.Check(t, func(t *rapid.T) {
		evid.Eval()
		req := uint8(rapid.IntRange(0, 6).Draw(t, "requiredFlips"))
		in := tableInput{
			Prior:      rapid.SampledFrom(allStates).Draw(t, "prior"),
			Required:   req,
			Made:       rapid.IntRange(0, 7).Draw(t, "madeFlips"),
			Short:      score.Draw(t, "short"),
			Long:       score.Draw(t, "long"),
			Total:      score.Draw(t, "total"),
			TotalFlips: uint32(rapid.SampledFrom([]int{0, 1, 11, 12, 13, 14, 22, 23, 24, 25, 40, 200}).Draw(t, "totalFlips")),
			Missed:     rapid.Bool().Draw(t, "missed"),
			NoQualS:    rapid.Bool().Draw(t, "noQualShort"),
			NoQualL:    rapid.Bool().Draw(t, "noQualLong"),
			NewbieFix:  rapid.Bool().Draw(t, "fix"),
			Upgrade10:  rapid.Bool().Draw(t, "u10"),
			Upgr12:     rapid.Bool().Draw(t, "u12"),
			ShortCnt:   uint32(rapid.IntRange(0, 8).Draw(t, "shortCnt")),
		}
		out := decide(in)
		if v := statementViolation(in, out); v != "" {
			t.Fatalf("decision table: %s: %s -> %s", v, in, stateName(out))
		}
		if again := decide(in); again != out {
			t.Fatalf("decision table is not a function of its inputs: %s -> %s, then %s", in, stateName(out), stateName(again))
		}
		evid.Count("near." + stateName(in.Prior) + "->" + stateName(out))
		if in.Missed || in.Made < int(in.Required) {
			evid.Count("near.missed-or-lacking-flips")
		}
		if out.NewbieOrBetter() && out != in.Prior {
			evid.Count("near.promotions")
		}
	})
}

package c17

// Plain (non-rapid) cases: the minimal layouts of the two hypotheses from reading,
// and a hand-made ceremony that must come out non-trivial (harness self-test).

import (
	"math/big"
	"testing"

	"github.com/idena-network/idena-go/blockchain/types"
	"github.com/idena-network/idena-go/common"
	"github.com/idena-network/idena-go/config"
	"github.com/idena-network/idena-go/core/state"
	"github.com/idena-network/idena-go/crypto"

	"verifharness/internal/evid"
	"verifharness/internal/sim"
)

type handIdent struct {
	State    state.IdentityState
	Shard    int
	Required uint8
	Flips    int
	Scores   []byte
	Age      int
	Stake    int64
}

func handSpec(epoch uint16, ver config.ConsensusVerson, shards int, ids []handIdent) *caseSpec {
	s := &caseSpec{KeySeed: 0xC17, Epoch: epoch, Version: ver, ShardsNum: uint32(shards), Period: state.AfterLongSessionPeriod, ValidationT: 1893456000}
	s.LotterySeed = make([]byte, 32)
	for i := range s.LotterySeed {
		s.LotterySeed[i] = byte(3*i + 1)
	}
	s.WordsSeed = types.Seed{7, 7, 7}
	for i, h := range ids {
		key := sim.DeriveKey(s.KeySeed, i)
		id := identSpec{Key: key, Addr: crypto.PubkeyToAddress(key.PublicKey), Pub: crypto.FromECDSAPub(&key.PublicKey), State: h.State,
			Shard: common.ShardId(h.Shard), StoredId: common.ShardId(h.Shard), Required: h.Required, Stake: sim.Dna(h.Stake), Balance: big.NewInt(0), Scores: h.Scores}
		if int(epoch) >= h.Age && h.State != state.Candidate {
			id.Birthday = epoch - uint16(h.Age)
		}
		for j := 0; j < h.Flips; j++ {
			id.Flips = append(id.Flips, []byte{0x01, 0x55, byte(h.Shard), byte(i), byte(j)})
		}
		s.Idents = append(s.Idents, id)
	}
	s.index()
	s.God = crypto.PubkeyToAddress(sim.DeriveKey(s.KeySeed, 999).PublicKey)
	return s
}

func (s *caseSpec) plainArrival() {
	s.Order1, s.Order2 = nil, nil
	for i := range s.Msgs {
		s.Order1 = append(s.Order1, i)
		s.Order2 = append([]int{i}, s.Order2...)
	}
	s.Split1 = []int{len(s.Msgs)}
	half := len(s.Msgs) / 2
	s.Split2 = []int{half, len(s.Msgs) - half}
	s.RestartK = 1
	s.Zone = 9 * 3600
	s.Clocks = []int64{0, 600, -600, 7200}
}

func allFull(s *caseSpec) []participation {
	parts := make([]participation, len(s.Idents))
	for i := range parts {
		parts[i] = participation{Class: partFull, Skill: 100, Seed: int64(1000 + i), Evidence: true}
	}
	return parts
}

// H11: one validated identity alone in a shard without flips sends long answers.
func TestFliplessShardLongAnswers(t *testing.T) {
	for _, emptyBits := range []bool{false, true} {
		evid.Eval()
		s := handSpec(5, config.ConsensusV12, 1, []handIdent{{State: state.Verified, Shard: 1, Stake: 10}})
		tables := lotteryTables(s)
		if len(tables) != 1 || len(tables[0].Candidates) != 1 || len(tables[0].Flips) != 0 {
			t.Fatalf("harness: unexpected lottery tables %+v", tables)
		}
		t.Logf("lottery: candidates=1 flips=0 shortFlips=%v longFlips=%v", tables[0].ShortFlips, tables[0].LongFlips)
		parts := allFull(s)
		if emptyBits {
			parts[0].LongBits = bitsEmpty
		}
		for _, m := range buildMessages(s, tables, parts) {
			if m.Type == types.SubmitLongAnswersTx {
				s.Msgs = append(s.Msgs, m) // the long answers alone are enough
			}
		}
		if len(fliplessLongAnswers(s, tables)) != 1 {
			t.Fatalf("harness: no long answers generated")
		}
		s.plainArrival()
		checkCase(t, s, tables)
		evid.Count("regression.flipless-shard-evaluates")
	}
}

// chainSpec: three authors whose flips everybody solves, two candidates A -> B
// delegating along A -> B -> C -> D.
func chainSpec(ver config.ConsensusVerson) *caseSpec {
	good := []byte{0xC6, 0xC6, 0xC6}
	s := handSpec(100, ver, 1, []handIdent{
		{State: state.Candidate, Shard: 1, Stake: 5},                                        // A
		{State: state.Candidate, Shard: 1, Stake: 5},                                        // B
		{State: state.Verified, Shard: 1, Required: 3, Flips: 3, Scores: good, Age: 5, Stake: 50}, // C
		{State: state.Verified, Shard: 1, Required: 3, Flips: 3, Scores: good, Age: 5, Stake: 50}, // D
		{State: state.Human, Shard: 1, Required: 3, Flips: 3, Scores: good, Age: 9, Stake: 50},    // evidence
		{State: state.Human, Shard: 1, Required: 3, Flips: 3, Scores: good, Age: 9, Stake: 50},    // evidence
		{State: state.Newbie, Shard: 1, Required: 3, Flips: 3, Scores: nil, Age: 1, Stake: 5},     // will miss
		// more than eight candidates: the per-identity result map then spans several buckets and Go
		// randomises its iteration order much more (a regression to map-order application shows up
		// in about every second evaluation)
		{State: state.Verified, Shard: 1, Required: 3, Flips: 3, Scores: good, Age: 5, Stake: 50},
		{State: state.Verified, Shard: 1, Required: 3, Flips: 3, Scores: good, Age: 5, Stake: 50},
		{State: state.Candidate, Shard: 1, Stake: 5},
		{State: state.Candidate, Shard: 1, Stake: 5},
		{State: state.Candidate, Shard: 1, Stake: 5},
	})
	for k := 0; k < 3; k++ {
		d := s.Idents[k+1].Addr
		s.Idents[k].Delegatee = &d
	}
	return s
}

// H7: the order in which the per-identity results are applied must not matter.
func TestDelegationChainOrder(t *testing.T) {
	for _, ver := range []config.ConsensusVerson{config.ConsensusV12, config.ConsensusV9} {
		evid.Eval()
		s := chainSpec(ver)
		tables := lotteryTables(s)
		parts := allFull(s)
		parts[6].Class = partAbsent
		s.Msgs = buildMessages(s, tables, parts)
		s.plainArrival()
		if _, sens := delegationChains(s); len(sens) == 0 {
			t.Fatalf("harness: the layout is not recognised as order-sensitive")
		}
		checkCase(t, s, tables)
		evid.Count("regression.delegation-chain-order-independent")
	}
}

// Harness self-test: the hand-made ceremony without the third link of the chain
// must be evaluated identically everywhere and be non-trivial (both candidates
// become Newbie, the absent newbie is killed).
func TestHandMadeCeremony(t *testing.T) {
	evid.Eval()
	s := chainSpec(config.ConsensusV12)
	s.Idents[2].Delegatee = nil // A -> B -> C only
	tables := lotteryTables(s)
	parts := allFull(s)
	parts[6].Class = partAbsent
	s.Msgs = buildMessages(s, tables, parts)
	s.plainArrival()
	checkCase(t, s, tables)
	s.signAll()
	n := freshNode(s, buildLedger(s))
	deliver(n, s.blocks(s.Order1, s.Split1))
	o := n.evaluate(s, "self-test")
	if o.Failed || o.After[s.Idents[0].Addr] != state.Newbie || o.After[s.Idents[1].Addr] != state.Newbie || o.After[s.Idents[6].Addr] != state.Killed {
		t.Fatalf("harness: hand-made ceremony did not come out as designed: failed=%v A=%s B=%s absent newbie=%s\n%s", o.Failed,
			stateName(o.After[s.Idents[0].Addr]), stateName(o.After[s.Idents[1].Addr]), stateName(o.After[s.Idents[6].Addr]), o.Canon)
	}
	// A's delegatee B delegates itself: A's delegation is a transitive one and must be gone, B keeps its own
	a := o.check.State.GetIdentity(s.Idents[0].Addr)
	b := o.check.State.GetIdentity(s.Idents[1].Addr)
	t.Logf("after: A delegatee=%v B delegatee=%v pools=%d", a.Delegatee() != nil, b.Delegatee() != nil, len(o.res.Pools))
}

package c17

// Reachability of the order-sensitive delegation chain: the epoch tests set
// chains A -> B -> C -> D directly in the ledger; this test produces one with
// real DelegateTx transactions on a simulated chain (real TxPool, ProposeBlock,
// AddBlock, applyDelegationSwitch), one delegation per delegation-switch window.

import (
	"testing"
	"time"

	"github.com/idena-network/idena-go/blockchain"
	"github.com/idena-network/idena-go/blockchain/types"
	"github.com/idena-network/idena-go/blockchain/validation"
	"github.com/idena-network/idena-go/common"
	"github.com/idena-network/idena-go/core/state"
	"github.com/shopspring/decimal"

	"verifharness/internal/evid"
	"verifharness/internal/sim"
)

func TestDelegationChainReachableOnChain(t *testing.T) {
	evid.Eval()
	defer func() { time.Local = time.UTC }()
	p := sim.Params{
		KeySeed: 0xC17, NActors: 5,
		States:    []state.IdentityState{state.Verified, state.Candidate, state.Candidate, state.Verified, state.Verified}, // god, A, B, C, D
		Profile:   "v12",
		SwitchRng: 3, DelegRng: 2, DiscrRng: 3, SnapRng: 1000,
		Start:      time.Date(2030, 1, 7, 12, 0, 0, 0, time.UTC).Unix(),
		CeremonyIn: 1000000, Interval: 3600, LotteryDur: 30, ShortDur: 30, LongDur: 30, Outcome: 1,
	}
	for i := 0; i < p.NActors; i++ {
		p.Balances = append(p.Balances, sim.Dna(1000))
		p.Stakes = append(p.Stakes, sim.Dna(10))
	}
	w := sim.NewWorld(p)
	r, err := w.AddReplica("G", w.God.Key, nil)
	if err != nil {
		t.Fatalf("harness: %v", err)
	}
	a, b, c, d := w.Actors[1], w.Actors[2], w.Actors[3], w.Actors[4]
	delegatee := func(x *sim.Actor) *common.Address {
		id := r.ReadState().State.GetIdentity(x.Addr)
		return id.Delegatee()
	}
	step := func() *types.Block {
		w.Advance(20 * time.Second)
		var blk *types.Block
		if r.CanPropose() {
			blk = r.Propose().Block
		} else {
			blk = r.EmptyBlock()
		}
		if err := r.AddBlock(blk); err != nil {
			t.Fatalf("harness: block refused: %v", err)
		}
		return blk
	}
	delegate := func(from, to *sim.Actor) {
		tx := blockchain.BuildTx(r.AppState, from.Addr, &to.Addr, types.DelegateTx, decimal.Zero, decimal.NewFromInt(20), decimal.Zero, 0, 0, nil)
		signed, err := types.SignTx(tx, from.Key)
		if err != nil {
			t.Fatalf("harness: %v", err)
		}
		if err := r.Pool.AddExternalTxs(validation.InboundTx, signed); err != nil {
			t.Fatalf("delegation %s -> %s refused by the pool: %v (chain so far: A->%v B->%v C->%v)", from, to, err, delegatee(a), delegatee(b), delegatee(c))
		}
		for i := 0; i < 12; i++ {
			blk := step()
			if got := delegatee(from); got != nil {
				if *got != to.Addr {
					t.Fatalf("harness: unexpected delegatee")
				}
				t.Logf("%s -> %s in force after %s", from, to, sim.BlockDesc(blk))
				return
			}
		}
		t.Fatalf("delegation %s -> %s never came into force (chain so far: A->%v B->%v C->%v)", from, to, delegatee(a), delegatee(b), delegatee(c))
	}
	step()
	delegate(a, b)
	delegate(b, c)
	delegate(c, d)
	s := r.ReadState()
	for _, x := range []*sim.Actor{a, b} {
		if st := s.State.GetIdentity(x.Addr).State; st != state.Candidate {
			t.Fatalf("harness: %s is %d, expected Candidate", x, st)
		}
	}
	da, db, dc := delegatee(a), delegatee(b), delegatee(c)
	if da == nil || db == nil || dc == nil || *da != b.Addr || *db != c.Addr || *dc != d.Addr {
		t.Fatalf("chain not established: A->%v B->%v C->%v", da, db, dc)
	}
	evid.Count("reachability.chain-of-3-built-by-delegate-transactions")
}

package c13

import (
	"bytes"
	"errors"
	"fmt"
	"strings"
	"testing"

	"github.com/idena-network/idena-go/database"
	dbm "github.com/tendermint/tm-db"
	"pgregory.net/rapid"

	"verifharness/internal/evid"
	"verifharness/internal/kf"
)

// Operations an ordinary store REFUSES (tm-db MemDB: empty key on every entry
// point, nil value on Set/SetSync/batch Set, empty non-nil iterator bound, any
// staging or writing on a batch that has been written or closed) must be
// refused by the copy-on-write store in the same way and must leave the view
// exactly as an ordinary store pre-loaded with the base data is left: the
// returned errors and the complete observable state are compared after every
// single step.

// the keys whose point reads make up the observable state ([a-c]{1,2})
var refusalUniverse = func() [][]byte {
	var u [][]byte
	for _, a := range "abc" {
		u = append(u, []byte(string(a)))
		for _, b := range "abc" {
			u = append(u, []byte(string(a)+string(b)))
		}
	}
	return u
}()

func showBytes(b []byte) string {
	if b == nil {
		return "nil"
	}
	return fmt.Sprintf("%q", b)
}

func errText(e error) string {
	if e == nil {
		return "<nil>"
	}
	return e.Error()
}

// same outcome: both accepted, or both refused for the same reason
func sameErr(a, b error) bool {
	if a == nil || b == nil {
		return a == nil && b == nil
	}
	return errors.Is(a, b) || a.Error() == b.Error()
}

// key of a write / point read: mostly ordinary, sometimes nil or empty (refused)
func drawKeyR(t *rapid.T, label string) []byte {
	switch rapid.IntRange(0, 9).Draw(t, label+"Class") {
	case 8:
		return nil
	case 9:
		return []byte{}
	}
	return []byte(rapid.StringMatching(`[a-c]{1,2}`).Draw(t, label))
}

// value of a write: nil (refused), empty non-nil (accepted), ordinary
func drawValR(t *rapid.T, label string) []byte {
	switch rapid.IntRange(0, 7).Draw(t, label+"Class") {
	case 0, 1:
		return nil
	case 2:
		return []byte{}
	}
	return []byte(rapid.StringMatching(`[x-z0-9]{1,3}`).Draw(t, label))
}

// iterator bound: nil (open), ordinary, sometimes empty non-nil (refused)
func drawBoundR(t *rapid.T, label string) []byte {
	switch rapid.IntRange(0, 7).Draw(t, label+"Class") {
	case 0, 1:
		return nil
	case 7:
		return []byte{}
	}
	return []byte(rapid.StringMatching(`[a-c]{1,2}`).Draw(t, label))
}

type fatalfer interface {
	Fatalf(format string, args ...interface{})
}

func scanText(t fatalfer, d dbm.DB, start, end []byte, reverse bool) string {
	var it dbm.Iterator
	var err error
	if reverse {
		it, err = d.ReverseIterator(start, end)
	} else {
		it, err = d.Iterator(start, end)
	}
	if err != nil {
		return "ERR " + err.Error()
	}
	defer it.Close()
	var sb strings.Builder
	for n := 0; it.Valid(); it.Next() {
		fmt.Fprintf(&sb, "%q=%s ", it.Key(), showBytes(it.Value()))
		if n++; n > 10000 {
			t.Fatalf("iterator does not terminate")
		}
	}
	return sb.String()
}

// everything a caller can see of a store: point reads of every key of the
// universe (and of the empty key), full scans and the given ranges in both
// directions
func observeStore(t fatalfer, d dbm.DB, ranges [][2][]byte) string {
	var sb strings.Builder
	for _, k := range append([][]byte{nil}, refusalUniverse...) {
		v, e := d.Get(k)
		h, e2 := d.Has(k)
		if v != nil || h || e != nil || e2 != nil {
			fmt.Fprintf(&sb, "get(%q)=%s,%s has=%v,%s; ", k, showBytes(v), errText(e), h, errText(e2))
		}
	}
	fmt.Fprintf(&sb, "\n   fwd: %s\n   rev: %s", scanText(t, d, nil, nil, false), scanText(t, d, nil, nil, true))
	for _, r := range ranges {
		fmt.Fprintf(&sb, "\n   fwd[%s,%s): %s\n   rev[%s,%s): %s", showBytes(r[0]), showBytes(r[1]), scanText(t, d, r[0], r[1], false),
			showBytes(r[0]), showBytes(r[1]), scanText(t, d, r[0], r[1], true))
	}
	return sb.String()
}

type refusalBatch struct {
	ov, ref  dbm.Batch
	finished bool            // written or closed: every further staging / writing is refused
	staged   map[string]bool // keys of the accepted staged operations
	refused  map[string]bool // ordinary keys of staging calls refused for a nil value while the batch was open
	n        int
}

const kfRefusedBatchSet = "c13.refused-batch-set-marks-key"

func TestOverlayRefusedOperations(t *testing.T) {
	rapid.Check(t, func(t *rapid.T) {
		evid.Eval()
		base, ref := dbm.NewMemDB(), dbm.NewMemDB()
		baseKeys := map[string]bool{}
		for i, n := 0, rapid.IntRange(0, 8).Draw(t, "nBase"); i < n; i++ {
			k := []byte(rapid.StringMatching(`[a-c]{1,2}`).Draw(t, "bk"))
			v := genVal().Draw(t, "bv")
			base.Set(k, v)
			ref.Set(k, v)
			baseKeys[string(k)] = true
		}
		baseImage := kvString(dump(t, base, nil, nil, false))
		ov := database.NewBackedMemDb(base)

		written := map[string]bool{} // keys written (set or deleted) through the view so far
		var trace []string
		var batches []*refusalBatch
		flags := map[string]bool{}
		hot := 0 // refused writes addressed to a base key not yet written through the view
		// keys for which the just executed step is an instance of the recorded finding kfRefusedBatchSet
		var knownShape []string

		fresh := func(k []byte) bool { return len(k) > 0 && baseKeys[string(k)] && !written[string(k)] }
		pickBatch := func(t *rapid.T) *refusalBatch {
			if len(batches) == 0 || rapid.IntRange(0, 3).Draw(t, "newBatch") == 0 {
				b := &refusalBatch{ov: ov.NewBatch(), ref: ref.NewBatch(), staged: map[string]bool{}, refused: map[string]bool{}, n: len(trace)}
				batches = append(batches, b)
				if len(batches) > 3 {
					batches = batches[1:]
				}
				return b
			}
			return batches[rapid.IntRange(0, len(batches)-1).Draw(t, "batchIdx")]
		}

		t.Repeat(map[string]func(*rapid.T){
			"set": func(t *rapid.T) {
				k, v := drawKeyR(t, "k"), drawValR(t, "v")
				sync := rapid.Bool().Draw(t, "sync")
				var e1, e2 error
				if sync {
					e1, e2 = ov.SetSync(k, v), ref.SetSync(k, v)
				} else {
					e1, e2 = ov.Set(k, v), ref.Set(k, v)
				}
				trace = append(trace, fmt.Sprintf("set(sync=%v) %s=%s -> %s", sync, showBytes(k), showBytes(v), errText(e2)))
				if !sameErr(e1, e2) {
					t.Fatalf("Set(%s,%s) sync=%v: error %v, an ordinary store gives %v\n trace %v", showBytes(k), showBytes(v), sync, e1, e2, trace)
				}
				switch {
				case e2 == nil:
					written[string(k)] = true
					flags["r.accepted_direct_write"] = true
				case len(k) == 0:
					flags["r.refused_direct_empty_key"] = true
				default:
					flags["r.refused_direct_nil_value"] = true
					if fresh(k) {
						flags["r.refused_direct_set_of_unwritten_base_key"] = true
						hot++
					}
				}
			},
			"delete": func(t *rapid.T) {
				k := drawKeyR(t, "k")
				sync := rapid.Bool().Draw(t, "sync")
				var e1, e2 error
				if sync {
					e1, e2 = ov.DeleteSync(k), ref.DeleteSync(k)
				} else {
					e1, e2 = ov.Delete(k), ref.Delete(k)
				}
				trace = append(trace, fmt.Sprintf("del(sync=%v) %s -> %s", sync, showBytes(k), errText(e2)))
				if !sameErr(e1, e2) {
					t.Fatalf("Delete(%s) sync=%v: error %v, an ordinary store gives %v\n trace %v", showBytes(k), sync, e1, e2, trace)
				}
				if e2 == nil {
					written[string(k)] = true
					flags["r.accepted_direct_write"] = true
				} else {
					flags["r.refused_direct_empty_key"] = true
				}
			},
			"get": func(t *rapid.T) {
				k := drawKeyR(t, "k")
				g, e1 := ov.Get(k)
				w, e2 := ref.Get(k)
				if !sameErr(e1, e2) || !bytes.Equal(g, w) || (g == nil) != (w == nil) {
					t.Fatalf("Get(%s) = %s,%v, an ordinary store gives %s,%v\n trace %v", showBytes(k), showBytes(g), e1, showBytes(w), e2, trace)
				}
				h1, e1 := ov.Has(k)
				h2, e2 := ref.Has(k)
				if !sameErr(e1, e2) || h1 != h2 {
					t.Fatalf("Has(%s) = %v,%v, an ordinary store gives %v,%v\n trace %v", showBytes(k), h1, e1, h2, e2, trace)
				}
				if e2 != nil {
					flags["r.refused_read_empty_key"] = true
				}
			},
			"batch_stage": func(t *rapid.T) {
				b := pickBatch(t)
				k := drawKeyR(t, "k")
				var e1, e2 error
				var what string
				var v []byte
				del := rapid.IntRange(0, 2).Draw(t, "del") == 0
				if del {
					e1, e2 = b.ov.Delete(k), b.ref.Delete(k)
					what = fmt.Sprintf("batch#%d.del %s", b.n, showBytes(k))
				} else {
					v = drawValR(t, "v")
					e1, e2 = b.ov.Set(k, v), b.ref.Set(k, v)
					what = fmt.Sprintf("batch#%d.set %s=%s", b.n, showBytes(k), showBytes(v))
				}
				trace = append(trace, what+" -> "+errText(e2))
				if !sameErr(e1, e2) {
					t.Fatalf("%s: error %v, an ordinary store gives %v\n trace %v", what, e1, e2, trace)
				}
				switch {
				case e2 == nil:
					b.staged[string(k)] = true
				case b.finished && len(k) > 0 && (del || v != nil):
					flags["r.refused_staging_on_finished_batch"] = true
				case len(k) == 0:
					flags["r.refused_staging_empty_key"] = true
				default:
					flags["r.refused_staging_nil_value"] = true
					if !b.finished {
						b.refused[string(k)] = true
					}
				}
			},
			"batch_finish": func(t *rapid.T) {
				b := pickBatch(t)
				mode := rapid.IntRange(0, 3).Draw(t, "finish")
				var e1, e2 error
				var what string
				switch mode {
				case 0:
					e1, e2 = b.ov.Close(), b.ref.Close()
					what = fmt.Sprintf("batch#%d.close", b.n)
				case 1:
					e1, e2 = b.ov.WriteSync(), b.ref.WriteSync()
					what = fmt.Sprintf("batch#%d.writesync", b.n)
				default:
					e1, e2 = b.ov.Write(), b.ref.Write()
					what = fmt.Sprintf("batch#%d.write", b.n)
				}
				trace = append(trace, what+" -> "+errText(e2))
				if !sameErr(e1, e2) {
					t.Fatalf("%s: error %v, an ordinary store gives %v\n trace %v", what, e1, e2, trace)
				}
				if mode != 0 {
					if e2 != nil {
						flags["r.refused_write_of_finished_batch"] = true
					} else {
						flags["r.accepted_batch_write"] = true
						if len(b.refused) > 0 {
							flags["r.batch_written_after_refused_staging"] = true
						}
						for _, k := range refusalUniverse { // fixed order
							if b.refused[string(k)] && !b.staged[string(k)] && fresh(k) {
								flags["r.refused_staging_of_unwritten_base_key_then_written"] = true
								hot++
								knownShape = append(knownShape, string(k))
							}
						}
						for k := range b.staged {
							written[k] = true
						}
					}
				}
				b.finished = true
			},
			"iterate": func(t *rapid.T) {
				start, end := drawBoundR(t, "start"), drawBoundR(t, "end")
				rev := rapid.Bool().Draw(t, "reverse")
				g, w := scanText(t, ov, start, end, rev), scanText(t, ref, start, end, rev)
				if g != w {
					t.Fatalf("iterate(%s,%s,rev=%v):\n got  %s\n want %s\n trace %v", showBytes(start), showBytes(end), rev, g, w, trace)
				}
				if strings.HasPrefix(w, "ERR ") {
					flags["r.refused_iterator_bound"] = true
				}
			},
			// after every step: the complete observable state equals that of the ordinary store
			"": func(t *rapid.T) {
				ranges := [][2][]byte{
					{genBound().Draw(t, "obsStart"), genBound().Draw(t, "obsEnd")},
				}
				g, w := observeStore(t, ov, ranges), observeStore(t, ref, ranges)
				shape := knownShape
				knownShape = nil
				if g != w && len(shape) > 0 {
					// Repaired in idena-go 07bfa4a0: a staging call refused for its nil value was still remembered by
					// the batch of the copy-on-write store, and writing the batch marked that key as written in the
					// view, so a key that exists only in the base data vanished from the view. The key is listed as
					// fixed, which suppresses nothing: a return of the defect fails the case here (or just below).
					kf.Report(t, "C13", kfRefusedBatchSet, "writing a batch after one of its Set calls was refused (nil value) for key(s) %q that exist only in the base data: the view differs from an ordinary store pre-loaded with the base data\n cow: %s\n ref: %s\n base %s\n trace %v", shape, g, w, baseImage, trace)
				}
				if g != w {
					last := "(initial state)"
					if len(trace) > 0 {
						last = trace[len(trace)-1]
					}
					t.Fatalf("after %s the copy-on-write store differs from an ordinary store pre-loaded with the base data\n cow: %s\n ref: %s\n base %s\n trace %v", last, g, w, baseImage, trace)
				}
				if b := kvString(dump(t, base, nil, nil, false)); b != baseImage {
					t.Fatalf("underlying store changed:\n was %s\n now %s\n trace %v", baseImage, b, trace)
				}
			},
		})
		refusedWrite := false
		for f := range flags {
			evid.Count(f)
			if strings.HasPrefix(f, "r.refused_") && f != "r.refused_read_empty_key" && f != "r.refused_iterator_bound" {
				refusedWrite = true
			}
		}
		if refusedWrite {
			evid.Count("r.case_with_refused_write")
		}
		if hot > 0 {
			evid.NonTrivial("r|" + baseImage + "|" + strings.Join(trace, ";"))
			evid.Sample("overlay-store-refusals", map[string]interface{}{"base": baseImage, "ops": trace})
		}
	})
}

// Shrunk shape of the class above: a Set that the store refuses (nil value) for
// a key that exists only in the underlying data must leave the key readable.
func TestRegressionRefusedSetKeepsBaseKey(t *testing.T) {
	evid.Eval()
	for _, sync := range []bool{false, true} {
		base := dbm.NewMemDB()
		base.Set([]byte("a"), []byte("1"))
		base.Set([]byte("b"), []byte("2"))
		ov := database.NewBackedMemDb(base)
		var err error
		if sync {
			err = ov.SetSync([]byte("b"), nil)
		} else {
			err = ov.Set([]byte("b"), nil)
		}
		if err == nil {
			t.Fatalf("Set(b, nil) sync=%v accepted, an ordinary store refuses a nil value", sync)
		}
		if v, _ := ov.Get([]byte("b")); string(v) != "2" {
			t.Fatalf("after a refused Set(b, nil) sync=%v: Get(b) = %q, want \"2\" (the base value)", sync, v)
		}
		if h, _ := ov.Has([]byte("b")); !h {
			t.Fatalf("after a refused Set(b, nil) sync=%v: Has(b) = false", sync)
		}
		for _, rev := range []bool{false, true} {
			var it dbm.Iterator
			if rev {
				it, _ = ov.ReverseIterator(nil, nil)
			} else {
				it, _ = ov.Iterator(nil, nil)
			}
			var keys []string
			for ; it.Valid(); it.Next() {
				keys = append(keys, string(it.Key()))
			}
			it.Close()
			if len(keys) != 2 {
				t.Fatalf("after a refused Set(b, nil) sync=%v: iteration (reverse=%v) visits %q, want both base keys", sync, rev, keys)
			}
		}
	}
}

// Shrunk failure of TestOverlayRefusedOperations on idena-go before 07bfa4a0: a
// batch Set refused for its nil value was still remembered by the batch, and
// writing the batch marked the key as written in the view, so a key that exists
// only in the underlying data vanished from Get / Has / both iterators.
func TestRegressionRefusedBatchSetKeepsBaseKey(t *testing.T) {
	evid.Eval()
	for _, sync := range []bool{true, false} {
		base, ref := dbm.NewMemDB(), dbm.NewMemDB()
		base.Set([]byte("ac"), []byte{})
		ref.Set([]byte("ac"), []byte{})
		ov := database.NewBackedMemDb(base)
		b1, b2 := ov.NewBatch(), ref.NewBatch()
		e1, e2 := b1.Set([]byte("ac"), nil), b2.Set([]byte("ac"), nil)
		if e2 == nil || !sameErr(e1, e2) {
			t.Fatalf("batch Set(ac, nil): error %v, an ordinary store gives %v", e1, e2)
		}
		if sync {
			e1, e2 = b1.WriteSync(), b2.WriteSync()
		} else {
			e1, e2 = b1.Write(), b2.Write()
		}
		if e2 != nil || !sameErr(e1, e2) {
			t.Fatalf("batch write (sync=%v): error %v, an ordinary store gives %v", sync, e1, e2)
		}
		ranges := [][2][]byte{{[]byte("a"), []byte("b")}, {[]byte("ac"), nil}}
		if g, w := observeStore(t, ov, ranges), observeStore(t, ref, ranges); g != w {
			t.Fatalf("after a refused batch Set(ac, nil) and a write of the batch (sync=%v) the copy-on-write store differs from an ordinary store pre-loaded with the base data\n cow: %s\n ref: %s", sync, g, w)
		}
	}
}

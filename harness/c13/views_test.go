package c13

import (
	"fmt"
	"math/big"
	"testing"

	"github.com/idena-network/idena-go/blockchain/types"
	"github.com/idena-network/idena-go/common"
	"github.com/idena-network/idena-go/core/appstate"
	"github.com/idena-network/idena-go/core/state"
	"github.com/idena-network/idena-go/core/validators"
	dbm "github.com/tendermint/tm-db"
	"pgregory.net/rapid"

	"verifharness/internal/evid"
	"verifharness/internal/sim"
)

func dbImage(d dbm.DB) map[string]string {
	res := map[string]string{}
	it, err := d.Iterator(nil, nil)
	if err != nil {
		panic(err)
	}
	defer it.Close()
	for ; it.Valid(); it.Next() {
		res[string(it.Key())] = string(it.Value())
	}
	return res
}

func diffImage(a, b map[string]string) string {
	for k, v := range a {
		if w, ok := b[k]; !ok {
			return fmt.Sprintf("key %x removed", k)
		} else if w != v {
			return fmt.Sprintf("key %x changed", k)
		}
	}
	for k := range b {
		if _, ok := a[k]; !ok {
			return fmt.Sprintf("key %x added", k)
		}
	}
	return ""
}

type snapshot struct {
	hash   common.Hash
	values map[common.Address]string
	vc     []string // validator view derived from the registry committed at that height
}

func record(w *sim.World, s *appstate.AppState) map[common.Address]string {
	res := map[common.Address]string{}
	for _, a := range w.Actors {
		id := s.State.GetIdentity(a.Addr)
		res[a.Addr] = fmt.Sprintf("bal=%v nonce=%d epoch=%d state=%d stake=%v validated=%v online=%v", s.State.GetBalance(a.Addr), s.State.GetNonce(a.Addr), s.State.GetEpoch(a.Addr), id.State, id.Stake,
			s.IdentityState.IsValidated(a.Addr), s.IdentityState.IsOnline(a.Addr))
	}
	return res
}

// scribble writes arbitrary things into a view (and pre-commits them there).
func scribble(t *rapid.T, w *sim.World, v *appstate.AppState) int {
	n := rapid.IntRange(1, 6).Draw(t, "scribbles")
	for i := 0; i < n; i++ {
		a := w.Actors[rapid.IntRange(0, len(w.Actors)-1).Draw(t, "victim")].Addr
		switch rapid.IntRange(0, 8).Draw(t, "scribble") {
		case 6:
			// a wasm deployment buffers the code outside the object caches
			v.State.DeployWasmContract(a, rapid.SliceOfN(rapid.Byte(), 1, 64).Draw(t, "code"))
		case 7:
			v.State.DeployContract(a, common.Hash{byte(i + 1)}, big.NewInt(5))
		case 8:
			v.State.RemoveContractValue(a, []byte("k"))
			v.State.SetFeePerGas(big.NewInt(int64(rapid.IntRange(1, 1<<30).Draw(t, "fpg"))))
		case 0:
			v.State.SetBalance(a, big.NewInt(int64(rapid.IntRange(0, 1<<40).Draw(t, "bal"))))
		case 1:
			v.State.SetState(a, state.IdentityState(rapid.IntRange(0, 8).Draw(t, "st")))
		case 2:
			v.State.AddStake(a, big.NewInt(77))
		case 3:
			v.IdentityState.SetOnline(a, rapid.Bool().Draw(t, "on"))
			v.IdentityState.SetValidated(a, rapid.Bool().Draw(t, "val"))
		case 4:
			v.State.SetContractValue(a, []byte("k"), []byte("v"))
		case 5:
			v.State.IncEpoch()
			v.State.SetGodAddress(a)
		}
	}
	return n
}

// (b) whatever is written on a check / overwrite / read-only view, the
// canonical state, root, versions and database do not change; (c) a read-only
// view of a retained height returns exactly what was committed there (also
// after a reorganisation replaced the block at that height), a non-retained
// height yields an error.
func TestViewsIsolatedAndExact(t *testing.T) { viewsTest(t, 28) }

// The same over histories longer than the number of retained versions, so that
// read-only views of pruned heights are requested as well (must be an error, not stale data).
func TestViewsAcrossPruning(t *testing.T) { viewsTest(t, 165) }

func viewsTest(t *testing.T, steps int) {
	rapid.Check(t, func(t *rapid.T) {
		committed := map[uint64]snapshot{}
		viewWrites, reorgs := 0, 0
		opt := sim.Options{MinActors: 3, MaxActors: 8, Replicas: 1, MaxReplicas: 3, Steps: steps, MaxTxPerStep: 5}
		if steps > 100 {
			opt.MaxTxPerStep = 2
		}
		opt.BetweenBlocks = func(h *sim.History) {
			w := h.W
			r := w.Replicas[0]
			head := r.Head().Height()
			// (b) speculative work on views, then discard
			if rapid.IntRange(0, 2).Draw(t, "speculate") == 0 {
				evid.Eval()
				before := dbImage(r.DB)
				root, idRoot, ver := r.AppState.State.Root(), r.AppState.IdentityState.Root(), r.AppState.State.Version()
				kind := rapid.SampledFrom([]string{"ForCheck", "ForCheckWithOverwrite", "Readonly", "ValidateBlock"}).Draw(t, "view")
				switch kind {
				case "ForCheck":
					v, err := r.AppState.ForCheck(head)
					if err != nil {
						t.Fatalf("ForCheck(%d): %v", head, err)
					}
					viewWrites += scribble(t, w, v)
					v.Precommit()
					if rapid.Bool().Draw(t, "commitView") {
						v.Commit(nil)
					}
				case "ForCheckWithOverwrite":
					hh := head
					if hh > 2 && rapid.Bool().Draw(t, "older") {
						hh = head - uint64(rapid.IntRange(1, 2).Draw(t, "back"))
					}
					v, err := r.AppState.ForCheckWithOverwrite(hh)
					if err != nil {
						break
					}
					viewWrites += scribble(t, w, v)
					v.Commit(nil)
				case "Readonly":
					v, err := r.AppState.Readonly(head)
					if err != nil {
						t.Fatalf("Readonly(%d): %v", head, err)
					}
					viewWrites += scribble(t, w, v)
					v.State.Precommit(true)
					// the node caches this view: drop our scribbles from its object cache as a discarded
					// speculative execution would (contract calls on read-only views use Reset likewise)
					v.State.Reset()
					v.IdentityState.Reset()
				case "ValidateBlock":
					// a whole block application on the validator's private view, result discarded
					if pr := w.Proposer(t, 3); pr != nil {
						blk := pr.Propose().Block
						if err := r.Validate(blk); err != nil {
							t.Fatalf("validate: %v", err)
						}
						viewWrites++
					}
				}
				if r.AppState.State.Root() != root || r.AppState.IdentityState.Root() != idRoot || r.AppState.State.Version() != ver {
					t.Fatalf("speculative work on a %s view changed the canonical root/version", kind)
				}
				// a sibling view of the same head, taken afterwards and pre-committed without a single write, must still
				// show the canonical roots: nothing of the discarded view may reach it through shared buffers
				if sib, err := r.AppState.ForCheck(head); err == nil {
					sib.State.Precommit(true)
					sib.IdentityState.Precommit(true)
					if sib.State.Root() != root || sib.IdentityState.Root() != idRoot {
						t.Fatalf("after speculative work on a %s view a fresh, untouched check view of the same head pre-commits to another root", kind)
					}
					evid.Count("b.sibling_view_clean")
				}
				if d := diffImage(before, dbImage(r.DB)); d != "" {
					t.Fatalf("speculative work on a %s view changed the database: %s", kind, d)
				}
				evid.Count("b.view." + kind)
			}
			// reorganisation: abandon the last k blocks
			if len(h.Blocks) > 4 && rapid.IntRange(0, 7).Draw(t, "reorg") == 0 {
				k := rapid.IntRange(1, 2).Draw(t, "depth")
				target := head - uint64(k)
				ok := true
				for _, x := range w.Replicas {
					ok = ok && x.AppState.State.HasVersion(target) && x.AppState.IdentityState.HasVersion(target)
				}
				if ok {
					// read the head through a read-only view first, so that the node has it cached
					r.AppState.Readonly(head)
					for _, x := range w.Replicas {
						if _, err := x.Chain.ResetTo(target); err != nil {
							t.Fatalf("ResetTo: %v", err)
						}
					}
					for hh := target + 1; hh <= head; hh++ {
						delete(committed, hh)
					}
					h.Blocks = h.Blocks[:len(h.Blocks)-k]
					reorgs++
				}
			}
			// (c) historical views
			head = r.Head().Height()
			for i := rapid.IntRange(0, 2).Draw(t, "historicalReads"); i > 0 && head > 1; i-- {
				evid.Eval()
				hh := uint64(rapid.IntRange(1, int(head)).Draw(t, "height"))
				v, err := r.AppState.Readonly(hh)
				want, known := committed[hh]
				retained := r.AppState.State.HasVersion(hh) && r.AppState.IdentityState.HasVersion(hh)
				if !retained {
					if err == nil {
						t.Fatalf("Readonly(%d) of a non-retained height succeeded (head %d)", hh, head)
					}
					evid.Count("c.non_retained_height_error")
					continue
				}
				if err != nil {
					t.Fatalf("Readonly(%d) of a retained height failed: %v", hh, err)
				}
				if !known {
					continue
				}
				now := w.DescribeVC(v.ValidatorsCache)
				if len(now) > len(want.vc) {
					now = now[:len(want.vc)] // actors created after that height are not in the recorded view
				}
				if d := sim.DiffLines(now, want.vc); len(d) > 0 {
					t.Fatalf("Readonly(%d) (head %d, reorgs so far %d): validator view differs from the one derived from the registry committed at that height: %v", hh, head, reorgs, d)
				}
				got := record(w, v)
				for a, s := range want.values {
					if got[a] != s {
						t.Fatalf("Readonly(%d) (head %d, reorgs so far %d) returns for %s: %s; committed at that height: %s", hh, head, reorgs, w.Name(a), got[a], s)
					}
				}
				evid.Count("c.historical_read_ok")
				if hh < head {
					evid.NonTrivial(fmt.Sprintf("c|age=%d|reorgs=%d", head-hh, reorgs))
				}
			}
		}
		opt.AfterBlock = func(h *sim.History, blk *types.Block) {
			r := h.W.Replicas[0]
			// record through a fresh store object (not through the node's cached views)
			ro, err := r.AppState.State.Readonly(int64(blk.Height()))
			if err != nil {
				t.Fatalf("readonly: %v", err)
			}
			ids, err := r.AppState.IdentityState.Readonly(blk.Height())
			if err != nil {
				t.Fatalf("readonly: %v", err)
			}
			// the view of the previous head that the node handed out before this block (and still caches) must keep
			// showing the previous head: registry, ledger and the validator view derived from them
			if prev, ok := committed[blk.Height()-1]; ok {
				evid.Eval()
				if pv, err := r.AppState.Readonly(blk.Height() - 1); err == nil {
					now := h.W.DescribeVC(pv.ValidatorsCache)
					if len(now) > len(prev.vc) {
						now = now[:len(prev.vc)]
					}
					if d := sim.DiffLines(now, prev.vc); len(d) > 0 {
						t.Fatalf("after %s the read-only view of the previous head %d shows another validator view than was committed there: %v", sim.BlockDesc(blk), blk.Height()-1, d)
					}
					got := record(h.W, pv)
					for a, s := range prev.values {
						if got[a] != s {
							t.Fatalf("after %s the read-only view of the previous head %d returns for %s: %s; committed: %s", sim.BlockDesc(blk), blk.Height()-1, h.W.Name(a), got[a], s)
						}
					}
					evid.Count("c.previous_head_view_after_commit")
				}
			}
			vc := validators.NewValidatorsCache(ids, ro.GodAddress())
			vc.Load()
			committed[blk.Height()] = snapshot{blk.Hash(), record(h.W, &appstate.AppState{State: ro, IdentityState: ids}), h.W.DescribeVC(vc)}
		}
		h := sim.RunHistory(t, opt)
		if viewWrites > 0 {
			evid.NonTrivial("b|" + h.Descriptor())
		}
		if reorgs > 0 {
			evid.Count("history.with_reorg")
		}
	})
}

package c13

import (
	"math/big"
	"testing"
	"time"

	"github.com/idena-network/idena-go/blockchain/types"
	"github.com/idena-network/idena-go/core/state"

	"verifharness/internal/evid"
	"verifharness/internal/sim"
)

// Shrunk failure: the node reads its head through a read-only view (as the tx
// pool does), a reorg replaces the block at that height, and the read-only
// view of that height must now show the new block's values.
func TestRegressionReadonlyViewAfterReorg(t *testing.T) {
	p := sim.Params{KeySeed: 41, NActors: 3, Profile: "v12", SwitchRng: 50, DelegRng: 50, DiscrRng: 50, SnapRng: 1000,
		Start: time.Date(2030, 1, 5, 12, 0, 0, 0, time.UTC).Unix(), CeremonyIn: 100000, Interval: 3600, LotteryDur: 30, ShortDur: 30, LongDur: 30}
	p.States = []state.IdentityState{state.Verified, state.Verified, state.Undefined}
	p.Balances = []*big.Int{sim.Dna(1000), sim.Dna(1000), big.NewInt(0)}
	p.Stakes = []*big.Int{sim.Dna(10), sim.Dna(10), big.NewInt(0)}
	w := sim.NewWorld(p)
	n, err := w.AddReplica("node", w.God.Key, nil)
	if err != nil {
		t.Fatal(err)
	}
	w.Advance(20 * time.Second)
	if err := n.AddBlock(n.Propose().Block); err != nil {
		t.Fatal(err)
	}
	to := w.Actors[2].Addr
	send, _ := types.SignTx(&types.Transaction{Type: types.SendTx, AccountNonce: 1, To: &to, Amount: sim.Dna(7), MaxFee: sim.Dna(100)}, w.Actors[1].Key)
	n.Pool.AddInternalTx(send)
	w.Advance(20 * time.Second)
	b := n.Propose().Block
	if err := n.AddBlock(b); err != nil {
		t.Fatal(err)
	}
	h := b.Height()
	v, err := n.AppState.Readonly(h)
	if err != nil || v.State.GetBalance(to).Cmp(sim.Dna(7)) != 0 {
		t.Fatalf("setup: transfer not visible")
	}
	evid.Eval()
	if _, err := n.Chain.ResetTo(h - 1); err != nil {
		t.Fatal(err)
	}
	w.Advance(20 * time.Second)
	if err := n.AddBlock(n.EmptyBlock()); err != nil {
		t.Fatal(err)
	}
	v, err = n.AppState.Readonly(h)
	if err != nil {
		t.Fatalf("Readonly(%d): %v", h, err)
	}
	if bal := v.State.GetBalance(to); bal.Sign() != 0 {
		t.Fatalf("read-only view of height %d shows balance %v of the abandoned block, the committed block at that height gives 0", h, bal)
	}
}

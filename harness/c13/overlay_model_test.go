package c13

import (
	"bytes"
	"fmt"
	"strings"
	"testing"

	"github.com/idena-network/idena-go/database"
	dbm "github.com/tendermint/tm-db"
	"pgregory.net/rapid"

	"verifharness/internal/evid"
)

func TestMain(m *testing.M) { evid.Main(m) }

type kv struct{ k, v []byte }

func dump(t *rapid.T, d dbm.DB, start, end []byte, reverse bool) []kv {
	var it dbm.Iterator
	var err error
	if reverse {
		it, err = d.ReverseIterator(start, end)
	} else {
		it, err = d.Iterator(start, end)
	}
	if err != nil {
		return []kv{{[]byte("ERR"), []byte(err.Error())}}
	}
	defer it.Close()
	var res []kv
	for n := 0; it.Valid(); it.Next() {
		res = append(res, kv{append([]byte{}, it.Key()...), append([]byte{}, it.Value()...)})
		if n++; n > 10000 {
			t.Fatalf("iterator does not terminate")
		}
	}
	return res
}

func kvString(l []kv) string {
	var sb strings.Builder
	for _, e := range l {
		fmt.Fprintf(&sb, "%q=%q ", e.k, e.v)
	}
	return sb.String()
}

func genKey() *rapid.Generator[[]byte] {
	return rapid.Custom(func(t *rapid.T) []byte {
		return []byte(rapid.StringMatching(`[a-c]{1,3}`).Draw(t, "key"))
	})
}

func genBound() *rapid.Generator[[]byte] {
	return rapid.Custom(func(t *rapid.T) []byte {
		if rapid.IntRange(0, 3).Draw(t, "nilBound") == 0 {
			return nil
		}
		return []byte(rapid.StringMatching(`[a-c]{1,3}`).Draw(t, "bound"))
	})
}

func genVal() *rapid.Generator[[]byte] {
	return rapid.Custom(func(t *rapid.T) []byte {
		if rapid.IntRange(0, 9).Draw(t, "emptyVal") == 0 {
			return []byte{}
		}
		return []byte(rapid.StringMatching(`[x-z0-9]{1,4}`).Draw(t, "val"))
	})
}

func errEq(a, b error) bool { return (a == nil) == (b == nil) }

// The copy-on-write store behaves like an ordinary store pre-loaded with the
// underlying data, and never writes to the underlying store.
func TestOverlayStoreModel(t *testing.T) {
	rapid.Check(t, func(t *rapid.T) {
		evid.Eval()
		base := dbm.NewMemDB()
		ref := dbm.NewMemDB()
		nBase := rapid.IntRange(0, 8).Draw(t, "nBase")
		baseKeys := map[string]bool{}
		for i := 0; i < nBase; i++ {
			k, v := genKey().Draw(t, "bk"), genVal().Draw(t, "bv")
			base.Set(k, v)
			ref.Set(k, v)
			baseKeys[string(k)] = true
		}
		baseImage := kvString(dump(t, base, nil, nil, false))
		ov := database.NewBackedMemDb(base)

		deletedBase, shadowed, iterAfterDelete, borderShadow, batches := false, false, false, false, 0
		var trace []string
		mutate := func(k []byte, del bool) {
			if baseKeys[string(k)] {
				if del {
					deletedBase = true
				} else {
					shadowed = true
				}
			}
		}
		t.Repeat(map[string]func(*rapid.T){
			"get": func(t *rapid.T) {
				k := genKey().Draw(t, "k")
				g, e1 := ov.Get(k)
				w, e2 := ref.Get(k)
				if !errEq(e1, e2) || !bytes.Equal(g, w) || (g == nil) != (w == nil) {
					t.Fatalf("Get(%q) = %q,%v want %q,%v", k, g, e1, w, e2)
				}
				h1, _ := ov.Has(k)
				h2, _ := ref.Has(k)
				if h1 != h2 {
					t.Fatalf("Has(%q) = %v want %v", k, h1, h2)
				}
			},
			"set": func(t *rapid.T) {
				k, v := genKey().Draw(t, "k"), genVal().Draw(t, "v")
				sync := rapid.Bool().Draw(t, "sync")
				var e1, e2 error
				if sync {
					e1, e2 = ov.SetSync(k, v), ref.SetSync(k, v)
				} else {
					e1, e2 = ov.Set(k, v), ref.Set(k, v)
				}
				if !errEq(e1, e2) {
					t.Fatalf("Set(%q,%q) err %v want %v", k, v, e1, e2)
				}
				mutate(k, false)
				trace = append(trace, fmt.Sprintf("set %q", k))
			},
			"delete": func(t *rapid.T) {
				k := genKey().Draw(t, "k")
				sync := rapid.Bool().Draw(t, "sync")
				var e1, e2 error
				if sync {
					e1, e2 = ov.DeleteSync(k), ref.DeleteSync(k)
				} else {
					e1, e2 = ov.Delete(k), ref.Delete(k)
				}
				if !errEq(e1, e2) {
					t.Fatalf("Delete(%q) err %v want %v", k, e1, e2)
				}
				mutate(k, true)
				trace = append(trace, fmt.Sprintf("del %q", k))
			},
			"batch": func(t *rapid.T) {
				b1, b2 := ov.NewBatch(), ref.NewBatch()
				n := rapid.IntRange(0, 5).Draw(t, "nops")
				var keys [][]byte
				var dels []bool
				for i := 0; i < n; i++ {
					k := genKey().Draw(t, "k")
					if rapid.Bool().Draw(t, "del") {
						b1.Delete(k)
						b2.Delete(k)
						dels = append(dels, true)
					} else {
						v := genVal().Draw(t, "v")
						b1.Set(k, v)
						b2.Set(k, v)
						dels = append(dels, false)
					}
					keys = append(keys, k)
				}
				switch rapid.IntRange(0, 3).Draw(t, "finish") {
				case 0: // dropped without write: nothing may become visible
					b1.Close()
					b2.Close()
					trace = append(trace, "batch-drop")
				case 1:
					if e1, e2 := b1.WriteSync(), b2.WriteSync(); !errEq(e1, e2) {
						t.Fatalf("WriteSync err %v want %v", e1, e2)
					}
					for i, k := range keys {
						mutate(k, dels[i])
					}
					batches++
					trace = append(trace, fmt.Sprintf("batch-writesync %d", n))
				default:
					if e1, e2 := b1.Write(), b2.Write(); !errEq(e1, e2) {
						t.Fatalf("Write err %v want %v", e1, e2)
					}
					for i, k := range keys {
						mutate(k, dels[i])
					}
					batches++
					trace = append(trace, fmt.Sprintf("batch-write %d", n))
				}
			},
			"iterate": func(t *rapid.T) {
				start, end := genBound().Draw(t, "start"), genBound().Draw(t, "end")
				rev := rapid.Bool().Draw(t, "reverse")
				g := kvString(dump(t, ov, start, end, rev))
				w := kvString(dump(t, ref, start, end, rev))
				if g != w {
					t.Fatalf("iterate(%q,%q,rev=%v):\n got  %s\n want %s\n trace %v", start, end, rev, g, w, trace)
				}
				if deletedBase {
					iterAfterDelete = true
				}
				if shadowed && (baseKeys[string(start)] || baseKeys[string(end)]) {
					borderShadow = true
				}
				trace = append(trace, fmt.Sprintf("iter %q..%q rev=%v", start, end, rev))
			},
			"": func(t *rapid.T) {
				if g := kvString(dump(t, base, nil, nil, false)); g != baseImage {
					t.Fatalf("underlying store changed:\n was %s\n now %s", baseImage, g)
				}
			},
		})
		// final full scans, both directions
		for _, rev := range []bool{false, true} {
			g := kvString(dump(t, ov, nil, nil, rev))
			w := kvString(dump(t, ref, nil, nil, rev))
			if g != w {
				t.Fatalf("final scan rev=%v:\n got  %s\n want %s\n trace %v", rev, g, w, trace)
			}
		}
		if iterAfterDelete {
			evid.Count("a.iter_after_base_delete")
		}
		if borderShadow {
			evid.Count("a.shadowed_key_at_range_border")
		}
		if batches > 0 {
			evid.Count("a.with_batch_write")
		}
		if iterAfterDelete || borderShadow {
			evid.NonTrivial("a|" + baseImage + "|" + strings.Join(trace, ";"))
			evid.Sample("overlay-store", map[string]interface{}{"base": baseImage, "ops": trace})
		}
	})
}

//go:build verif

package protocol

// Re-exports of the unexported wire message types for the verification harness
// (check C18). Injected by the build overlay; aliases only, no logic.

type VerifHandshakeData = handshakeData
type VerifPushPullHash = pushPullHash
type VerifPushType = pushType
type VerifUpdateShardId = updateShardId
type VerifBatchItem = batchItem
type VerifMsgBatch = msgBatch
type VerifDisconnect = disconnect
type VerifRangeBlock = block
type VerifBlockRange = blockRange

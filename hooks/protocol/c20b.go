//go:build verif

package protocol

// Re-exports for the verification harness (check C20, several item kinds / the node's own manager).
// Injected by the build overlay; accessors only, no logic of its own.

import (
	"github.com/idena-network/idena-go/common/pushpull"
)

// VerifC20bManager is the push/pull manager NewIdenaGossipHandler has built, filled with holders and started.
func (h *IdenaGossipHandler) VerifC20bManager() *PushPullManager { return h.pushPullManager }

// VerifC20bHolder is the holder registered for an item kind (nil: none).
func (m *PushPullManager) VerifC20bHolder(typ uint8) pushpull.Holder {
	return m.entryHolders[pushType(typ)]
}

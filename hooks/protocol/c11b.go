//go:build verif

package protocol

// Re-exports for the verification harness (check C11: snapshots reproduce the
// canonical state or are refused). Injected by the build overlay; no logic of
// its own.

// VerifC11Defer appends an accepted header to the deferred list, as processBatch does after validateHeader
// (the serving peer stays anonymous: nobody is registered under the empty id).
func (fs *fastSync) VerifC11Defer(b *VerifRangeBlock) {
	fs.deferredHeaders = append(fs.deferredHeaders, blockPeer{block: *b})
}

// VerifC11PostConsuming is fastSync.postConsuming: download of the snapshot of the manifest the applier was created
// with, tree import, forced identity-state version, atomic switch.
func (fs *fastSync) VerifC11PostConsuming() error { return fs.postConsuming() }

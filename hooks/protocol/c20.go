//go:build verif

package protocol

// Re-exports for the verification harness (check C20: push/pull tracker).
// Injected by the build overlay; no logic of its own.

import (
	"github.com/idena-network/idena-go/common"
	"github.com/libp2p/go-libp2p-core/peer"
)

// VerifC20AddPush is PushPullManager.addPush (the entry point of gossip's Push / BatchPush handling).
func (m *PushPullManager) VerifC20AddPush(id peer.ID, typ uint8, hash common.Hash128) {
	m.addPush(id, pushPullHash{Type: pushType(typ), Hash: hash})
}

// VerifC20Unpack exposes the fields of an element received from PushPullManager.Requests().
func VerifC20Unpack(r pullRequest) (peer.ID, uint8, common.Hash128) {
	return r.peer, uint8(r.hash.Type), r.hash.Hash
}

// VerifC20PendingCount is the number of hashes the manager keeps a pull counter for.
func (m *PushPullManager) VerifC20PendingCount() int { return m.pendingPushes.ItemCount() }

// VerifC20Request builds an element of PushPullManager.Requests() (the harness uses it to occupy the queue the way a
// stalled sender leaves it).
func VerifC20Request(id peer.ID, typ uint8, hash common.Hash128) pullRequest {
	return pullRequest{peer: id, hash: pushPullHash{Type: pushType(typ), Hash: hash}}
}

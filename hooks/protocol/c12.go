//go:build verif

package protocol

// Re-exports for the verification harness (check C12: no message from the
// network can crash the node). Injected by the build overlay; constructors and
// re-exports only, no logic of its own.

import (
	"sync/atomic"

	"github.com/idena-network/idena-go/blockchain/types"
	"github.com/idena-network/idena-go/core/mempool"
	"github.com/idena-network/idena-go/core/state"
	"github.com/libp2p/go-libp2p-core/network"
	"github.com/libp2p/go-libp2p-core/peer"
)

// VerifC12Peer is the handler's per-connection object.
type VerifC12Peer = protoPeer

// VerifC12SetSyncPools installs the synchronous pools behind the handler's pool
// interfaces (NewIdenaGossipHandler wraps them into queue + worker goroutine
// adapters; a panic on a worker cannot be attributed to the message that caused it).
func (h *IdenaGossipHandler) VerifC12SetSyncPools(txpool mempool.TransactionPool, keys mempool.FlipKeysPool) {
	h.txpool = txpool
	h.flipKeyPool = keys
}

// VerifC12NewPeer is newPeer on a caller-supplied stream (as runPeer does for an accepted stream).
func (h *IdenaGossipHandler) VerifC12NewPeer(stream network.Stream) *VerifC12Peer {
	return newPeer(stream, 0, h.metrics)
}

// VerifC12Handle is one iteration of runListening: read one frame from the peer's stream and dispatch it.
func (h *IdenaGossipHandler) VerifC12Handle(p *VerifC12Peer) error { return h.handle(p) }

// VerifC12QueuedRequests is the number of replies handle queued for the peer.
func (p *VerifC12Peer) VerifC12QueuedRequests() int { return len(p.queuedRequests) + len(p.highPriorityRequests) }

// VerifC12Manifest is the manifest last announced by the peer.
func (p *VerifC12Peer) VerifC12HasManifest() bool { return p.Manifest() != nil }

// VerifC12RangeItem exposes the fields of a decoded block range element.
func VerifC12RangeItem(b *VerifRangeBlock) (*types.Header, *types.BlockCert, *state.IdentityStateDiff) {
	return b.Header, b.Cert, b.IdentityDiff
}

// VerifC12NewRangeItem builds a block range element (what provideBlocks / provideForkBlocks put on the wire).
func VerifC12NewRangeItem(h *types.Header, c *types.BlockCert, d *state.IdentityStateDiff) *VerifRangeBlock {
	return &block{Header: h, Cert: c, IdentityDiff: d}
}

// VerifC12FullSync / VerifC12FastSync are the two block appliers of the downloader.
type VerifC12FullSync = fullSync
type VerifC12FastSync = fastSync

// VerifC12ValidateHeader is fullSync.validateHeader for the next header of a batch received from peer p.
func (fs *fullSync) VerifC12ValidateHeader(b *VerifRangeBlock, p *VerifC12Peer) error {
	return fs.validateHeader(b, p)
}

// VerifC12Defer appends an accepted header to the deferred list, as processBatch does after validateHeader.
func (fs *fullSync) VerifC12Defer(b *VerifRangeBlock, p *VerifC12Peer) {
	fs.deferredHeaders = append(fs.deferredHeaders, blockPeer{*b, p.id})
}

// VerifC12PreConsuming is fastSync.preConsuming.
func (fs *fastSync) VerifC12PreConsuming(head *types.Header) (uint64, error) { return fs.preConsuming(head) }

// VerifC12ValidateHeader is fastSync.validateHeader.
func (fs *fastSync) VerifC12ValidateHeader(b *VerifRangeBlock) error { return fs.validateHeader(b) }

// VerifC12Defer appends an accepted header to the deferred list, as processBatch does after validateHeader.
func (fs *fastSync) VerifC12Defer(b *VerifRangeBlock, p *VerifC12Peer) {
	fs.deferredHeaders = append(fs.deferredHeaders, blockPeer{*b, p.id})
}

// VerifC12ApplyDeferredBlocks is fastSync.applyDeferredBlocks.
func (fs *fastSync) VerifC12ApplyDeferredBlocks() (uint64, error) { return fs.applyDeferredBlocks() }

// VerifC12DropPreliminaries is fastSync.dropPreliminaries.
func (fs *fastSync) VerifC12DropPreliminaries() { fs.dropPreliminaries() }

// VerifC12Register adds the peer to the handler's peer set, as runPeer does after the handshake.
func (h *IdenaGossipHandler) VerifC12Register(p *VerifC12Peer) error { return h.peers.Register(p) }

// VerifC12PeerID is the peer's id.
func (p *VerifC12Peer) VerifC12PeerID() peer.ID { return p.id }

// VerifC12LastBatchId is the id GetBlocksRange / GetForkBlockRange gave to the batch they registered last.
func VerifC12LastBatchId() uint32 { return atomic.LoadUint32(&batchId) }

// VerifC12Batch is a registered request for a block range.
type VerifC12Batch = batch

// VerifC12Delivered takes what handle delivered into the batch so far (without waiting) and reports whether handle closed it.
func (b *VerifC12Batch) VerifC12Delivered() (items []*VerifRangeBlock, closed bool) {
	for {
		select {
		case x, ok := <-b.headers:
			if !ok {
				return items, true
			}
			items = append(items, x)
		default:
			return items, false
		}
	}
}

// VerifC12NewBatch builds a batch holding the given items and closed, i.e. what a consumer of
// GetBlocksRange sees once handle has delivered a BlocksRange message of the peer.
func VerifC12NewBatch(p *VerifC12Peer, from, to uint64, items []*VerifRangeBlock) *VerifC12Batch {
	b := &batch{p: p, from: from, to: to, headers: make(chan *block, len(items)+1)}
	for _, x := range items {
		b.headers <- x
	}
	close(b.headers)
	return b
}

//go:build verif

package consensus

// Re-exports for the verification harness (injected by the build overlay).

import (
	"github.com/idena-network/idena-go/blockchain/types"
)

// VerifProcessBlocks feeds a fork bundle list to the fork resolver exactly as
// loadAndVerifyFork does after downloading it from a peer.
func (resolver *ForkResolver) VerifProcessBlocks(bundles []types.BlockBundle) error {
	ch := make(chan types.BlockBundle, len(bundles))
	for _, b := range bundles {
		ch <- b
	}
	close(ch)
	return resolver.processBlocks(ch, "verif-peer")
}

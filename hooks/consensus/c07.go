//go:build verif

package consensus

// Re-exports for the C07 check (certificate quorum). Injected by the build
// overlay; contains no logic of its own: a constructor that fills exactly the
// Engine fields the vote counter reads, and the vote counter itself.

import (
	"time"

	"github.com/idena-network/idena-go/blockchain"
	"github.com/idena-network/idena-go/blockchain/types"
	"github.com/idena-network/idena-go/common"
	"github.com/idena-network/idena-go/config"
	"github.com/idena-network/idena-go/core/appstate"
	"github.com/idena-network/idena-go/log"
	"github.com/idena-network/idena-go/pengings"
	"github.com/idena-network/idena-go/stats/collector"
)

// VerifC07NewVoteCounter returns an Engine that is only good for counting
// votes: chain (Head, committee size), cfg (agreement threshold), appState
// (validators cache), the pending-votes store, the offline detector
// (PushValidators) and a stats collector.
func VerifC07NewVoteCounter(chain *blockchain.Blockchain, cfg *config.Config, appState *appstate.AppState, votes *pengings.Votes,
	offlineDetector *blockchain.OfflineDetector, statsCollector collector.StatsCollector) *Engine {
	return &Engine{
		chain:           chain,
		cfg:             cfg,
		appState:        appState,
		votes:           votes,
		offlineDetector: offlineDetector,
		statsCollector:  statsCollector,
		log:             log.New(),
	}
}

func (engine *Engine) VerifC07CountVotes(round uint64, step uint8, parentHash common.Hash, necessaryVotesCount int, timeout time.Duration) (common.Hash, *types.FullBlockCert, error) {
	return engine.countVotes(round, step, parentHash, necessaryVotesCount, timeout)
}

//go:build verif

package blockchain

// Re-exports of unexported entry points for the verification harness. Injected
// by the build overlay; contains no logic of its own.

import (
	"github.com/idena-network/idena-go/blockchain/types"
	"github.com/idena-network/idena-go/core/appstate"
	"github.com/idena-network/idena-go/core/state"
	"github.com/idena-network/idena-go/database"
)

// VerifValidateBlock runs full block validation on an explicit check state and
// an explicit previous header and returns what the insertion would write.
func (chain *Blockchain) VerifValidateBlock(checkState *appstate.AppState, block *types.Block, prev *types.Header) ([]*state.StateTreeDiff, *state.IdentityStateDiff, types.TxReceipts, error) {
	res, err := chain.validateBlock(checkState, block, prev, nil)
	if err != nil {
		return nil, nil, nil, err
	}
	return res.stateDiff, res.identityStateDiff, res.txReceipts, nil
}

func (chain *Blockchain) VerifRepo() *database.Repo { return chain.repo }

func VerifCheckIfProposer(addr [20]byte, appState *appstate.AppState) bool {
	return checkIfProposer(addr, appState)
}

// VerifFilterTxs runs the block builder's transaction filter on an explicit check state.
func (chain *Blockchain) VerifFilterTxs(appState *appstate.AppState, txs []*types.Transaction, header *types.ProposedHeader) []*types.Transaction {
	res, _, _, _, _ := chain.filterTxs(appState, txs, header)
	return res
}

// VerifProcessTxs runs the validator's strict transaction processing on an explicit check state.
func (chain *Blockchain) VerifProcessTxs(appState *appstate.AppState, txs []*types.Transaction, header *types.Header) (types.TxReceipts, error) {
	_, _, receipts, _, _, err := chain.processTxs(txs, &txsExecutionContext{appState: appState, header: header})
	return receipts, err
}

func VerifCalculateTxBloom(block *types.Block, receipts types.TxReceipts) []byte {
	return calculateTxBloom(block, receipts)
}

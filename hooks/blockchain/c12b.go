//go:build verif

package blockchain

// Hook for check C12 (deferred consumers of mined payloads). Injected by the
// build overlay. Construction glue only, no logic of its own:
// Blockchain.applyNewEpoch is the step of applyBlockOnState / applyEmptyBlockOnState
// that runs the epoch function (ValidationCeremony.ApplyNewEpoch in a node) and
// then consumes its result (new identity attributes, rewards, shard balancing,
// dust clearing, epoch counters). It reads two fields of the chain object only:
// the configuration and the epoch function. VerifC12ApplyNewEpoch builds a chain
// object holding exactly these two and calls the unexported method.

import (
	"github.com/idena-network/idena-go/blockchain/types"
	"github.com/idena-network/idena-go/config"
	"github.com/idena-network/idena-go/core/appstate"
	"github.com/idena-network/idena-go/stats/collector"
)

func VerifC12ApplyNewEpoch(cfg *config.Config, epochFn func(height uint64, appState *appstate.AppState, c collector.StatsCollector) types.TotalValidationResult,
	appState *appstate.AppState, block *types.Block) {
	chain := &Blockchain{config: cfg, applyNewEpochFn: epochFn}
	chain.applyNewEpoch(appState, block, nil)
}

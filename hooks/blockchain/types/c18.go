//go:build verif

package types

import "github.com/idena-network/idena-go/common"

// Re-export for the verification harness (check C18): the legacy RLP signature
// hash that Sender/SenderPubKey use for transactions with UseRlp set.
func VerifLegacySignatureHash(tx *Transaction) common.Hash { return signatureHash(tx) }

//go:build verif

package blockchain

// Re-export for the verification harness (check C12). Injected by the build
// overlay; no logic of its own.

// VerifC12DrainVote processes one queued vote exactly as startListening does,
// but on the calling goroutine. It reports whether the queue held a vote.
func (dt *OfflineDetector) VerifC12DrainVote() bool {
	select {
	case v := <-dt.votesChan:
		dt.processVote(v)
		return true
	default:
		return false
	}
}

//go:build verif

package pushpull

// Read-only views of the tracker's internal collections for the verification
// harness (check C20). Injected by the build overlay; observation only.

import (
	"time"

	"github.com/idena-network/idena-go/common"
	"github.com/libp2p/go-libp2p-core/peer"
)

type VerifC20Pending struct {
	Id   peer.ID
	Hash common.Hash128
	Time time.Time
}

// VerifC20PendingSnapshot copies the sorted list of pending announcers.
func (d *DefaultPushTracker) VerifC20PendingSnapshot() []VerifC20Pending {
	s := d.pendingPushes
	s.lock.Lock()
	defer s.lock.Unlock()
	res := make([]VerifC20Pending, len(s.list))
	for i, e := range s.list {
		res[i] = VerifC20Pending{Id: e.req.Id, Hash: e.req.Hash, Time: e.time}
	}
	return res
}

func (d *DefaultPushTracker) VerifC20PendingLen() int { return d.pendingPushes.Len() }

// VerifC20ActivePulls copies the registry of last pull times.
func (d *DefaultPushTracker) VerifC20ActivePulls() map[common.Hash128]time.Time {
	res := map[common.Hash128]time.Time{}
	d.activePulls.Range(func(k, v interface{}) bool {
		res[k.(common.Hash128)] = v.(time.Time)
		return true
	})
	return res
}

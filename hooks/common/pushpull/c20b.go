//go:build verif

package pushpull

// Read-only accessor for the verification harness (check C20). Injected by the build overlay; observation only.

import "time"

// VerifC20bPullDelay is the pull delay the tracker was configured with.
func (d *DefaultPushTracker) VerifC20bPullDelay() time.Duration { return d.pullDelay }

//go:build verif

package env

import (
	"math/big"

	"github.com/idena-network/idena-go/common"
)

// Re-exports for the verification harness (check C15): the write buffers the
// embedded-contract environment holds between Reset and Commit. Copies only,
// no logic.

type VerifC15StoreWrite struct {
	Value   []byte
	Removed bool
}

type VerifC15Writes struct {
	Store    map[common.Address]map[string]VerifC15StoreWrite
	Balances map[common.Address]*big.Int
	Deployed map[common.Address]struct {
		CodeHash common.Hash
		Stake    *big.Int
	}
	Dropped []common.Address
	Stakes  map[common.Address]*big.Int
	Events  int
}

func (e *EnvImp) VerifC15Writes() *VerifC15Writes {
	w := &VerifC15Writes{
		Store:    map[common.Address]map[string]VerifC15StoreWrite{},
		Balances: map[common.Address]*big.Int{},
		Deployed: map[common.Address]struct {
			CodeHash common.Hash
			Stake    *big.Int
		}{},
		Stakes: map[common.Address]*big.Int{},
		Events: len(e.events),
	}
	for a, c := range e.contractStoreCache {
		m := map[string]VerifC15StoreWrite{}
		for k, v := range c {
			m[k] = VerifC15StoreWrite{Value: append([]byte(nil), v.value...), Removed: v.removed}
		}
		w.Store[a] = m
	}
	for a, b := range e.balancesCache {
		w.Balances[a] = new(big.Int).Set(b)
	}
	for a, d := range e.deployedContractCache {
		var st *big.Int
		if d.Stake != nil {
			st = new(big.Int).Set(d.Stake)
		}
		w.Deployed[a] = struct {
			CodeHash common.Hash
			Stake    *big.Int
		}{d.CodeHash, st}
	}
	for a := range e.droppedContracts {
		w.Dropped = append(w.Dropped, a)
	}
	for a, s := range e.contractStakeCache {
		w.Stakes[a] = new(big.Int).Set(s)
	}
	return w
}

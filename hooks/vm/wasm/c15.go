//go:build verif

package wasm

import (
	"math/big"

	"github.com/idena-network/idena-go/blockchain/types"
	"github.com/idena-network/idena-go/common"
)

// Re-exports for the verification harness (check C15): the unexported
// deploy/call entry points of the WASM VM (so that the root environment is
// reachable) and the root environment's write buffers. Copies only, no logic.

type VerifC15StoreWrite struct {
	Value   []byte
	Removed bool
}

type VerifC15Writes struct {
	Store    map[common.Address]map[string]VerifC15StoreWrite
	Balances map[common.Address]*big.Int
	Deployed map[common.Address][]byte
	Events   int
}

func (vm *WasmVM) VerifC15Deploy(tx *types.Transaction, limit uint64) (*WasmEnv, uint64, []byte, error) {
	return vm.deploy(tx, limit)
}

func (vm *WasmVM) VerifC15Call(tx *types.Transaction, limit uint64) (*WasmEnv, uint64, []byte, error) {
	env, gasUsed, actionResult, _, err := vm.call(tx, limit)
	return env, gasUsed, actionResult, err
}

func (w *WasmEnv) VerifC15Writes() *VerifC15Writes {
	res := &VerifC15Writes{
		Store:    map[common.Address]map[string]VerifC15StoreWrite{},
		Balances: map[common.Address]*big.Int{},
		Deployed: map[common.Address][]byte{},
		Events:   len(w.events),
	}
	for a, c := range w.contractStoreCache {
		m := map[string]VerifC15StoreWrite{}
		for k, v := range c {
			m[k] = VerifC15StoreWrite{Value: append([]byte(nil), v.value...), Removed: v.removed}
		}
		res.Store[a] = m
	}
	for a, b := range w.balancesCache {
		res.Balances[a] = new(big.Int).Set(b)
	}
	for a, d := range w.deployedContractCache {
		res.Deployed[a] = d.Code
	}
	return res
}

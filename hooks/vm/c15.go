//go:build verif

package vm

import (
	env2 "github.com/idena-network/idena-go/vm/env"
)

// Re-export for the verification harness (check C15): the environment's write
// buffers after the last Run. No logic.

func (vm *VmImpl) VerifC15Writes() *env2.VerifC15Writes { return vm.env.VerifC15Writes() }

//go:build verif

package ceremony

// C16 hooks (flip lottery and key delivery). Injected by the build overlay.
//
// VerifC16Run is the only function here that is more than a re-export: it
// repeats, line for line, the middle part of calculateCeremonyCandidates
// (ceremony.go, from "seed := vc.epochDb.ReadLotterySeed()" down to
// "vc.lottery.finished = true") on a ValidationCeremony that has only the
// fields that part touches. Everything it calls is the repository's own code:
// getCandidatesAndFlips, GetAuthorsDistribution, GetFlipsDistribution. The
// tail of calculateCeremonyCandidates (flip pre-loading, logging) needs a
// running node and is left out. All other functions are accessors.

import (
	"github.com/idena-network/idena-go/common"
	"github.com/idena-network/idena-go/core/appstate"
	"github.com/idena-network/idena-go/core/mempool"
	"github.com/idena-network/idena-go/database"
)

type VerifC16Lottery struct {
	vc *ValidationCeremony
}

func VerifC16Run(appState *appstate.AppState, epochDb *database.EpochDb, keysPool *mempool.KeysPool, restore bool) *VerifC16Lottery {
	vc := &ValidationCeremony{
		appState: appState,
		epochDb:  epochDb,
		keysPool: keysPool,
		lottery:  &lottery{},
	}

	// --- copied from calculateCeremonyCandidates ---
	seed := vc.epochDb.ReadLotterySeed()
	if seed == nil {
		return nil
	}

	vc.shardCandidates = vc.getCandidatesAndFlips(restore)

	//cache indexes for fast searching
	m := make(map[common.Address]int)
	for _, shard := range vc.shardCandidates {
		for index, c := range shard.candidates {
			m[c.Address] = index
		}
	}
	vc.candidateIndexes = m

	shortFlipsCount := int(common.ShortSessionFlipsCount() + common.ShortSessionExtraFlipsCount())
	vc.shardLotteries = GetAuthorsDistribution(vc.shardCandidates, seed, shortFlipsCount)

	for shardId := range vc.shardCandidates {
		shard := vc.shardCandidates[shardId]
		shard.shortFlipsPerCandidate, shard.longFlipsPerCandidate = GetFlipsDistribution(len(shard.candidates), vc.shardLotteries[shardId].authorsPerCandidate, shard.flipsPerAuthor, shard.flips, seed, shortFlipsCount)
	}

	vc.lottery.finished = true
	// --- end of copy ---

	return &VerifC16Lottery{vc: vc}
}

// Ceremony gives access to the exported methods the node itself uses:
// GetShortFlipsToSolve, GetLongFlipsToSolve, PrivateEncryptionKeyCandidates,
// GetFlipKeys.
func (l *VerifC16Lottery) Ceremony() *ValidationCeremony { return l.vc }

func (l *VerifC16Lottery) ShardsCount() int { return len(l.vc.shardCandidates) }

func (l *VerifC16Lottery) HasShard(shardId common.ShardId) bool {
	_, ok := l.vc.shardCandidates[shardId]
	return ok
}

type VerifC16Candidate struct {
	Address  common.Address
	PubKey   []byte
	IsAuthor bool
}

func (l *VerifC16Lottery) Candidates(shardId common.ShardId) []VerifC16Candidate {
	var res []VerifC16Candidate
	for _, c := range l.vc.shardCandidates[shardId].candidates {
		res = append(res, VerifC16Candidate{Address: c.Address, PubKey: c.PubKey, IsAuthor: c.IsAuthor})
	}
	return res
}

func (l *VerifC16Lottery) NonCandidates(shardId common.ShardId) []common.Address {
	return l.vc.shardCandidates[shardId].nonCandidates
}

func (l *VerifC16Lottery) Flips(shardId common.ShardId) [][]byte {
	return l.vc.shardCandidates[shardId].flips
}

func (l *VerifC16Lottery) FlipsPerAuthor(shardId common.ShardId) map[int][][]byte {
	return l.vc.shardCandidates[shardId].flipsPerAuthor
}

func (l *VerifC16Lottery) FlipAuthor(shardId common.ShardId, cid []byte) (common.Address, bool) {
	a, ok := l.vc.shardCandidates[shardId].flipAuthorMap[string(cid)]
	return a, ok
}

func (l *VerifC16Lottery) ShortFlipsPerCandidate(shardId common.ShardId) [][]int {
	return l.vc.shardCandidates[shardId].shortFlipsPerCandidate
}

func (l *VerifC16Lottery) LongFlipsPerCandidate(shardId common.ShardId) [][]int {
	return l.vc.shardCandidates[shardId].longFlipsPerCandidate
}

func (l *VerifC16Lottery) AuthorsPerCandidate(shardId common.ShardId) map[int][]int {
	return l.vc.shardLotteries[shardId].authorsPerCandidate
}

func (l *VerifC16Lottery) CandidatesPerAuthor(shardId common.ShardId) map[int][]int {
	return l.vc.shardLotteries[shardId].candidatesPerAuthor
}

func (l *VerifC16Lottery) CandidateIndex(addr common.Address) int {
	return l.vc.getCandidateIndex(addr)
}

func (l *VerifC16Lottery) PrivateKeyPackageIndex(addr common.Address, author common.Address) int {
	return l.vc.getPrivateKeyPackageIndex(addr, author)
}

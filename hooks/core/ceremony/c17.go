//go:build verif

package ceremony

// C17 hooks (validation outcomes depend only on chain data). Injected by the
// build overlay. Construction glue and accessors only, no ceremony logic:
//
//   - the ceremony object itself is built by the exported NewValidationCeremony;
//   - VerifC17Open repeats the first three statements of Initialize (epoch
//     database, epoch number, answer store) - the rest of Initialize subscribes to
//     the event bus and starts timers / broadcast loops of a running node;
//   - VerifC17Restore repeats the two statements of restoreState that feed the
//     epoch evaluation (qualification.restore, calculateCeremonyCandidates(true));
//   - everything else calls the unexported method of the same name.

import (
	"github.com/idena-network/idena-go/blockchain/types"
	"github.com/idena-network/idena-go/common"
	"github.com/idena-network/idena-go/core/state"
	"github.com/idena-network/idena-go/database"
)

// VerifC17Open = Initialize, lines "vc.epochDb = ...", "vc.epoch = ...", "vc.qualification = ...".
func (vc *ValidationCeremony) VerifC17Open() {
	vc.epochDb = database.NewEpochDb(vc.db, vc.appState.State.Epoch())
	vc.epoch = vc.appState.State.Epoch()
	vc.qualification = NewQualification(vc.config, vc.epochDb)
}

// VerifC17Restore = restoreState, lines "vc.qualification.restore()" and
// "vc.calculateCeremonyCandidates(true)" (the latter is guarded there by
// ValidationPeriod() != NonePeriod; the guard is repeated).
func (vc *ValidationCeremony) VerifC17Restore() {
	vc.qualification.restore()
	if vc.appState.State.ValidationPeriod() != state.NonePeriod {
		vc.calculateCeremonyCandidates(true)
	}
}

// VerifC17FlipLottery is what asyncFlipLotteryCalculations runs when the lottery block arrives.
func (vc *ValidationCeremony) VerifC17FlipLottery() { vc.calculateCeremonyCandidates(false) }

// VerifC17AddBlock is the node's new-block entry point (block handler of the
// current validation period, then qualification.persist()).
func (vc *ValidationCeremony) VerifC17AddBlock(block *types.Block) { vc.addBlock(block) }

func (vc *ValidationCeremony) VerifC17EpochDb() *database.EpochDb { return vc.epochDb }

func (vc *ValidationCeremony) VerifC17LotteryFinished() bool {
	return vc.lottery.finished && vc.shardCandidates != nil
}

type VerifC17Shard struct {
	Id            common.ShardId
	Candidates    []common.Address
	NonCandidates []common.Address
	Flips         [][]byte
	FlipAuthors   []common.Address // per flip index
	ShortFlips    [][]int          // per candidate index
	LongFlips     [][]int          // per candidate index
}

// VerifC17Shards copies the lottery tables out (shards ordered by id).
func (vc *ValidationCeremony) VerifC17Shards() []VerifC17Shard {
	var res []VerifC17Shard
	for id := common.ShardId(1); id <= common.ShardId(len(vc.shardCandidates)); id++ {
		s, ok := vc.shardCandidates[id]
		if !ok {
			continue
		}
		out := VerifC17Shard{Id: id}
		for _, c := range s.candidates {
			out.Candidates = append(out.Candidates, c.Address)
		}
		out.NonCandidates = append(out.NonCandidates, s.nonCandidates...)
		for _, f := range s.flips {
			out.Flips = append(out.Flips, append([]byte(nil), f...))
			out.FlipAuthors = append(out.FlipAuthors, s.flipAuthorMap[string(f)])
		}
		for _, l := range s.shortFlipsPerCandidate {
			out.ShortFlips = append(out.ShortFlips, append([]int(nil), l...))
		}
		for _, l := range s.longFlipsPerCandidate {
			out.LongFlips = append(out.LongFlips, append([]int(nil), l...))
		}
		res = append(res, out)
	}
	return res
}

type VerifC17CachedValue struct {
	Addr  common.Address
	Value VerifEpochValue
}

// VerifC17Cached copies the per-height cache entry ApplyNewEpoch left behind
// (entries in no particular order; the caller sorts).
func (vc *ValidationCeremony) VerifC17Cached(height uint64) (values []VerifC17CachedValue, failed bool, ok bool) {
	vc.applyEpochMutex.Lock()
	defer vc.applyEpochMutex.Unlock()
	c, ok := vc.epochApplyingCache[height]
	if !ok {
		return nil, false, false
	}
	for addr, v := range c.epochApplyingResult {
		values = append(values, VerifC17CachedValue{Addr: addr, Value: VerifEpochValue{
			State:                    v.state,
			PrevState:                v.prevState,
			ShortQualifiedFlipsCount: v.shortQualifiedFlipsCount,
			ShortFlipPoint:           v.shortFlipPoint,
			Birthday:                 v.birthday,
			Missed:                   v.missed,
			Participated:             v.participated,
			Delegatee:                v.delegatee,
		}})
	}
	return values, c.validationFailed, true
}

func VerifC17WordsRnd(hash [32]byte) uint64 { return getWordsRnd(hash) }

// VerifC17MempoolWordsRnd reads the words-rnd the mempool loop (newTxLoop) noted
// for a sender of gossiped short answers. The harness uses it only as a barrier:
// the loop is a single FIFO goroutine, so once a sentinel transaction shows up
// here every mempool event published before it has been handled.
func (vc *ValidationCeremony) VerifC17MempoolWordsRnd(addr common.Address) (uint64, bool) {
	v, ok := vc.flipWordsInfo.pool.Load(addr)
	if !ok {
		return 0, false
	}
	return v.(uint64), true
}

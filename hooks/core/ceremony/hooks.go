//go:build verif

package ceremony

// Re-exports of unexported entry points for the verification harness. Injected
// by the build overlay; contains no logic of its own.

import (
	"math/big"

	"github.com/idena-network/idena-go/common"
	"github.com/idena-network/idena-go/config"
	"github.com/idena-network/idena-go/core/appstate"
	"github.com/idena-network/idena-go/core/state"
)

type VerifEpochValue struct {
	State                    state.IdentityState
	PrevState                state.IdentityState
	ShortQualifiedFlipsCount uint32
	ShortFlipPoint           float32
	Birthday                 uint16
	Missed                   bool
	Participated             bool
	Delegatee                *common.Address
}

func VerifApplyOnState(cfg *config.ConsensusConf, appState *appstate.AppState, currentEpoch uint16, addr common.Address, v VerifEpochValue) (validated bool, pool *common.Address, nonValidatedStake *big.Int) {
	return applyOnState(cfg, appState, currentEpoch, nil, addr, cacheValue{
		state:                    v.State,
		prevState:                v.PrevState,
		shortQualifiedFlipsCount: v.ShortQualifiedFlipsCount,
		shortFlipPoint:           v.ShortFlipPoint,
		birthday:                 v.Birthday,
		missed:                   v.Missed,
		participated:             v.Participated,
		delegatee:                v.Delegatee,
	})
}

func VerifDetermineNewIdentityState(identity state.Identity, shortScore, longScore, totalScore float32, totalQualifiedFlips uint32, missed, noQualShort, nonQualLong, candidateToNewbieFixEnabled, enableUpgrade10 bool, shortQualifiedFlipsCount uint32, enableUpgrade12 bool) state.IdentityState {
	return determineNewIdentityState(identity, shortScore, longScore, totalScore, totalQualifiedFlips, missed, noQualShort, nonQualLong, candidateToNewbieFixEnabled, enableUpgrade10, shortQualifiedFlipsCount, enableUpgrade12)
}

func VerifDetermineIdentityBirthday(currentEpoch uint16, identity state.Identity, newState state.IdentityState) uint16 {
	return determineIdentityBirthday(currentEpoch, identity, newState)
}

func VerifCalculateNewTotalScore(scores []byte, shortPoints float32, shortFlipsCount uint32, totalShortPoints float32, totalShortFlipsCount uint32) (float32, uint32) {
	return calculateNewTotalScore(scores, shortPoints, shortFlipsCount, totalShortPoints, totalShortFlipsCount)
}

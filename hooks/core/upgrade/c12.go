//go:build verif

package upgrade

// Re-export for the verification harness (check C12). Injected by the build
// overlay; no logic of its own.

// VerifC12DrainVote processes one queued vote exactly as startListening does,
// but on the calling goroutine. It reports whether the queue held a vote.
func (u *Upgrader) VerifC12DrainVote() bool {
	select {
	case v := <-u.votesChan:
		u.processVote(v)
		return true
	default:
		return false
	}
}

//go:build verif

package flip

// Re-export for the verification harness (check C12). Injected by the build
// overlay; no logic of its own.

import "github.com/idena-network/idena-go/blockchain/types"

// VerifC12DrainOne takes one flip received from the network out of the queue
// AddNewFlip(flip, false) put it in and processes it exactly as writeLoop does,
// but on the calling goroutine. It reports whether the queue held a flip.
func (fp *Flipper) VerifC12DrainOne() (bool, error) {
	select {
	case f := <-fp.flipsQueue:
		return true, fp.addNewFlip(f, false)
	default:
		return false, nil
	}
}

// VerifC12AddNewFlip is addNewFlip for a flip received from the network.
func (fp *Flipper) VerifC12AddNewFlip(f *types.Flip) error { return fp.addNewFlip(f, false) }

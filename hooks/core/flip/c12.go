//go:build verif

package flip

// Re-export for the verification harness (check C12). Injected by the build
// overlay; no logic of its own.

import (
	"context"

	"github.com/idena-network/idena-go/blockchain/types"
	"github.com/idena-network/idena-go/common"
	"github.com/idena-network/idena-go/common/eventbus"
	"github.com/idena-network/idena-go/core/appstate"
	"github.com/idena-network/idena-go/core/mempool"
	"github.com/idena-network/idena-go/ipfs"
	"github.com/idena-network/idena-go/log"
	"github.com/idena-network/idena-go/secstore"
	dbm "github.com/tendermint/tm-db"
)

// VerifC12DrainOne takes one flip received from the network out of the queue
// AddNewFlip(flip, false) put it in and processes it exactly as writeLoop does,
// but on the calling goroutine. It reports whether the queue held a flip.
func (fp *Flipper) VerifC12DrainOne() (bool, error) {
	select {
	case f := <-fp.flipsQueue:
		return true, fp.addNewFlip(f, false)
	default:
		return false, nil
	}
}

// VerifC12AddNewFlip is addNewFlip for a flip received from the network.
func (fp *Flipper) VerifC12AddNewFlip(f *types.Flip) error { return fp.addNewFlip(f, false) }

// VerifC12NewFlipper is NewFlipper without the writeLoop goroutine, so that a
// flip queued by AddNewFlip(flip, false) stays in the queue until
// VerifC12DrainOne processes it on the calling goroutine.
func VerifC12NewFlipper(db dbm.DB, ipfsProxy ipfs.Proxy, keyspool *mempool.KeysPool, txpool *mempool.TxPool, secStore *secstore.SecStore, appState *appstate.AppState, bus eventbus.Bus) *Flipper {
	ctx, cancel := context.WithCancel(context.Background())
	return &Flipper{
		db:               db,
		log:              log.New(),
		ipfsProxy:        ipfsProxy,
		keyspool:         keyspool,
		txpool:           txpool,
		secStore:         secStore,
		flips:            make(map[common.Hash]*IpfsFlip),
		flipReadiness:    make(map[common.Hash]bool),
		appState:         appState,
		loadingCtx:       ctx,
		cancelLoadingCtx: cancel,
		bus:              bus,
		flipsQueue:       make(chan *types.Flip, 1000),
	}
}

//go:build verif

package mempool

// Hook for the world simulator. Injected by the build overlay; no logic.

import (
	"github.com/idena-network/idena-go/blockchain/types"
	"github.com/idena-network/idena-go/blockchain/validation"
	"github.com/idena-network/idena-go/core/appstate"
)

// VerifAddAgainst is the pool's own admission (add) with the state view chosen by the caller. AddExternalTxs takes the
// read-only view of the head ONCE per network batch; a block inserted while the batch is processed leaves the rest of
// the batch admitted against the previous head. The simulator reproduces that window by passing the older view.
func (pool *TxPool) VerifAddAgainst(tx *types.Transaction, view *appstate.AppState, txType validation.TxType) error {
	return pool.add(tx, view, false, txType)
}

//go:build verif

package mempool

// Re-export for the verification harness (check C18); alias only, no logic.

type VerifKeysArray = keysArray

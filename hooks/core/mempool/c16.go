//go:build verif

package mempool

// C16 hooks (key delivery). Injected by the build overlay; no logic.

import (
	"github.com/idena-network/idena-go/blockchain/types"
	"github.com/idena-network/idena-go/common"
	"github.com/idena-network/idena-go/crypto/ecies"
)

func VerifC16GetEncryptedKeyFromPackage(publicFlipKey *ecies.PrivateKey, data []byte, index int) ([]byte, error) {
	return getEncryptedKeyFromPackage(publicFlipKey, data, index)
}

// VerifC16PutKeys places an author's published flip key and keys package into
// the pool's in-memory maps, i.e. the state putPublicFlipKey and
// putPrivateFlipKeysPackage leave behind once the messages have passed
// validation (signature, epoch, sender has flips), so that the real
// GetPublicFlipKey / GetEncryptedPrivateFlipKey can be driven without a chain.
func (p *KeysPool) VerifC16PutKeys(author common.Address, key *types.PublicFlipKey, keysPackage *types.PrivateFlipKeysPackage) {
	p.publicKeyMutex.Lock()
	p.flipKeys[author] = key
	p.publicKeyMutex.Unlock()
	p.privateKeysMutex.Lock()
	p.flipKeyPackages[author] = keysPackage
	delete(p.privateKeysArrayCache, author)
	p.privateKeysMutex.Unlock()
}

// VerifC16PutPublicKey / VerifC16PutPackage place only what putPublicFlipKey / putPrivateFlipKeysPackage store once a
// message has passed validation (the two map writes, nothing else), so that arrival orders can be driven: the public
// key of an author may be known, and looked up, before its keys package arrives.
func (p *KeysPool) VerifC16PutPublicKey(author common.Address, key *types.PublicFlipKey) {
	p.publicKeyMutex.Lock()
	p.flipKeys[author] = key
	p.publicKeyMutex.Unlock()
}

func (p *KeysPool) VerifC16PutPackage(author common.Address, keysPackage *types.PrivateFlipKeysPackage) {
	p.privateKeysMutex.Lock()
	p.flipKeyPackages[author] = keysPackage
	p.privateKeysMutex.Unlock()
}

//go:build verif

package state

import "github.com/idena-network/idena-go/common"

// Re-exports for the verification harness (check C18): the objects the state
// database decodes from its tree. No logic.

func (s *StateDB) VerifC18Global() Global { return s.GetOrNewGlobalObject().data }

func (s *StateDB) VerifC18Account(addr common.Address) Account {
	return s.GetOrNewAccountObject(addr).data
}

func (s *IdentityStateDB) VerifC18ApprovedIdentity(addr common.Address) ApprovedIdentity {
	return s.GetOrNewIdentityObject(addr).data
}
